"""Rules over the in-process sweep (combo_runner.py / prepare.py), shared by
C01, C02, C03 (and C04 / C15 for the parts they need)."""
import ast

from ..loader import AnalysisError, norm, walk_shallow
from ..cfg import build_cfg, node_calls, walk_expr
from ..flow import (TOP, NONE, TRUE, FALSE, TRUTHY, FALSY, NOTNONE, valuations, truth, is_const, path_key)
from ..order import OrderInter, is_seq, is_el, seq
from ..util import callee_name, all_calls, arg, need, names_in, single_def, assignments_to

CR = "xyzpy.gen.combo_runner"
PREP = "xyzpy.gen.prepare"
CORE = CR + ".combo_runner_core"
HELPERS = (CR + "._run_linear_sequential", CR + "._run_linear_executor")

CORE_FLAGS = {
    "shuffle": [FALSE, TRUTHY], "cases": [FALSY, TRUTHY], "flat": [FALSE, TRUE], "split": [FALSE, TRUE],
    "executor": [NONE, NOTNONE], "parallel": [FALSE, TRUTHY], "info": [NONE, ("obj", "info")], "combos": [TRUTHY, FALSY],
}


def show_val(val):
    out = []
    for k in sorted(val):
        v = val[k]
        out.append("%s=%s" % (k, v[1] if is_const(v) else (v[0] if v[0] != "obj" else "given")))
    return ", ".join(out)


def base_order(fl):
    """The enumeration order created by the settings nest in core."""
    tags = set()
    for env in fl.IN.values():
        for k in ("settings", "locs", "ordered_settings"):
            v = env.get(k)
            if is_seq(v) and isinstance(v[1], tuple) and v[1][0] == "E" and str(v[1][1]).startswith("nest:"):
                tags.add(v[1])
    return tags


def core_valuations():
    for val in valuations(CORE_FLAGS):
        if val["executor"] != NONE and val["parallel"] != FALSE:
            continue   # executor given: parallel irrelevant
        if val["combos"] == FALSY and val["cases"] == FALSY:
            continue   # nothing to sweep
        v = dict(val)
        v["num_workers"] = NONE
        yield v


def describe_order(o):
    if o == "DIS":
        return "a destroyed order"
    if o == "UNK":
        return "an unknown order"
    if isinstance(o, tuple) and o[0] == "P":
        return "the shuffled order (permutation #%s)" % o[1]
    if isinstance(o, tuple) and o[0] == "E":
        return "enumeration order"
    if isinstance(o, tuple) and o[0] == "F":
        return "a filtered order"
    return repr(o)


def order_rule(ctx, rid, check_info=True, only_cases=None):
    """C01.R1: every pairing of tracked sequences is order-aligned in every
    configuration, and the flat return value / info['settings'] are in
    enumeration order."""
    rr = ctx.rule(rid, "order alignment at every zip sink and of the flat result, for every configuration", floor=60)
    core = ctx.prog.need_func(CORE)
    n_cfg = 0
    pending = None
    for val in core_valuations():
        if only_cases is not None and (truth(val["cases"]) is not only_cases):
            continue
        n_cfg += 1
        inter = OrderInter(ctx)
        fl = inter.flow(core, val)
        vt = show_val(val)
        if ctx.prog.func(CORE) is None:
            raise AnalysisError("anchor lost")
        normal = fl.cfg.exit.id in fl.IN
        if not normal:
            rr.ok("core [%s]: no normal exit (rejected)" % vt)
            continue
        bases = base_order(fl)
        if len(bases) != 1:
            raise AnalysisError("idiom changed: expected exactly one settings-enumeration nest in combo_runner_core, found %s [%s]" % (sorted(bases), vt))
        base = next(iter(bases))
        for (sfi, call, a, b, ok, stack) in inter.sinks:
            if a[1] == "UNK" or b[1] == "UNK":
                raise AnalysisError("unrecognised sequence transformation reaches `%s` in %s [%s]: %s / %s" % (norm(call), sfi.qualname, vt, a, b))
            if ok:
                rr.ok("%s `%s` aligned [%s]" % (sfi.name, norm(call)[:40], vt), "%s|%s|%s" % (sfi.qualname, norm(call), vt))
            else:
                rr.bad(ctx.finding(rid, sfi, call, "`%s` pairs a sequence in %s with one in %s (%s): each element is matched with another setting's value" % (norm(call), describe_order(a[1]), describe_order(b[1]), vt),
                                   construct="misaligned " + norm(call), path=vt), "%s `%s` aligned [%s]" % (sfi.name, norm(call)[:40], vt))
        for (dfi, node, what) in inter.destroyed:
            pass  # reported through the sinks / return value they reach
        ret = fl.returns
        if truth(val["flat"]):
            r = ret
            if truth(val["split"]):
                if is_seq(r) and is_seq(r[2]):
                    r = r[2]
                else:
                    r = None
            if r is None or not is_seq(r):
                raise AnalysisError("flat return value not tracked [%s]: %r" % (vt, ret))
            if r[1] != base:
                rr.bad(ctx.finding(rid, core, core.node, "with flat output the results are returned in %s, not in enumeration order (%s): results no longer line up with the settings they belong to" % (describe_order(r[1]), vt),
                                   construct="flat-result-order", path=vt), "flat result order [%s]" % vt)
            else:
                rr.ok("flat result in enumeration order [%s]" % vt)
            if check_info and val["info"] != NONE:
                s = fl.out_stores.get("info['settings']")
                if s is None:
                    rr.bad(ctx.finding(rid, core, core.node, "info['settings'] is not recorded for flat output (%s)" % vt, construct="info-settings-missing", path=vt), "info settings [%s]" % vt)
                elif not is_seq(s) or s[1] != base:
                    rr.bad(ctx.finding(rid, core, core.node, "info['settings'] holds the settings in %s while the flat results are in enumeration order (%s): every labelled row pairs one setting's arguments with another setting's outputs"
                                       % (describe_order(s[1]) if is_seq(s) else "an untracked form", vt), construct="info-settings-order", path=vt), "info settings order [%s]" % vt)
                else:
                    rr.ok("info['settings'] in enumeration order [%s]" % vt)
        else:
            # nested: placement is keyed by location, so alignment of the
            # dict(zip(locs, r)) sink is what matters; it must exist
            zs = [s for s in inter.sinks if "locs" in str(s[2][2]) or "locs" in str(s[3][2])]
            if not zs:
                pending = pending or AnalysisError("idiom changed: the location -> result pairing of the nested output was not observed (%s); returned %r" % (vt, ret))
    ctx.extra["configurations_enumerated"] = ctx.extra.get("configurations_enumerated", 0) + n_cfg
    ctx.extra["exhaustive"] = True
    if pending is not None and not rr.findings:
        raise pending
    return rr


def exactly_once_rule(ctx, rid):
    """C01.R2: the swept function is invoked exactly once per setting, in
    order, by exactly one helper on every path; never directly by core."""
    rr = ctx.rule(rid, "exactly one order-preserving evaluation per setting; futures resolved in submission order", floor=8)
    prog = ctx.prog
    core = prog.need_func(CORE)
    fnp = core.positional[0]
    g = build_cfg(core.node)
    ctx.touch(core, g)
    # fn is never called in core, only handed to the helpers
    direct = [c for c in walk_shallow(core.node) if isinstance(c, ast.Call) and isinstance(c.func, ast.Name) and c.func.id == fnp]
    for c in direct:
        rr.bad(ctx.finding(rid, core, c, "combo_runner_core calls the swept function itself (`%s`): an extra evaluation besides the one per setting" % norm(c), construct="direct-fn-call"), "fn not called in core")
    for nf in core.nested.values():
        for c in ast.walk(nf.node):
            if isinstance(c, ast.Call) and isinstance(c.func, ast.Name) and c.func.id == fnp:
                rr.bad(ctx.finding(rid, nf, c, "the swept function is called again while processing results (`%s`)" % norm(c), construct="direct-fn-call-nested"), "fn not called in closures")
    if not direct:
        rr.ok("combo_runner_core never calls `%s` itself" % fnp)
    # a dispatcher: a module function that only hands its function parameter on to exactly one run-linear helper per path
    dispatchers = set()
    for cand in core.module.all_funcs:
        if cand.qualname in HELPERS or cand is core or cand.parent is not None or cand.cls is not None or not cand.positional:
            continue
        cp = [p_ for p_ in cand.positional if p_ in ("fn", fnp)]
        if not cp:
            continue
        cp = cp[0]
        cu = [n for n in walk_shallow(cand.node) if isinstance(n, ast.Name) and n.id == cp and isinstance(n.ctx, ast.Load)]
        if not cu:
            continue
        okd = True
        for u in cu:
            par = getattr(u, "_parent", None)
            if not (isinstance(par, ast.Call) and u in par.args and callee_name(ctx, cand, par) in HELPERS) and not (isinstance(par, ast.keyword) and callee_name(ctx, cand, getattr(par, "_parent", None)) in HELPERS if isinstance(getattr(par, "_parent", None), ast.Call) else False):
                okd = False
        if not okd:
            continue
        cg = build_cfg(cand.node)
        hnodes = [n.id for n in cg.nodes for c in node_calls(n) if callee_name(ctx, cand, c) in HELPERS]
        if not hnodes or cg.exit.id in cg.reachable(blocked_nodes=hnodes):
            continue
        twice_d = False
        for hid in hnodes:
            aft = set()
            for b_, l_ in cg.succ[hid]:
                if l_ != "exc":
                    aft |= cg.reachable(start=b_) | {b_}
            if aft & set(hnodes):
                twice_d = True
        if twice_d:
            continue
        dispatchers.add(cand.qualname)
        ctx.touch(cand, cg)
        rr.ok("%s dispatches to exactly one run-linear helper on every path" % cand.name)
    HELPERS_X = set(HELPERS) | dispatchers
    uses = [n for n in walk_shallow(core.node) if isinstance(n, ast.Name) and n.id == fnp and isinstance(n.ctx, ast.Load)]
    for u in uses:
        par = getattr(u, "_parent", None)
        ok = isinstance(par, ast.Dict) or (isinstance(par, (ast.keyword,)) ) or (isinstance(par, ast.Call) and u in par.args and callee_name(ctx, core, par) in HELPERS_X)
        if not ok:
            rr.bad(ctx.finding(rid, core, u, "the swept function flows somewhere other than the run-linear helpers: %s" % norm(par) if par is not None else fnp, construct="fn-flows-elsewhere"), "fn flow")
    # exactly one helper per configuration
    for val in core_valuations():
        if val["info"] != NONE or truth(val["flat"]) or truth(val["split"]):
            continue
        inter = OrderInter(ctx)
        fl = inter.flow(core, val)
        if fl.cfg.exit.id not in fl.IN:
            continue
        hn = [(n, c) for n in fl.cfg.nodes if n.id in fl.visited for c in node_calls(n) if callee_name(ctx, core, c) in HELPERS_X]
        vt = show_val(val)
        H = [n.id for n, _ in hn]
        g2 = fl.cfg
        if not hn or g2.exit.id in g2.reachable(blocked_nodes=H, feasible=fl.feasible):
            rr.bad(ctx.finding(rid, core, core.node, "a normal exit is reachable without any run-linear helper having evaluated the settings (%s)" % vt, construct="helper-skipped", path=vt), "a helper on all paths [%s]" % vt)
            continue
        twice = None
        for n, c in hn:
            after = set()
            for b_, l_ in g2.succ[n.id]:
                if l_ != "exc" and (n.id, b_, l_) in fl.feasible:
                    after |= g2.reachable(start=b_, feasible=fl.feasible) | {b_}
            if after & set(H):
                twice = (n, c)
        if twice:
            rr.bad(ctx.finding(rid, core, twice[1], "after `%s` another run-linear helper call is reachable (%s): the settings are evaluated more than once" % (norm(twice[1].func), vt), construct="helper-twice", path=vt), "one helper [%s]" % vt)
        else:
            rr.ok("exactly one of %d helper call sites runs on every path [%s]" % (len(hn), vt))
    # a run-linear helper that hands the function on to another module function (a chunked / batched variant): the chunks
    # must partition the settings in order -- evaluated on a window of sizes by the analyser's own interpreter
    from ..util import IntEval, callee_func
    for hq in HELPERS:
        h = prog.need_func(hq)
        for c in walk_shallow(h.node):
            if not isinstance(c, ast.Call):
                continue
            cf = callee_func(ctx, h, c)
            if cf is None or cf.qualname in HELPERS or cf.qualname == CR + "._submit" or cf.module is not h.module:
                continue
            if not any(isinstance(a_, ast.Name) and a_.id == "fn" for a_ in list(c.args) + [k.value for k in c.keywords]):
                continue
            ctx.touch(cf)
            need("settings" in cf.params, "idiom changed: %s delegates the evaluation to %s, which has no `settings` parameter" % (h.name, cf.name))
            subs = [x for x in ast.walk(cf.node) if isinstance(x, ast.Call) and (callee_name(ctx, cf, x) == CR + "._submit" or (isinstance(x.func, ast.Name) and x.func.id == "fn"))]
            need(len(subs) == 1, "idiom changed: %s evaluates / submits at %d sites" % (cf.name, len(subs)))
            comp = None
            for p_ in _anc(subs[0]):
                if isinstance(p_, (ast.ListComp, ast.GeneratorExp)) and len(p_.generators) == 1:
                    comp = p_.generators[0].iter
                    break
                if isinstance(p_, ast.For):
                    comp = p_.iter
                    break
            need(comp is not None, "idiom changed: the submission loop of %s" % cf.name)
            if norm(comp) == "settings":
                continue
            need(isinstance(comp, ast.Name), "idiom changed: %s submits over `%s`" % (cf.name, norm(comp)))
            cd = single_def(cf, comp.id)
            need(cd is not None, "idiom changed: the chunks `%s` of %s" % (comp.id, cf.name))
            others = [p for p in cf.positional if p not in ("executor", "fn", "settings", "verbosity")]
            need(len(others) <= 1, "idiom changed: parameters of %s" % cf.name)
            wrong = None
            n_eval = 0
            for n_ in range(0, 13):
                for size in (range(1, 6) if others else [None]):
                    st0 = {"settings": tuple(range(n_))}
                    if others:
                        st0[others[0]] = size
                    try:
                        chunks = IntEval({}).ev(cd[1], st0)
                        flat = tuple(x for ch in chunks for x in ch)
                    except AnalysisError as e_:
                        raise AnalysisError("idiom changed: the chunks of %s cannot be evaluated (%s)" % (cf.name, e_))
                    except (ZeroDivisionError, TypeError, ValueError):
                        continue
                    n_eval += 1
                    if flat != tuple(range(n_)) and (wrong is None or (size and wrong[0] < 2 * wrong[1] and n_ >= 2 * size)):
                        wrong = (n_, size, flat)
            need(n_eval >= 20, "idiom changed: the chunks of %s could be evaluated on %d window points only" % (cf.name, n_eval))
            if wrong and wrong[1] and wrong[0] < 2 * wrong[1]:
                raise AnalysisError("idiom changed: the chunks of %s fail to cover the settings only when there are fewer than two chunks (n=%d, size=%d); whether the caller excludes that is not analysed" % (cf.name, wrong[0], wrong[1]))
            if wrong:
                rr.bad(ctx.finding(rid, cf, cd[1], "%s splits the settings into `%s`: with %d settings%s the chunks hold the settings %s -- %s, so some combinations are never evaluated (their slots stay empty) or are evaluated twice" % (
                    cf.name, norm(cd[1])[:70], wrong[0], (" and %s=%d" % (others[0], wrong[1])) if others else "", list(wrong[2]), "not all of them exactly once in order"), construct="chunks-partition " + cf.name), "%s chunks" % cf.name)
            else:
                raise AnalysisError("idiom changed: %s evaluates the settings in chunks; the chunks partition the settings on the window, the order of the collected results is not analysed" % cf.name)
    # helpers: one evaluation per element, in order
    for hq in HELPERS:
        h = prog.need_func(hq)
        hg = build_cfg(h.node)
        ctx.touch(h, hg)
        sp = "settings"
        need(sp in h.params, "idiom changed: %s has no `settings` parameter" % hq)
        inter = OrderInter(ctx)
        fl = inter.flow(h, {sp: seq(("E", "in"), "setting"), "fn": ("obj", "fn")})
        ret = fl.returns
        if not (is_seq(ret) and ret[1] == ("E", "in")):
            bad = [x for x in inter.destroyed]
            nd = bad[0][1] if bad else h.node
            rr.bad(ctx.finding(rid, h, nd, "%s does not return its results in the order of `settings` (%s%s): results are attributed to the wrong settings for some completion orders / inputs"
                               % (h.name, describe_order(ret[1]) if is_seq(ret) else "untracked value", ("; " + bad[0][2]) if bad else ""), construct="helper-order " + h.name), "%s order" % h.name)
        else:
            rr.ok("%s maps settings -> results in order (%s)" % (h.name, ret[2]))
        for (sfi, call, a, b, ok, st) in inter.sinks:
            if not ok:
                rr.bad(ctx.finding(rid, sfi, call, "`%s` pairs %s with %s" % (norm(call), describe_order(a[1]), describe_order(b[1])), construct="helper-misaligned " + norm(call)), "%s sinks" % h.name)
        # one evaluation site, inside an unconditional single loop / comprehension over settings
        sites = []
        for c in ast.walk(h.node):
            if isinstance(c, ast.Call):
                nm = callee_name(ctx, h, c)
                if (isinstance(c.func, ast.Name) and c.func.id == "fn") or (nm == CR + "._submit"):
                    sites.append(c)
        if len(sites) != 1:
            rr.bad(ctx.finding(rid, h, sites[1] if len(sites) > 1 else h.node, "%s evaluates / submits the function at %d sites instead of one" % (h.name, len(sites)), construct="eval-sites-%d" % len(sites)), "%s one site" % h.name)
        else:
            c = sites[0]
            # enclosing iteration
            p = getattr(c, "_parent", None)
            loops, conds = [], []
            while p is not None and p is not h.node:
                if isinstance(p, (ast.For, ast.comprehension, ast.ListComp, ast.GeneratorExp)):
                    loops.append(p)
                if isinstance(p, (ast.If, ast.IfExp, ast.Try, ast.While)):
                    conds.append(p)
                p = getattr(p, "_parent", None)
            comp_iters = [l for l in loops if isinstance(l, (ast.ListComp, ast.GeneratorExp))]
            for_loops = [l for l in loops if isinstance(l, ast.For)]
            it_ok = False
            if len(for_loops) == 1 and not comp_iters and norm(for_loops[0].iter) == sp:
                it_ok = True
            if len(comp_iters) == 1 and not for_loops and len(comp_iters[0].generators) == 1 and norm(comp_iters[0].generators[0].iter) == sp \
                    and not comp_iters[0].generators[0].ifs:
                it_ok = True
            filtered = any(isinstance(l, (ast.ListComp, ast.GeneratorExp)) and any(g_.ifs for g_ in l.generators) for l in comp_iters)
            nested_twice = len(for_loops) + len(comp_iters) > 1 and sum(1 for l in for_loops if norm(l.iter) == sp) + sum(1 for l in comp_iters for g_ in l.generators if norm(g_.iter) == sp) >= 1
            if conds or filtered or nested_twice:
                rr.bad(ctx.finding(rid, h, c, "`%s` is not evaluated exactly once per element of `settings` (conditional, filtered or nested iteration)" % norm(c)[:50], construct="eval-not-once " + h.name), "%s once per setting" % h.name)
            elif not it_ok:
                raise AnalysisError("idiom changed: where %s evaluates `%s` (not directly in one loop over `settings`)" % (h.name, norm(c)[:40]))
            else:
                kwsplat = [k for k in c.keywords if k.arg is None]
                rr.ok("%s: `%s` once per element of settings, unconditionally" % (h.name, norm(c)[:50]))
    return rr


def _core_names(ctx, core0):
    """Local names of combo_runner_core by role (not by spelling): the argument-name tuples, the value tuples, the
    per-argument union of case values, the concatenated names and the coordinate lists of the full grid."""
    N = {}
    for n in walk_shallow(core0.node):
        if isinstance(n, ast.Assign) and isinstance(n.targets[0], ast.Tuple) and len(n.targets[0].elts) == 2 and isinstance(n.value, ast.Call) and norm(n.value.func) == "zip" \
                and len(n.value.args) == 1 and isinstance(n.value.args[0], ast.Starred) and norm(n.value.args[0].value) == "combos":
            N["combo_args"], N["combo_values"] = (norm(e) for e in n.targets[0].elts)
    need("combo_args" in N, "anchor lost: <names>, <values> = zip(*combos) in combo_runner_core")
    # the normalisation of `cases`: in the no-cases arm the case names are (), the case values ((),) and the union {}
    for n in walk_shallow(core0.node):
        if isinstance(n, ast.If) and norm(n.test) == "cases" and n.orelse:
            for st in n.orelse:
                if isinstance(st, ast.Assign) and isinstance(st.targets[0], ast.Name):
                    v = norm(st.value)
                    t = st.targets[0].id
                    if v == "((),)":
                        N["case_values"] = t
                    elif v in ("{}", "dict()"):
                        N["case_coords"] = t
                    elif v == "()" and t != "cases":
                        N["case_args"] = t
    need({"case_values", "case_coords", "case_args"} <= set(N), "anchor lost: the no-cases normalisation (names (), values ((),), union {}) in combo_runner_core")
    fa = [n.targets[0].id for n in walk_shallow(core0.node) if isinstance(n, ast.Assign) and isinstance(n.targets[0], ast.Name) and isinstance(n.value, ast.BinOp) and isinstance(n.value.op, ast.Add)
          and {norm(n.value.left), norm(n.value.right)} == {N["case_args"], N["combo_args"]}]
    need(len(fa) == 1, "idiom changed: the concatenated argument names in combo_runner_core")
    N["fn_args"] = fa[0]
    grid = [(n.targets[0].id, n.value) for n in walk_shallow(core0.node) if isinstance(n, ast.Assign) and isinstance(n.targets[0], ast.Name) and isinstance(n.value, ast.BinOp) and isinstance(n.value.op, ast.Add)
            and N["combo_values"] in (norm(n.value.left), norm(n.value.right)) and n.targets[0].id != N["fn_args"] and not any(isinstance(p_, ast.For) for p_ in _anc(n))]
    need(len(grid) == 1, "idiom changed: the coordinate lists of the full grid (%s)" % [norm(v) for _, v in grid])
    N["grid"], N["grid_expr"] = grid[0]
    return N


def _anc(n):
    p = getattr(n, "_parent", None)
    while p is not None:
        yield p
        p = getattr(p, "_parent", None)


def settings_construction_rule(ctx, rid):
    """C01.R3: how each kwargs dict and location is built."""
    from ..pathcond import canon
    rr = ctx.rule(rid, "settings construction: lock-step appends, kwargs = names x location + constants, [case, combo] order everywhere", floor=5)
    core0 = ctx.prog.need_func(CORE)
    core = core0

    def _append_recvs(fn):
        """receivers of `.append` statements that sit directly in a loop body, per loop"""
        by_loop = {}
        for n in walk_shallow(fn.node):
            if isinstance(n, ast.Expr) and isinstance(n.value, ast.Call) and isinstance(n.value.func, ast.Attribute) and n.value.func.attr == "append" and isinstance(n.value.func.value, ast.Name) and len(n.value.args) == 1:
                p_ = getattr(n, "_parent", None)
                q_ = p_
                while q_ is not None and not isinstance(q_, ast.For) and q_ is not fn.node:
                    q_ = getattr(q_, "_parent", None)
                if isinstance(q_, ast.For) and isinstance(getattr(q_, "_parent", None), ast.For):
                    by_loop.setdefault(id(q_), (q_, []))[1].append(n)
        return by_loop

    def _pick(fn):
        for q_, lst in _append_recvs(fn).values():
            if len({n.value.func.value.id for n in lst}) >= 2:
                return q_, lst
        return None
    picked = _pick(core0)
    if picked is None:
        for fn in ctx.res.slice([core0]):
            if fn.module is core0.module and fn is not core0 and _pick(fn) is not None:
                core, picked = fn, _pick(fn)
    need(picked is not None, "idiom changed: locs / settings appends in combo_runner_core")
    ctx.touch(core)
    g = build_cfg(core.node)
    loop, app_stmts = picked
    N = _core_names(ctx, core0)
    # which of the appended lists holds the keyword dictionaries?  the one whose appended value is built by dict(...) / a dict display / .update
    def _is_kwargs(app):
        v = app.value.args[0]
        if isinstance(v, (ast.Dict,)) or (isinstance(v, ast.Call) and norm(v.func) == "dict"):
            return True
        if isinstance(v, ast.Name):
            for st in loop.body:
                if isinstance(st, ast.Assign) and any(norm(t) == v.id for t in st.targets) and (isinstance(st.value, ast.Dict) or (isinstance(st.value, ast.Call) and norm(st.value.func) == "dict")):
                    return True
        return False
    apps = {"locs": [a_ for a_ in app_stmts if not _is_kwargs(a_)], "settings": [a_ for a_ in app_stmts if _is_kwargs(a_)]}
    recv = {k: {a_.value.func.value.id for a_ in v} for k, v in apps.items()}
    need(all(len(v) == 1 for v in recv.values()), "idiom changed: locs / settings appends in combo_runner_core")
    N["locs"], N["settings"] = recv["locs"].pop(), recv["settings"].pop()
    # appends to the same lists elsewhere in the function (conditional / another loop)
    for n in walk_shallow(core.node):
        if isinstance(n, ast.Expr) and isinstance(n.value, ast.Call) and isinstance(n.value.func, ast.Attribute) and n.value.func.attr == "append" and norm(n.value.func.value) in (N["locs"], N["settings"]) and n not in app_stmts:
            apps["locs" if norm(n.value.func.value) == N["locs"] else "settings"].append(n)
    if len(apps["locs"]) != 1 or len(apps["settings"]) != 1:
        rr.bad(ctx.finding(rid, core, (apps["locs"] + apps["settings"])[-1], "locations and settings are appended %d / %d times per iteration" % (len(apps["locs"]), len(apps["settings"])), construct="append-count"), "one append each")
        return rr
    la, sa = apps["locs"][0], apps["settings"][0]
    if getattr(la, "_parent", None) is not getattr(sa, "_parent", None) or not isinstance(getattr(la, "_parent", None), ast.For):
        rr.bad(ctx.finding(rid, core, la, "`locs.append` and `settings.append` are not in the same loop body (one of them is conditional or in another loop): locations and settings drift apart", construct="append-lockstep"), "lock-step")
    else:
        rr.ok("one `locs.append(loc)` and one `settings.append(kws)` per innermost iteration, same block")
    loop = getattr(sa, "_parent", None)
    kw_name = norm(sa.value.args[0])
    body = loop.body if isinstance(loop, ast.For) else []
    # enclosing loop variables and what they iterate
    loopvars = {}
    p = loop
    outer_iter = None
    while isinstance(p, ast.For):
        for nm in names_in(p.target):
            loopvars[nm] = p.iter
        outer_iter = p.iter
        p = getattr(p, "_parent", None)
    need(N["case_values"] in names_in(outer_iter), "idiom changed: settings nest iterates over %s" % norm(outer_iter))
    for nm, it in loopvars.items():
        extra = names_in(it) - {"cases", N["case_values"], N["combo_values"], "itertools", "zip", "enumerate"}
        if extra:
            raise AnalysisError("idiom changed: settings nest iterates over %s" % norm(it))
    cvdefs = [v for _, v in (assignments_to(core0, N["case_values"]) + (assignments_to(core, N["case_values"], g) if core is not core0 else [])) if v is not None]

    def expand(e, depth=0):
        """names feeding expression e, following assignments in the loop body"""
        out = set()
        for nm in names_in(e):
            ds = [s for s in body if isinstance(s, ast.Assign) and any(norm(t) == nm for t in s.targets)]
            if ds and depth < 6:
                for d in ds:
                    out |= expand(d.value, depth + 1)
            else:
                out.add(nm)
        return out
    kstmts = [s for s in body if s is not sa and s is not la and kw_name in names_in(s)]
    srcs = set()
    for st in kstmts:
        srcs |= expand(st)
    srcs -= {kw_name, "dict", "zip"}
    allowed = {N["fn_args"], N["case_args"], N["combo_args"], "constants"} | set(loopvars)
    extra = srcs - allowed
    lits = [d for st in kstmts for d in ast.walk(st) if isinstance(d, ast.Dict) and any(k is not None for k in d.keys)]
    if extra or lits:
        rr.bad(ctx.finding(rid, core, kstmts[0] if kstmts else sa, "the keyword arguments of a setting take values from %s besides the argument names, the location and the constants: the function is called with something other than the combination and the constants"
                           % (sorted(extra) or "a literal entry"), construct="kwargs-extra-source"), "kwargs sources")
    elif "constants" not in srcs:
        rr.bad(ctx.finding(rid, core, kstmts[0] if kstmts else sa, "the constants are not added to the keyword arguments of each setting", construct="kwargs-no-constants"), "kwargs constants")
    elif not (srcs & {N["fn_args"], N["combo_args"]}) or not (set(loopvars) & srcs):
        rr.bad(ctx.finding(rid, core, kstmts[0] if kstmts else sa, "the keyword arguments are not built from the argument names and the current location (sources: %s)" % sorted(srcs), construct="kwargs-no-location"), "kwargs location")
    else:
        rr.ok("kwargs sources are exactly argument names, the current location and the constants: %s" % sorted(srcs))
    # name <-> value pairings inside the body
    roles = {N["fn_args"]: "all", N["case_args"]: "case", N["combo_args"]: "combo"}

    def role_of_values(e):
        ex = e
        if isinstance(e, ast.Name):
            ds = [s for s in body if isinstance(s, ast.Assign) and any(norm(t) == e.id for t in s.targets)]
            if len(ds) == 1:
                ex = ds[0].value
        if isinstance(ex, ast.BinOp) and isinstance(ex.op, ast.Add):
            l, r = role_of_values(ex.left), role_of_values(ex.right)
            return "all" if (l, r) == ("case", "combo") else "swapped" if (l, r) == ("combo", "case") else "?"
        if isinstance(ex, ast.Name) and ex.id in loopvars:
            it = loopvars[ex.id]
            if "product" in norm(it) and N["combo_values"] in names_in(it):
                return "combo"
            if N["case_values"] in names_in(it):
                return "case"
        return "?"
    for st in body:
        for z in ast.walk(st):
            if isinstance(z, ast.Call) and isinstance(z.func, ast.Name) and z.func.id == "zip" and len(z.args) == 2 and norm(z.args[0]) in roles:
                want_r = roles[norm(z.args[0])]
                got_r = role_of_values(z.args[1])
                if got_r != want_r:
                    rr.bad(ctx.finding(rid, core, z, "`%s` pairs the %s argument names with %s values: arguments receive another argument's value" % (norm(z), want_r, got_r), construct="names-values-roles " + want_r), "zip roles")
                else:
                    rr.ok("`%s` pairs %s names with %s values" % (norm(z), want_r, got_r))
    lr = role_of_values(la.value.args[0])
    if lr != "all":
        rr.bad(ctx.finding(rid, core, la, "the location appended for a setting is not case part + combo part (%s)" % norm(la.value.args[0]), construct="loc-shape"), "loc shape")
    else:
        rr.ok("location = case part + combo part")
    # [case, combo] concatenation order: the argument names, and the coordinate lists of the full grid
    d_fa = [v for _, v in assignments_to(core0, N["fn_args"]) if v is not None]
    need(len(d_fa) == 1, "idiom changed: %s is not a single concatenation" % N["fn_args"])
    got = (norm(d_fa[0].left), norm(d_fa[0].right))
    if got != (N["case_args"], N["combo_args"]):
        rr.bad(ctx.finding(rid, core, d_fa[0], "`%s = %s` concatenates in the order %s; names, locations and coordinate lists must all be [case part, combo part]" % (N["fn_args"], norm(d_fa[0]), got), construct="concat-order fn_args"), "concat fn_args")
    else:
        rr.ok("%s = %s + %s (case part first)" % (N["fn_args"], got[0], got[1]))
    gt, gv = N["grid"], N["grid_expr"]
    other = gv.left if norm(gv.right) == N["combo_values"] else gv.right
    ods = [v for _, v in assignments_to(core0, other.id) if v is not None] if isinstance(other, ast.Name) else []
    need((ods and all(N["case_coords"] in norm(v) for v in ods)) or (isinstance(other, ast.Call) and N["case_coords"] in norm(other)), "idiom changed: the case part of the full grid `%s`" % norm(other))
    if norm(gv.right) == N["combo_values"]:
        rr.ok("%s = %s (case part first)" % (gt, norm(gv)))
    else:
        rr.bad(ctx.finding(rid, core, gv, "`%s = %s` concatenates in the order (combo, case); names, locations and coordinate lists must all be [case part, combo part]" % (gt, norm(gv)), construct="concat-order all_combo_values"), "concat grid")
    # case values are selected by name in the order of case_args (dict cases may be spelled in any key order)
    cv = [v for v in cvdefs if not isinstance(v, ast.Tuple) or (isinstance(v, ast.Tuple) and v.elts and not isinstance(v.elts[0], ast.Tuple))]
    cvn = [canon(v) for v in cv]
    pats = {canon(ast.parse(t % N["case_args"], mode="eval").body) for t in ("tuple((tuple((c[a] for a in %s)) for c in cases))", "tuple([tuple([c[a] for a in %s]) for c in cases])", "[tuple((c[a] for a in %s)) for c in cases]")}
    if any(x in pats for x in cvn):
        rr.ok("case values are looked up by name in case_args order")
    else:
        nd = cv[0] if cv else core.node
        if any(".values()" in x for x in cvn):
            rr.bad(ctx.finding(rid, core0, nd, "case values are taken positionally from each case dict (found %s) instead of being looked up by argument name in the order of case_args: cases spelled as dicts with a different key order are filed under the wrong coordinates" % cvn, construct="case-values-by-name"), "case values by name")
        else:
            raise AnalysisError("idiom changed: construction of case_values %s" % cvn)
    return rr


def adapter_rule(ctx, rid):
    """C01.R4: _submit / _get_result follow the three executor APIs.  Each
    return of an executor call is classified by its *path condition* (the
    outcomes of the dominating tests), so if/elif chains and guard clauses are
    treated alike."""
    rr = ctx.rule(rid, "executor adapters: Pool packed, submit / ipyparallel apply_async unpacked, every branch returns or raises", floor=4)
    sub = ctx.prog.need_func(CR + "._submit")
    ctx.touch(sub)
    need(sub.positional[:2] == ["executor", "fn"] and sub.has_varargs and sub.has_kwargs, "idiom changed: _submit signature")
    va, kw = sub.node.args.vararg.arg, sub.node.args.kwarg.arg
    g = build_cfg(sub.node)

    def classify(t):
        tx = norm(t)
        if "isinstance(executor" in tx and "Pool" in tx:
            return "pool"
        if tx == "hasattr(executor, 'submit')":
            return "submit"
        if tx == "hasattr(executor, 'apply_async')":
            return "apply"
        return None
    tests = [n for n in g.nodes if n.kind == "test"]
    for t in tests:
        neg = False
        e = t.ast
        while isinstance(e, ast.UnaryOp) and isinstance(e.op, ast.Not):
            neg = not neg
            e = e.operand
        if classify(e) is None:
            raise AnalysisError("unrecognised executor test in _submit: %s" % norm(t.ast))
    rets = [n for n in g.nodes if n.kind == "stmt" and isinstance(n.ast, ast.Return)]
    kinds = set()
    for r in rets:
        call = r.ast.value
        if not (isinstance(call, ast.Call) and isinstance(call.func, ast.Attribute) and norm(call.func.value) == "executor"):
            rr.bad(ctx.finding(rid, sub, r.ast, "_submit returns `%s`, not the executor's call" % norm(r.ast.value), construct="submit-return " + norm(r.ast.value)[:40]), "branch returns")
            continue
        # path condition: for each test, which outcomes can reach r
        cond = {}
        for t in tests:
            e = t.ast
            neg = False
            while isinstance(e, ast.UnaryOp) and isinstance(e.op, ast.Not):
                neg = not neg
                e = e.operand
            k = classify(e)
            outs = set()
            for b_, l_ in g.succ[t.id]:
                if l_ in ("t", "f") and (b_ == r.id or r.id in g.reachable(start=b_, skip_labels=("exc",))):
                    outs.add((l_ == "t") != neg)
            if t.id in g.reachable(skip_labels=("exc",)) and g.dominates(t.id, r.id) and len(outs) == 1:
                cond[k] = outs.pop()
        meth = call.func.attr
        packed = [norm(a) for a in call.args] == ["fn", va, kw] and not call.keywords
        unpacked = [norm(a) for a in call.args] == ["fn", "*" + va] and [(k.arg, norm(k.value)) for k in call.keywords] == [(None, kw)]
        if cond.get("pool") is True:
            kinds.add("pool")
            if meth == "apply_async" and packed:
                rr.ok("multiprocessing Pool: apply_async(fn, args, kwds) (packed)")
            else:
                rr.bad(ctx.finding(rid, sub, call, "a multiprocessing.pool.Pool must be called as apply_async(fn, args, kwds); found %s" % norm(call), construct="pool-call"), "pool packed")
        elif cond.get("submit") is True:
            kinds.add("submit")
            if meth == "submit" and unpacked:
                rr.ok("concurrent.futures style: submit(fn, *args, **kwds)")
            else:
                rr.bad(ctx.finding(rid, sub, call, "a submit-style executor must be called as submit(fn, *args, **kwds); found %s" % norm(call), construct="submit-call"), "submit unpacked")
        elif cond.get("apply") is True:
            kinds.add("apply")
            if cond.get("pool") is not False:
                rr.bad(ctx.finding(rid, sub, call, "the generic apply_async branch is reached without the multiprocessing.pool.Pool case having been excluded first: Pools (packed arguments) and ipyparallel views (unpacked arguments) share the method name but not the signature", construct="apply-before-pool"), "pool before apply_async")
            if meth == "apply_async" and unpacked:
                rr.ok("ipyparallel style: apply_async(fn, *args, **kwds) (unpacked), with the Pool case excluded")
            else:
                rr.bad(ctx.finding(rid, sub, call, "an ipyparallel-style view must be called as apply_async(fn, *args, **kwds) (unpacked); found %s" % norm(call), construct="apply-call"), "apply unpacked")
        else:
            # an unconditional / differently guarded executor call
            if meth == "apply_async" and packed:
                kinds.add("pool")
                rr.bad(ctx.finding(rid, sub, call, "`%s` (packed arguments, the multiprocessing.Pool convention) is used for executors that are not known to be a Pool: an ipyparallel-style view receives (args, kwds) as two positional arguments" % norm(call), construct="apply-call"), "apply unpacked")
            else:
                raise AnalysisError("executor call with unrecognised guard in _submit: %s" % norm(call))
    for k in ("pool", "submit", "apply"):
        if k not in kinds:
            rr.bad(ctx.finding(rid, sub, sub.node, "_submit has no branch for the %s executor API (documented as supported)" % {"pool": "multiprocessing.pool.Pool", "submit": "submit-style", "apply": "ipyparallel apply_async"}[k], construct="missing-branch " + k), "branch %s" % k)
    # falling through all tests raises
    if g.exit.id in g.reachable(blocked_nodes=[r.id for r in rets], skip_labels=("exc",)):
        rr.bad(ctx.finding(rid, sub, sub.node, "_submit can fall through without returning a future or raising", construct="submit-fallthrough"), "fallthrough")
    else:
        rr.ok("_submit: an unsupported executor raises")
    gr = ctx.prog.need_func(CR + "._get_result")
    ctx.touch(gr)
    g2 = build_cfg(gr.node)
    rets2 = [n for n in g2.nodes if n.kind == "stmt" and isinstance(n.ast, ast.Return)]
    bad2 = [n for n in rets2 if not (isinstance(n.ast.value, ast.Call) and "future" in names_in(n.ast.value))]
    if bad2:
        rr.bad(ctx.finding(rid, gr, bad2[0].ast, "_get_result returns `%s`, not the future's result" % norm(bad2[0].ast.value), construct="get-result"), "get_result")
    elif g2.exit.id in g2.reachable(blocked_nodes=[n.id for n in rets2], skip_labels=("exc",)):
        rr.bad(ctx.finding(rid, gr, gr.node, "_get_result can fall through returning None for a future with neither result() nor get()", construct="get-result-fallthrough"), "get_result")
    elif rets2:
        rr.ok("_get_result returns the future's result() / get() or raises")
    else:
        raise AnalysisError("idiom changed: _get_result")
    return rr


def duplicates_rule(ctx, rid):
    """C01.R5: user combos pass through parse_combos on the way to the core
    from every public entry; parse_combos keeps the values and checks every
    argument for duplicates."""
    rr = ctx.rule(rid, "duplicate rejection and value-preserving normalisation reach every public sweep entry", floor=8)
    prog = ctx.prog
    pc = prog.need_func(PREP + ".parse_combos")
    cfd = prog.need_func(PREP + ".check_for_duplicates")
    ctx.touch(pc), ctx.touch(cfd)
    g = build_cfg(pc.node)
    # every (arg, values) pair of the *returned* combos is checked, unconditionally
    loops = [n for n in g.nodes if n.kind == "for"]
    chk = [(n, c) for n, c, nm in all_calls(ctx, pc, g) if nm == cfd.qualname]
    rets = [n for n in g.nodes if n.kind == "stmt" and isinstance(n.ast, ast.Return) and n.ast.value is not None and norm(n.ast.value) != "()"]
    need(len(rets) == 1, "idiom changed: parse_combos returns")
    rname = norm(rets[0].ast.value)
    good = False
    for n, c in chk:
        lp = getattr(getattr(n.stmt, "_parent", None), "iter", None)
        par = getattr(n.stmt, "_parent", None)
        if isinstance(par, ast.For) and norm(par.iter) == rname and norm(par.target) == "(%s)" % ", ".join(norm(a) for a in c.args) and len(par.body) == 1:
            if g.completes_before([x for x in g.nodes if x.kind == "for" and x.ast is par][0].id, rets[0].id):
                good = True
    if good:
        rr.ok("parse_combos: check_for_duplicates(arg, values) for every pair of the combos it returns")
    else:
        rr.bad(ctx.finding(rid, pc, chk[0][1] if chk else pc.node, "parse_combos does not run check_for_duplicates over every (argument, values) pair of the combos it returns", construct="dup-check-coverage"), "dup check coverage")
    # check_for_duplicates raises on membership
    gd = build_cfg(cfd.node)
    raised = False
    for t in gd.nodes:
        if t.kind == "test" and isinstance(t.ast, ast.Compare) and isinstance(t.ast.ops[0], ast.In):
            for b, l in gd.succ[t.id]:
                if l == "t" and gd.exit.id not in gd.reachable(start=b):
                    raised = True
    adds = [c for c in walk_shallow(cfd.node) if isinstance(c, ast.Call) and isinstance(c.func, ast.Attribute) and c.func.attr == "add"]
    lp = [n for n in gd.nodes if n.kind == "for"]
    if raised and adds and lp and norm(lp[0].ast.iter) == cfd.positional[1]:
        rr.ok("check_for_duplicates raises on the first repeated value, scanning all values")
    else:
        rr.bad(ctx.finding(rid, cfd, cfd.node, "check_for_duplicates no longer raises for a repeated value while scanning every value", construct="dup-check-body"), "dup check body")
    # value preservation
    conv = None
    for n in walk_shallow(pc.node):
        if isinstance(n, ast.GeneratorExp) or isinstance(n, ast.ListComp):
            if isinstance(n.elt, ast.Tuple) and len(n.elt.elts) == 2 and len(n.generators) == 1:
                conv = n
    need(conv is not None, "idiom changed: parse_combos normalising comprehension")
    tgt = conv.generators[0].target
    need(isinstance(tgt, ast.Tuple) and len(tgt.elts) == 2, "idiom changed: parse_combos comprehension target")
    a_nm, v_nm = norm(tgt.elts[0]), norm(tgt.elts[1])
    e0, e1 = conv.elt.elts

    def preserving(e):
        if norm(e) == v_nm:
            return True
        if isinstance(e, ast.Call) and isinstance(e.func, ast.Name) and e.func.id in ("list", "tuple", "iter") and len(e.args) == 1 and not e.keywords:
            return preserving(e.args[0])
        if isinstance(e, ast.IfExp):
            return preserving(e.body) and preserving(e.orelse)
        return False
    if norm(e0) == a_nm and preserving(e1) and not conv.generators[0].ifs:
        rr.ok("parse_combos keeps every argument and only re-wraps its values (list / tuple): %s" % norm(e1))
    else:
        rr.bad(ctx.finding(rid, pc, conv, "parse_combos transforms the swept values (`%s`) instead of only collecting them in a list: the function is evaluated at, and the result labelled with, values other than those given" % norm(e1),
                           construct="values-transformed " + norm(e1)), "values preserved")
    # entries
    entries = [
        (CR + ".combo_runner", None), (CR + ".combo_runner_to_ds", "parse"),
        ("xyzpy.gen.farming.Runner.run_combos", None), ("xyzpy.gen.farming.Harvester.harvest_combos", None),
        ("xyzpy.gen.cropping.Crop.sow_combos", None),
    ]
    for q, flag in entries:
        f = prog.need_func(q)
        fg = build_cfg(f.node)
        ctx.touch(f, fg)
        pcs = [(n, c) for n, c, nm in all_calls(ctx, f, fg) if nm == pc.qualname and c.args and norm(c.args[0]) == "combos"]
        sinks = [(n, c) for n, c, nm in all_calls(ctx, f, fg) if nm in (CORE, CR + ".combo_runner_to_ds", "xyzpy.gen.farming.Runner.run_combos")]
        need(sinks, "anchor lost: %s no longer reaches the sweep" % q)
        if not pcs:
            rr.bad(ctx.finding(rid, f, sinks[0][1], "%s passes the user's combos to the sweep without parse_combos: duplicate values are not rejected and spellings not normalised" % f.name, construct="entry-unparsed"), "%s parses" % f.name)
            continue
        pn, pcall = pcs[0]
        for sn, sc in sinks:
            if flag is None:
                ok = fg.completes_before(pn.id, sn.id)
            else:
                from ..flow import Flow
                fl = Flow(fg, {flag: TRUE}).run()
                ok = pn.id in fl.visited and fg.completes_before(pn.id, sn.id, feasible=fl.feasible)
            if ok:
                rr.ok("%s: parse_combos(combos) completes before `%s`%s" % (f.name, norm(sc.func), " when %s" % flag if flag else ""))
            else:
                rr.bad(ctx.finding(rid, f, sc, "%s can reach the sweep without parse_combos having run on the user's combos" % f.name, construct="entry-parse-skipped"), "%s parses first" % f.name)
    return rr


def core_callers_rule(ctx, rid):
    """Internal call sites of combo_runner_core / to_ds with parse=False,
    enumerated with their reason."""
    rr = ctx.rule(rid, "internal parse=False call sites are fed parsed inputs", floor=4)
    prog = ctx.prog
    table = {
        "xyzpy.gen.farming.Runner.run_combos": "combos = parse_combos(combos) two lines above; stored descriptions were parsed in __init__",
        "xyzpy.gen.farming.Runner.run_cases": "cases = parse_cases(cases, fn_args) above; stored descriptions parsed in __init__",
        "xyzpy.gen.case_runner.case_runner_to_ds": "parses under its own `parse` flag before delegating",
        "xyzpy.gen.cropping.Crop.reap_runner": "runner fields were parsed in Runner.__init__",
        "xyzpy.gen.cropping.Crop.sow_cases": "fn_args / cases parsed above; combos forwarded as given (observation: unparsed)",
    }
    found = 0
    for f in prog.all_funcs():
        for n, c, nm in all_calls(ctx, f):
            pv = arg(c, None, "parse")
            if pv is not None and isinstance(pv, ast.Constant) and pv.value is False:
                found += 1
                if f.qualname in table:
                    rr.ok("%s -> %s(parse=False): %s" % (f.qualname, nm.rsplit(".", 1)[-1], table[f.qualname]))
                else:
                    rr.bad(ctx.finding(rid, f, c, "new call site with parse=False (`%s`): inputs bypass normalisation and duplicate rejection; not in the reviewed table" % norm(c.func), construct="new-parse-false"), "%s parse=False" % f.qualname)
    return rr


class _NestEval:
    """Window interpreter for the nesting function: IntEval plus `while`, starred unpacking, stores into a dict,
    dict.pop and itertools.product.  Everything else is an AnalysisError (exit 2)."""

    def __init__(self):
        from ..util import IntEval
        self.ie = IntEval({}, on_call=self.call)
        self.steps = 0

    def call(self, e, ie, st):
        import itertools
        fn = norm(e.func)
        if fn in ("itertools.product", "product") and not e.keywords:
            args = []
            for a_ in e.args:
                if isinstance(a_, ast.Starred):
                    args.extend(ie.ev(a_.value, st))
                else:
                    args.append(ie.ev(a_, st))
            return list(itertools.product(*args))
        if isinstance(e.func, ast.Attribute) and e.func.attr in ("pop", "get", "setdefault") and not e.keywords:
            recv = ie.ev(e.func.value, st)
            if isinstance(recv, dict):
                return getattr(recv, e.func.attr)(*[ie.ev(a_, st) for a_ in e.args])
        if isinstance(e.func, ast.Attribute) and e.func.attr in ("append", "extend", "insert", "pop", "reverse", "index") and not e.keywords:
            recv = ie.ev(e.func.value, st)
            if isinstance(recv, list):
                return getattr(recv, e.func.attr)(*[ie.ev(a_, st) for a_ in e.args])
        if fn in ("reversed", "enumerate", "zip", "dict") and not e.keywords:
            return list({"reversed": reversed, "enumerate": enumerate, "zip": zip}[fn](*[ie.ev(a_, st) for a_ in e.args])) if fn != "dict" else dict(*[ie.ev(a_, st) for a_ in e.args])
        return NotImplemented

    def run(self, stmts, st):
        for s in stmts:
            self.steps += 1
            if self.steps > 20000:
                raise AnalysisError("the nesting function does not terminate on the window")
            if isinstance(s, ast.While) and not s.orelse:
                while self.ie.ev(s.test, st):
                    self.steps += 1
                    if self.steps > 20000:
                        raise AnalysisError("the nesting function does not terminate on the window")
                    r = self.run(s.body, st)
                    if r[0] == "break":
                        break
                    if r[0] not in ("fall", "continue"):
                        return r
                continue
            if isinstance(s, ast.For) and not s.orelse:
                brk = False
                for item in list(self.ie.ev(s.iter, st)):
                    self._bind(s.target, item, st)
                    r = self.run(s.body, st)
                    if r[0] == "break":
                        break
                    if r[0] not in ("fall", "continue"):
                        return r
                continue
            if isinstance(s, ast.If):
                r = self.run(s.body if self.ie.ev(s.test, st) else s.orelse, st)
                if r[0] != "fall":
                    return r
                continue
            if isinstance(s, ast.Assign) and len(s.targets) == 1:
                self._bind(s.targets[0], self.ie.ev(s.value, st), st)
                continue
            if isinstance(s, ast.Return):
                return ("return", self.ie.ev(s.value, st) if s.value is not None else None)
            if isinstance(s, ast.Break):
                return ("break", None)
            if isinstance(s, ast.Continue):
                return ("continue", None)
            if isinstance(s, ast.Pass) or (isinstance(s, ast.Expr) and isinstance(s.value, ast.Constant)):
                continue
            if isinstance(s, ast.Expr) and isinstance(s.value, ast.Call):
                self.ie.ev(s.value, st)
                continue
            if isinstance(s, ast.Delete) and all(isinstance(t_, ast.Subscript) for t_ in s.targets):
                for t_ in s.targets:
                    del self.ie.ev(t_.value, st)[self.ie.ev(t_.slice, st)]
                continue
            raise AnalysisError("idiom changed: statement `%s` of the nesting function is not modelled" % norm(s)[:60])
        return ("fall", None)

    def _bind(self, t, v, st):
        if isinstance(t, ast.Name):
            st[t.id] = v
        elif isinstance(t, ast.Subscript) and not isinstance(t.slice, ast.Slice):
            base = self.ie.ev(t.value, st)
            if not isinstance(base, (dict, list)):
                raise AnalysisError("idiom changed: store into `%s`" % norm(t))
            base[self.ie.ev(t.slice, st)] = v
        elif isinstance(t, (ast.Tuple, ast.List)):
            v = list(v)
            star = [i for i, x in enumerate(t.elts) if isinstance(x, ast.Starred)]
            if not star:
                if len(v) != len(t.elts):
                    raise ValueError("unpack")
                for tt, vv in zip(t.elts, v):
                    self._bind(tt, vv, st)
            else:
                need(len(star) == 1, "idiom changed: unpacking `%s`" % norm(t))
                k = star[0]
                after = len(t.elts) - k - 1
                if len(v) < len(t.elts) - 1:
                    raise ValueError("unpack")
                for tt, vv in zip(t.elts[:k], v[:k]):
                    self._bind(tt, vv, st)
                self._bind(t.elts[k].value, v[k:len(v) - after], st)
                for tt, vv in zip(t.elts[k + 1:], v[len(v) - after:] if after else []):
                    self._bind(tt, vv, st)
        else:
            raise AnalysisError("idiom changed: assignment target `%s`" % norm(t))


def nested_placement_rule(ctx, rid, missing):
    """The function that nests the flat {location: result} mapping is interpreted on a window of grid shapes (1-3
    arguments, 1-3 values each; with ``missing`` every subset pattern of absent locations from a fixed family): the
    returned nested tuple must hold, at [i][j][k], the result stored for (values_0[i], values_1[j], values_2[k]) --
    or the placeholder when that location is absent.  Decides the index arithmetic of _unflatten on the window."""
    import itertools
    rr = ctx.rule(rid, ("nested placement with absent locations: slot [i][j].. holds the result of exactly (v_i, v_j, ..) or the placeholder" if missing else
                        "nested placement: slot [i][j].. of the returned tuple holds the result of exactly (v_i, v_j, ..)") + " (window: 1-3 arguments x 1-3 values)", floor=30)
    uf = ctx.prog.need_func(CR + "._unflatten")
    ctx.touch(uf)
    pos = list(uf.positional)
    need(2 <= len(pos) <= 3 and not uf.node.args.vararg and not uf.node.args.kwarg, "idiom changed: parameters of _unflatten (%s)" % ", ".join(pos))
    defaults = uf.node.args.defaults
    if missing:
        need(len(pos) == 3, "idiom changed: _unflatten takes no placeholder")
    else:
        need(len(pos) == 2 or (len(defaults) >= 1), "idiom changed: the placeholder of _unflatten has no default but the full-grid call passes none")

    def expect(prefix, rest, store, ph):
        if not rest:
            return store.get(prefix, ph)
        return tuple(expect(prefix + (v,), rest[1:], store, ph) for v in rest[0])

    first = None
    n_ok = 0
    for nargs in (1, 2, 3):
        for sizes in itertools.product((1, 2, 3), repeat=nargs):
            # distinct labels per argument, the same labels in different arguments on purpose (a transposition must show)
            vals = tuple(tuple(("v", i) if a_ % 2 == 0 else i for i in range(n_)) for a_, n_ in enumerate(sizes))
            locs = list(itertools.product(*vals))
            patterns = [()]
            if missing:
                patterns = [tuple(range(0, len(locs), 2)), tuple(range(1, len(locs), 2)), tuple(range(len(locs) - 1)), (0,) if len(locs) > 1 else ()]
            for absent in patterns:
                store = {l_: ("R", l_) for i_, l_ in enumerate(locs) if i_ not in absent}
                want = expect((), vals, store, "PLACEHOLDER" if missing else None)
                st = {pos[0]: dict(store), pos[1]: vals}
                if len(pos) == 3:
                    if missing:
                        st[pos[2]] = "PLACEHOLDER"
                    else:
                        d_ = defaults[-1]
                        need(isinstance(d_, ast.Constant), "idiom changed: default placeholder of _unflatten")
                        st[pos[2]] = d_.value
                ne = _NestEval()
                try:
                    r = ne.run(uf.node.body, st)
                    got = r[1] if r[0] == "return" else ("<no return>",)
                    if isinstance(got, list):
                        got = tuple(got)
                except (KeyError, IndexError, ValueError, TypeError) as e_:
                    got = ("<%s %s>" % (type(e_).__name__, str(e_)[:40]),)
                if got == want:
                    n_ok += 1
                elif first is None:
                    first = (vals, absent, want, got)
    if first is not None:
        vals, absent, want, got = first
        rr.bad(ctx.finding(rid, uf, uf.node, "_unflatten misplaces results: for the grid %s%s the nested result is %s, expected %s -- a slot holds another combination's value (or the call fails)" % (
            "x".join(str(len(v)) for v in vals), (" with locations %s absent" % list(absent)) if absent else "", str(got)[:160], str(want)[:160]),
            construct="nested-placement" + ("-missing" if missing else "")), "placement")
    else:
        rr.ok("%d window grids%s: every slot holds its own combination's result" % (n_ok, " x absence patterns" if missing else ""))
        rr.instances += n_ok - 1
    return rr


def _rows_are_kwargs(df, prog=None):
    """The rows results_to_df collects are the elements of a sequence it is handed (the kwargs dicts), not dicts it
    builds: a loop / comprehension over zip(<parameter>, ...) whose target for that position is appended, is the
    element expression itself, or is handed to a module function that returns that very argument."""
    def targets(t):
        return [x.id if isinstance(x, ast.Name) else None for x in (t.elts if isinstance(t, ast.Tuple) else [t])]

    def from_param(tg, it, name):
        if not (isinstance(it, ast.Call) and norm(it.func) == "zip"):
            return False
        ts = targets(tg)
        if name not in ts or ts.index(name) >= len(it.args):
            return False
        src = it.args[ts.index(name)]
        return isinstance(src, ast.Name) and src.id in df.params

    def returns_arg(call, name):
        # call(..name..) where the callee, a function of the same module, returns the parameter bound to `name`
        if prog is None or not isinstance(call, ast.Call) or not isinstance(call.func, ast.Name):
            return False
        cf = prog.func("%s.%s" % (df.module.name, call.func.id))
        if cf is None:
            return False
        pos = [i for i, a_ in enumerate(call.args) if isinstance(a_, ast.Name) and a_.id == name]
        if len(pos) != 1 or pos[0] >= len(cf.positional):
            return False
        par = cf.positional[pos[0]]
        rets = [r for r in walk_shallow(cf.node) if isinstance(r, ast.Return)]
        if any(isinstance(x, (ast.Assign, ast.AugAssign)) and any(norm(t_) == par for t_ in (x.targets if isinstance(x, ast.Assign) else [x.target])) for x in walk_shallow(cf.node)):
            return False
        return bool(rets) and all(r.value is not None and norm(r.value) == par for r in rets)
    for n in ast.walk(df.node):
        if isinstance(n, ast.For):
            apps = [c for c in ast.walk(n) if isinstance(c, ast.Call) and isinstance(c.func, ast.Attribute) and c.func.attr == "append" and len(c.args) == 1]
            for c in apps:
                a0 = c.args[0]
                if isinstance(a0, ast.Name) and from_param(n.target, n.iter, a0.id) and not any(
                        isinstance(x, ast.Assign) and any(norm(t_) == a0.id for t_ in x.targets) for x in ast.walk(n)):
                    return True
                if isinstance(a0, ast.Call):
                    for nm_ in targets(n.target):
                        if nm_ and from_param(n.target, n.iter, nm_) and returns_arg(a0, nm_):
                            return True
        if isinstance(n, (ast.ListComp, ast.GeneratorExp)) and len(n.generators) == 1:
            gen = n.generators[0]
            for nm_ in targets(gen.target):
                if nm_ and from_param(gen.target, gen.iter, nm_) and ((isinstance(n.elt, ast.Name) and n.elt.id == nm_) or returns_arg(n.elt, nm_)):
                    return True
    return False


def row_labels_rule(ctx, rid):
    """The argument columns of a DataFrame row are the keyword arguments the function was called with.  Today the
    rows ARE the kwargs dicts.  When a tree rebuilds the rows (from locations and constants), the precedence between a
    swept value and a constant of the same name must be the one the call itself used -- compared as ordered merge
    layers (later wins) of the two constructions."""
    rr = ctx.rule(rid, "table rows carry the arguments of the call: the rows are the kwargs dicts themselves, or are rebuilt with the same precedence between swept values and constants", floor=1)
    prog = ctx.prog
    df = prog.need_func(CR + ".results_to_df")
    ctx.touch(df)
    if _rows_are_kwargs(df, prog):
        rr.ok("rows are the elements of a sequence handed in (the kwargs dicts; pairing and provenance: R1)")
        return rr
    loops = [n for n in walk_shallow(df.node) if isinstance(n, ast.For) and isinstance(n.iter, ast.Call) and norm(n.iter.func) == "zip"]
    need(len(loops) == 1, "idiom changed: the row loop of results_to_df (%d zip loops)" % len(loops))
    lp = loops[0]
    apps = [c for c in ast.walk(lp) if isinstance(c, ast.Call) and isinstance(c.func, ast.Attribute) and c.func.attr == "append" and len(c.args) == 1 and isinstance(c.args[0], ast.Name)]
    need(len(apps) == 1, "idiom changed: results_to_df collects its rows at %d sites" % len(apps))
    row = apps[0].args[0].id
    tg = [t.id for t in (lp.target.elts if isinstance(lp.target, ast.Tuple) else [lp.target]) if isinstance(t, ast.Name)]
    if row in tg:
        src = lp.iter.args[tg.index(row)] if tg.index(row) < len(lp.iter.args) else None
        if isinstance(src, ast.Name) and src.id in df.params:
            rr.ok("rows are the elements of `%s` handed in (the kwargs dicts; pairing and provenance: R1)" % src.id)
            return rr
        raise AnalysisError("idiom changed: the rows of results_to_df come from `%s`" % (norm(src) if src is not None else "?"))

    def layers_of(stmts, var, const_names, fi):
        out = []
        for st in stmts:
            for n in ast.walk(st):
                if isinstance(n, ast.Assign) and len(n.targets) == 1 and norm(n.targets[0]) == var:
                    out = []
                    vals = n.value.values if isinstance(n.value, ast.Dict) and all(k is None for k in n.value.keys) else [n.value]
                    for v in vals:
                        t = norm(v)
                        if t in const_names or t in ("dict(%s)" % c for c in const_names):
                            out.append("const")
                        elif "zip(" in t:
                            out.append("loc")
                        elif t in ("{}", "dict()"):
                            pass
                        else:
                            raise AnalysisError("idiom changed: `%s = %s` in %s" % (var, t[:50], fi.name))
                elif isinstance(n, ast.Call) and isinstance(n.func, ast.Attribute) and n.func.attr == "update" and norm(n.func.value) == var and len(n.args) == 1:
                    t = norm(n.args[0])
                    if t in const_names:
                        out.append("const")
                    elif "zip(fn_args" in t or "zip(names" in t:
                        out.append("loc")
        return out
    # the rows are rebuilt: which parameter of results_to_df holds the constants?
    callers = [(f, c) for f in prog.all_funcs() for _, c, nm in all_calls(ctx, f) if nm == CR + ".results_to_df"]
    need(callers, "anchor lost: callers of results_to_df")
    cpar = set()
    for f, c in callers:
        for k in c.keywords:
            if k.arg and norm(k.value) == "constants":
                cpar.add(k.arg)
    need(len(cpar) == 1, "idiom changed: results_to_df rebuilds its rows but is handed the constants under %d names" % len(cpar))
    dl = layers_of(lp.body, row, cpar, df)
    core = prog.need_func(CORE)
    ctx.touch(core)
    sap = [c for c in ast.walk(core.node) if isinstance(c, ast.Call) and isinstance(c.func, ast.Attribute) and c.func.attr == "append" and norm(c.func.value) == "settings" and len(c.args) == 1 and isinstance(c.args[0], ast.Name)]
    need(sap, "anchor lost: settings.append(<kwargs>) in combo_runner_core")
    cls_ = set()
    for c in sap:
        body = None
        for p_ in _anc(c):
            if isinstance(p_, ast.For):
                body = p_.body
                break
        need(body is not None, "idiom changed: settings.append outside a loop")
        cls_.add(tuple(layers_of(body, c.args[0].id, {"constants"}, core)))
    need(len(cls_) == 1, "idiom changed: the kwargs are built in %d different ways in combo_runner_core" % len(cls_))
    cl = list(cls_.pop())
    if "loc" not in dl or "loc" not in cl:
        raise AnalysisError("idiom changed: rebuilt rows / kwargs without a recognisable names-x-location layer (rows %s, kwargs %s)" % (dl, cl))
    def wins(ls):
        return "const" if "const" in ls and max(i for i, x in enumerate(ls) if x == "const") > max(i for i, x in enumerate(ls) if x == "loc") else "loc"
    if ("const" in dl) != ("const" in cl):
        raise AnalysisError("idiom changed: constants are merged into %s only (rows %s, kwargs %s)" % ("the rows" if "const" in dl else "the kwargs", dl, cl))
    if wins(dl) == wins(cl):
        rr.ok("rows rebuilt with the precedence of the call (%s wins in both)" % wins(cl))
    else:
        rr.bad(ctx.finding(rid, df, lp, "results_to_df rebuilds each row's argument columns with the %s winning for a name that is both swept and a constant, while combo_runner_core calls the function with the %s winning: for such a name the row records a value the function was not called with, so its output columns are not the function's value at the recorded arguments" % (
            "constant" if wins(dl) == "const" else "swept value", "constant" if wins(cl) == "const" else "swept value"), construct="row-precedence"), "row precedence")
    return rr


# ====================================================================== C02
def disjoint_gate_rule(ctx, rid):
    """C02.R1: an argument in both cases and combos is rejected before
    anything runs."""
    rr = ctx.rule(rid, "case / combo argument overlap is rejected before any evaluation", floor=2)
    core = ctx.prog.need_func(CORE)
    g = build_cfg(core.node)
    ctx.touch(core, g)
    gates = []
    for t in g.nodes:
        if t.kind == "test":
            txt = norm(t.ast)
            if ("isdisjoint" in txt or "&" in txt or "intersection" in txt) and "case_args" in txt and "combo_args" in txt:
                for b, l in g.succ[t.id]:
                    if l in ("t", "f") and g.exit.id not in g.reachable(start=b) and b != g.exit.id:
                        gates.append(t)
    helpers = [(n, c) for n, c, nm in all_calls(ctx, core, g) if nm in HELPERS]
    need(helpers, "anchor lost: helper calls in core")
    if not gates:
        rr.bad(ctx.finding(rid, core, core.node, "combo_runner_core no longer rejects an argument that appears in both ``cases`` and ``combos``", construct="no-overlap-check"), "overlap rejected")
        return rr
    gt = gates[0]
    for n, c in helpers:
        if g.dominates(gt.id, n.id):
            rr.ok("overlap check dominates `%s`" % norm(c.func))
        else:
            rr.bad(ctx.finding(rid, core, gt.ast, "the case / combo overlap check does not come before `%s`: the whole sweep has run (with the combo value silently overriding the case value) by the time the error is raised" % norm(c.func),
                               construct="overlap-check-late " + norm(c.func)), "overlap before %s" % norm(c.func))
    # also before the settings are built (sowing writes them to disk)
    apps = [n for n in g.nodes if n.kind == "stmt" and "settings.append" in n.text()]
    if apps and not g.dominates(gt.id, apps[0].id):
        rr.bad(ctx.finding(rid, core, gt.ast, "the overlap check comes after the settings are enumerated", construct="overlap-check-after-enumeration"), "overlap before enumeration")
    return rr


def placeholder_rule(ctx, rid):
    """C02.R3: with cases the nested result is laid out over the union
    coordinates with a placeholder derived from an existing result, and the
    labels exported are the very values used for the layout."""
    rr = ctx.rule(rid, "cases: union coordinates + placeholder from an existing result; exported labels = layout values", floor=5)
    core = ctx.prog.need_func(CORE)
    N = _core_names(ctx, core)
    pr = core.nested.get("process_results")
    if pr is None:
        cands = [fn for fn in ctx.res.slice([core]) if fn.module is core.module and fn is not core and any(nm == CR + "._unflatten" for _, _, nm in all_calls(ctx, fn))]
        need(len(cands) == 1, "anchor lost: the function nesting the results (calls _unflatten)")
        pr = cands[0]
    ctx.touch(pr)
    from ..flow import Flow
    g = build_cfg(pr.node)
    fl = Flow(g, {"flat": FALSE, "cases": TRUTHY, "has_cases": TRUE}).run()
    uf = [(n, c) for n, c, nm in all_calls(ctx, pr, g) if nm == CR + "._unflatten" and n.id in fl.visited]
    if len(uf) == 0:
        raise AnalysisError("idiom changed: with cases and nested output no _unflatten call is reachable in %s itself (the nesting was moved into a helper)" % pr.qualname)
    if len(uf) > 1:
        # calls in different arms of one `if` exclude each other: which arm runs with cases is then a matter of a test the
        # flow analysis could not decide, not of nesting twice
        def arms(c_):
            out_ = []
            ch_, p_ = c_, getattr(c_, "_parent", None)
            while p_ is not None:
                if isinstance(p_, ast.If):
                    out_.append((id(p_), "t" if any(ch_ is b_ for b_ in p_.body) else "f"))
                ch_, p_ = p_, getattr(p_, "_parent", None)
            return out_
        A_ = [dict(arms(c_)) for _, c_ in uf]
        if all(any(k_ in b_ and a_[k_] != b_[k_] for k_ in a_) for i_, a_ in enumerate(A_) for b_ in A_[i_ + 1:]):
            raise AnalysisError("idiom changed: with cases %d _unflatten calls in mutually exclusive arms are reachable in %s; which one runs is decided by a test the analysis does not evaluate" % (len(uf), pr.qualname))
    if len(uf) != 1:
        rr.bad(ctx.finding(rid, pr, pr.node, "with cases and nested output %d _unflatten calls are reachable" % len(uf), construct="unflatten-count"), "one unflatten")
        return rr
    n, c = uf[0]
    a1 = arg(c, 1, "all_combo_values")
    a2 = arg(c, 2, "all_nan")
    if a1 is None or norm(a1) != N["grid"]:
        rr.bad(ctx.finding(rid, pr, c, "with cases the nested result is laid out over `%s`, not over the union coordinates `all_combo_values`: slots of unrequested combinations are missing or misplaced" % (norm(a1) if a1 else None), construct="unflatten-coords"), "union coords")
    else:
        rr.ok("cases: _unflatten(..., all_combo_values, placeholder)")
    if a2 is None:
        rr.bad(ctx.finding(rid, pr, c, "with cases no placeholder is passed to _unflatten: unrequested slots hold None instead of NaN-like data", construct="unflatten-no-placeholder"), "placeholder passed")
    else:
        d = single_def(pr, a2.id, g) if isinstance(a2, ast.Name) else None
        src = d[1] if d else a2
        if isinstance(src, ast.Call) and callee_name(ctx, pr, src) == CR + ".nan_like_result" and src.args and isinstance(src.args[0], ast.Subscript) \
                and norm(src.args[0].value) == pr.positional[0]:
            rr.ok("placeholder = nan_like_result(%s): derived from an existing result, no extra evaluation" % norm(src.args[0]))
        else:
            rr.bad(ctx.finding(rid, pr, src, "the placeholder is not derived from an already computed result (`%s`)" % norm(src), construct="placeholder-source"), "placeholder source")
    # no cases: full grid, no placeholder
    fl2 = Flow(g, {"flat": FALSE, "cases": FALSY, "has_cases": FALSE}).run()
    uf2 = [(n, c) for n, c, nm in all_calls(ctx, pr, g) if nm == CR + "._unflatten" and n.id in fl2.visited]
    if len(uf2) == 1 and norm(arg(uf2[0][1], 1)) == N["combo_values"]:
        rr.ok("no cases: _unflatten(..., combo_values)")
    else:
        rr.bad(ctx.finding(rid, pr, pr.node, "without cases the result is not laid out over the given combo values", construct="unflatten-grid"), "grid layout")
    # exported labels are the layout values
    g0 = build_cfg(core.node)
    st = [nd for nd in g0.nodes if nd.kind == "stmt" and isinstance(nd.ast, ast.Assign) and norm(nd.ast.targets[0]) == "info['all_combo_values']"]
    st2 = [nd for nd in g0.nodes if nd.kind == "stmt" and isinstance(nd.ast, ast.Assign) and norm(nd.ast.targets[0]) == "info['fn_args']"]
    if len(st) == 1 and norm(st[0].ast.value) == N["grid"] and len(st2) == 1 and norm(st2[0].ast.value) == N["fn_args"] \
            and len(assignments_to(core, N["grid"], g0)) == 1:
        rr.ok("info['all_combo_values'] / info['fn_args'] are the single definitions used for the layout")
    else:
        rr.bad(ctx.finding(rid, core, st[0].ast if st else core.node, "the coordinate labels exported in info are not the values the nested layout was built from", construct="info-labels"), "info labels")
    # union accumulation: unconditional add, sorted with fallback
    adds = [nd for nd in g0.nodes if nd.kind == "stmt" and norm(nd.ast).startswith(N["case_coords"] + "[") and ".add(" in norm(nd.ast)]
    if not adds:
        for fn in ctx.res.slice([core]):
            if fn.module is core.module and fn is not core:
                gg = build_cfg(fn.node)
                adds = adds or [nd for nd in gg.nodes if nd.kind == "stmt" and norm(nd.ast).startswith(N["case_coords"] + "[") and ".add(" in norm(nd.ast)]
    def _uncond_add(nd):
        lp = getattr(nd.ast, "_parent", None)
        if not isinstance(lp, ast.For) or not (isinstance(lp.iter, ast.Call) and norm(lp.iter.func) == "zip" and len(lp.iter.args) == 2 and norm(lp.iter.args[0]) == N["case_args"]):
            return False
        outer_ = getattr(lp, "_parent", None)
        return isinstance(outer_, ast.For) and norm(lp.iter.args[1]) == norm(outer_.target) and N["case_values"] in names_in(outer_.iter)
    if len(adds) == 1 and _uncond_add(adds[0]):
        rr.ok("every case value is added to its argument's union unconditionally")
    else:
        rr.bad(ctx.finding(rid, core, adds[0].ast if adds else core.node, "case values are not all accumulated into the per-argument union (conditional or missing add)", construct="union-accumulate"), "union accumulate")
    srt = [nd for nd in g0.nodes if nd.kind == "stmt" and isinstance(nd.ast, ast.Assign) and isinstance(nd.ast.targets[0], ast.Subscript) and norm(nd.ast.targets[0].value) == N["case_coords"] and isinstance(nd.ast.targets[0].slice, ast.Name)]
    CCA = norm(srt[0].ast.targets[0]) if srt else "?"
    vals = sorted(norm(x.ast.value) for x in srt)
    if vals == ["list(%s)" % CCA, "sorted(%s)" % CCA]:
        rr.ok("union coordinates sorted, with the unsortable fallback")
    elif not srt:
        # the ordering lives in a helper: look for sorted(<x>) with a list(<x>) fallback in a function the core calls
        found = False
        for fn in ctx.res.slice([core]):
            if fn.module is core.module and fn is not core:
                rv = [norm(r.value) for r in ast.walk(fn.node) if isinstance(r, ast.Return) and r.value is not None]
                if len(rv) == 2 and any(x.startswith("sorted(") for x in rv) and any(x.startswith(("list(", "tuple(")) for x in rv):
                    ctx.touch(fn)
                    found = True
        # one try around the sorting of *all* arguments: a single unsortable argument sends every argument to the unsorted fallback
        wide = None
        for t_ in ast.walk(core.node):
            if isinstance(t_, ast.Try) and any(h_.type is not None and "TypeError" in norm(h_.type) for h_ in t_.handlers):
                for b_ in t_.body:
                    for x in ast.walk(b_):
                        it_ = x.generators[0].iter if isinstance(x, (ast.GeneratorExp, ast.ListComp)) and len(x.generators) == 1 else (x.iter if isinstance(x, ast.For) else None)
                        if it_ is not None and norm(it_) in (N["case_args"], N["case_coords"], N["case_coords"] + ".values()", N["case_coords"] + ".items()") and "sorted(" in norm(x):
                            wide = t_
        if found:
            rr.ok("union coordinates sorted, with the unsortable fallback (in a helper)")
        elif wide is not None:
            rr.bad(ctx.finding(rid, core, wide, "the union coordinates of all case arguments are sorted inside one try: when one argument's values cannot be ordered (e.g. None among numbers) the TypeError fallback leaves *every* argument in set order, "
                               "so the coordinates of the sortable arguments are no longer the sorted union", construct="union-sorted-all-or-nothing"), "union sorted")
        else:
            raise AnalysisError("idiom changed: ordering of the per-argument union of case values")
    elif any("reverse=True" in v or "[::-1]" in v or "reversed(" in v for v in vals) or not any(v.startswith("sorted(") for v in vals) or \
            (len(vals) == 2 and any(v.startswith("sorted(") for v in vals) and any(CCA not in v for v in vals)):
        rr.bad(ctx.finding(rid, core, srt[0].ast if srt else core.node, "the per-argument union of case values is not `sorted(...)` with a list() fallback (found %s)" % vals, construct="union-sorted"), "union sorted")
    else:
        raise AnalysisError("idiom changed: ordering of the per-argument union of case values: %s" % vals)
    return rr


def dispatch_rule(ctx, rid):
    """C02.R4: str is iterable -- scalar-vs-sequence dispatches handle str (and
    bool) before the generic branch."""
    rr = ctx.rule(rid, "dispatch totality: str / bool handled before generic iterable branches", floor=3)
    prog = ctx.prog
    pcs = prog.need_func(PREP + ".parse_cases")
    ctx.touch(pcs)
    found = 0
    for n in walk_shallow(pcs.node):
        if isinstance(n, ast.If):
            t = n.test
            disj = t.values if isinstance(t, ast.BoolOp) and isinstance(t.op, ast.Or) else [t]
            scal = [d for d in disj if isinstance(d, ast.UnaryOp) and isinstance(d.op, ast.Not) and isinstance(d.operand, ast.Call) and norm(d.operand.func) == "isiterable"]
            if scal:
                found += 1
                x = norm(scal[0].operand.args[0])
                if any(norm(d) == "isinstance(%s, str)" % x for d in disj):
                    rr.ok("parse_cases: `%s` treats str as a scalar case value" % norm(t))
                else:
                    rr.bad(ctx.finding(rid, pcs, t, "`%s` decides 'single value per case' by iterability alone, but str is iterable: a string case such as 'h2o' is split into characters and zipped against the argument names" % norm(t),
                                       construct="scalar-test-without-str"), "parse_cases str")
    if not found:
        # other spellings (named flags, De Morgan): the str test and the iterability test must both be present
        txt = " ".join(norm(x) for x in pcs.node.body)
        m_it = "isiterable(" in txt
        m_str = ("isinstance(cases[0], str)" in txt) or ("isinstance(first_case, str)" in txt) or (", str)" in txt and "isinstance(" in txt)
        if m_it and m_str:
            rr.ok("parse_cases: scalar-case decision uses both the str test and iterability (other spelling)")
        elif m_it and not m_str:
            rr.bad(ctx.finding(rid, pcs, pcs.node, "parse_cases decides 'single value per case' by iterability alone, but str is iterable: a string case such as 'h2o' is split into characters", construct="scalar-test-without-str"), "parse_cases str")
        else:
            raise AnalysisError("idiom changed: parse_cases scalar-case test not found")
    nlr = prog.need_func(CR + ".nan_like_result")
    ctx.touch(nlr)
    g = build_cfg(nlr.node)
    tests = [t for t in g.nodes if t.kind == "test"]
    strt = [t for t in tests if "bool" in norm(t.ast) and "str" in norm(t.ast) and "isinstance" in norm(t.ast)]
    if not strt:
        # two separate tests (str, then bool) or a hoisted flag: any isinstance test naming str
        strt = [t for t in tests if "isinstance" in norm(t.ast) and "str" in norm(t.ast)]
    RES = nlr.positional[0]
    from ..cfg import node_exprs
    def _iterates_res(n):
        for e in node_exprs(n):
            for x in ast.walk(e):
                if isinstance(x, ast.comprehension) and norm(x.iter) == RES:
                    return True
        return n.kind == "for" and norm(n.ast.iter) == RES
    gen = [n for n in g.nodes if n.kind in ("stmt", "for") and _iterates_res(n)]
    if strt and gen and all(g.dominates(strt[0].id, x.id) for x in gen):
        rets = [n for n in g.nodes if n.kind == "stmt" and isinstance(n.ast, ast.Return) and norm(n.ast.value) == "None"]
        if rets and any(b == rets[0].id or rets[0].id in g.reachable(start=b) for b, l in g.succ[strt[0].id] if l == "t"):
            rr.ok("nan_like_result: bool / str -> None before the generic per-element branch")
        else:
            rr.bad(ctx.finding(rid, nlr, strt[0].ast, "bool / str results no longer map to the None placeholder", construct="nan-like-str"), "nan_like str")
    else:
        rr.bad(ctx.finding(rid, nlr, nlr.node, "nan_like_result reaches the generic per-element branch without first handling bool / str results", construct="nan-like-order"), "nan_like order")
    ins = prog.need_func(CR + ".infer_shape")
    ctx.touch(ins)
    gi = build_cfg(ins.node)
    XP = ins.positional[0]
    st = [t for t in gi.nodes if t.kind == "test" and norm(t.ast) in ("isinstance(%s, str)" % XP, "isinstance(%s, (str,))" % XP, "isinstance(%s, (str, bytes))" % XP)]
    ln = [n for n in gi.nodes if "len(%s)" % XP in n.text()]
    need(ln, "anchor lost: len(%s) in infer_shape" % XP)
    if st and ln and gi.dominates(st[0].id, ln[0].id):
        rr.ok("infer_shape: str is a scalar (checked before len())")
    else:
        rr.bad(ctx.finding(rid, ins, ins.node, "infer_shape takes len() of a str result: strings become character arrays", construct="infer-shape-str"), "infer_shape str")
    return rr


# ====================================================================== C03
TO_DS = CR + ".combo_runner_to_ds"
TO_DS_FLAGS = {"to_df": [TRUE, FALSE], "cases": [FALSY, TRUTHY], "shuffle": [FALSE, TRUTHY], "parse": [TRUE, FALSE],
               "executor": [NONE, NOTNONE], "parallel": [FALSE], "num_workers": [NONE], "combos": [TRUTHY],
               "var_names": [("obj", "var_names")], "var_dims": [NONE], "var_coords": [NONE]}


def row_pairing_rule(ctx, rid, entry=TO_DS, flags=None, title=None):
    """C03.R1 + R2: in DataFrame form each row pairs a setting with its own
    outputs in every configuration; the info side channel exists whenever it
    is read."""
    rr = ctx.rule(rid, title or "row pairing through combo_runner_to_ds(to_df) in every configuration; info side channel defined where read", floor=16)
    f = ctx.prog.need_func(entry)
    n = 0
    for val in valuations(flags or TO_DS_FLAGS):
        inter = OrderInter(ctx)
        fl = inter.flow(f, val)
        vt = show_val({k: v for k, v in val.items() if k in ("to_df", "cases", "shuffle", "parse", "executor")})
        n += 1
        if fl.cfg.exit.id not in fl.IN:
            rr.ok("[%s]: rejected before running" % vt)
            continue
        df_sinks = [s for s in inter.sinks if s[0].name == "results_to_df" or (s[0].parent is None and "settings" in (str(s[2][2]), str(s[3][2])))]
        for (sfi, call, a, b, ok, st) in inter.sinks:
            if a[1] == "UNK" or b[1] == "UNK":
                raise AnalysisError("unrecognised sequence transformation reaches `%s` in %s [%s]" % (norm(call), sfi.qualname, vt))
            if not ok:
                if (sfi, call, a, b, ok, st) in df_sinks:
                    msg = "each DataFrame row pairs a setting taken in %s with a result taken in %s (%s): the row's arguments and outputs belong to different evaluations" % (describe_order(a[1]), describe_order(b[1]), vt)
                else:
                    msg = "`%s` pairs %s with %s (%s)" % (norm(call), describe_order(a[1]), describe_order(b[1]), vt)
                rr.bad(ctx.finding(rid, sfi, call, msg, construct="misaligned " + norm(call), path=vt), "%s `%s` [%s]" % (sfi.name, norm(call)[:30], vt))
            elif (sfi, call, a, b, ok, st) in df_sinks:
                rr.ok("%s `%s` aligned [%s]" % (sfi.name, norm(call), vt))
        if truth(val["to_df"]) and not df_sinks:
            raise AnalysisError("idiom changed: with to_df no pairing of the recorded settings with the flat results was observed in results_to_df (%s)" % vt)
        for (mfi, e, base, key, why, st) in inter.missing_keys:
            if base == "info" and mfi is not f:
                raise AnalysisError("idiom changed: `%s` is read in %s, to which `info` is handed as an argument (the keys written before the call are not followed there)" % (norm(e), mfi.qualname))
            if base == "info":
                rr.bad(ctx.finding(rid, mfi, e, "`%s` is read while `info` is %s (%s): the labelling side channel was not requested / not filled in this configuration" % (norm(e), why, vt),
                                   construct="info-read-missing " + key, path=vt), "info[%s] defined [%s]" % (key, vt))
    ctx.extra["configurations_enumerated"] = ctx.extra.get("configurations_enumerated", 0) + n
    return rr


def dims_rule(ctx, rid):
    """C03.R3: variable dims = swept arguments (in nesting order) followed by
    the variable's declared internal dims; coords from the same combos."""
    rr = ctx.rule(rid, "Dataset construction: dims = fn_args + var_dims[name]; coords from the same combos; data paired with its own name", floor=4)
    from ..pathcond import canon
    f = ctx.prog.need_func(CR + ".results_to_ds")
    ctx.touch(f)
    dsc = [c for c in walk_shallow(f.node) if isinstance(c, ast.Call) and norm(c.func) in ("xr.Dataset", "xarray.Dataset") and c.keywords]
    need(len(dsc) == 1, "idiom changed: xr.Dataset(...) construction in results_to_ds")
    c = dsc[0]
    coords = arg(c, None, "coords")
    dv = arg(c, None, "data_vars")
    if isinstance(dv, ast.Name):
        dd = [v for _, v in assignments_to(f, dv.id) if v is not None]
        dv = dd[0] if len(dd) == 1 else dv
    need(isinstance(dv, ast.DictComp) and len(dv.generators) == 1, "idiom changed: data_vars is not a single dict comprehension")
    gen = dv.generators[0]
    need(isinstance(gen.iter, ast.Call) and norm(gen.iter.func) == "zip" and len(gen.iter.args) == 2 and isinstance(gen.target, ast.Tuple) and len(gen.target.elts) == 2 and not gen.ifs, "idiom changed: data_vars comprehension `%s`" % norm(dv)[:80])
    pos_names = [i for i, a_ in enumerate(gen.iter.args) if norm(a_) == "var_names"]
    need(len(pos_names) == 1, "idiom changed: data_vars does not iterate var_names (%s)" % norm(gen.iter))
    NAME = norm(gen.target.elts[pos_names[0]])
    DATA = norm(gen.target.elts[1 - pos_names[0]])
    data_src = norm(gen.iter.args[1 - pos_names[0]])
    # the dimension names of the swept arguments: what is concatenated with var_dims[...]
    FN = None
    if isinstance(dv.value, ast.Tuple) and len(dv.value.elts) == 2 and isinstance(dv.value.elts[0], ast.BinOp) and isinstance(dv.value.elts[0].op, ast.Add):
        for side in (dv.value.elts[0].left, dv.value.elts[0].right):
            if isinstance(side, ast.Name):
                FN = side.id
    if FN is None:
        cands_ = [n.targets[0].id for n in walk_shallow(f.node) if isinstance(n, ast.Assign) and isinstance(n.targets[0], ast.Name) and "combos" in names_in(n.value) and isinstance(n.value, ast.Call) and norm(n.value.func) in ("tuple", "list")]
        need(len(cands_) == 1, "idiom changed: the swept argument names in results_to_ds")
        FN = cands_[0]
    d = single_def(f, FN)
    pats = {canon(ast.parse(t, mode="eval").body) for t in ("tuple(x for x, _ in combos)", "tuple([x for x, _ in combos])", "[x for x, _ in combos]", "tuple(dict(combos))", "tuple(dict(combos).keys())")}
    if d is not None and canon(d[1]) in pats:
        rr.ok("%s = names of `combos` in order" % FN)
    elif d is not None and "combos" in names_in(d[1]) and any(w in norm(d[1]) for w in ("sorted(", "reversed(", "[::-1]", "set(")):
        rr.bad(ctx.finding(rid, f, d[1], "results_to_ds takes the dimension names from `combos` in another order than the nesting of the results (`%s`)" % norm(d[1]), construct="fn_args-from-combos"), "fn_args")
    elif d is not None and "combos" not in names_in(d[1]):
        rr.bad(ctx.finding(rid, f, d[1], "results_to_ds no longer takes the dimension names from `combos` (`%s`)" % norm(d[1]), construct="fn_args-from-combos"), "fn_args")
    else:
        raise AnalysisError("idiom changed: fn_args in results_to_ds (%s)" % (norm(d[1]) if d else "no single definition"))
    cn = set()
    if coords is not None:
        todo, seen = [coords], set()
        while todo:
            ex = todo.pop()
            for nm_ in names_in(ex):
                if nm_ in seen:
                    continue
                seen.add(nm_)
                cn.add(nm_)
                for _, v in assignments_to(f, nm_):
                    if v is not None:
                        todo.append(v)
                for st_ in walk_shallow(f.node):
                    if isinstance(st_, ast.Expr) and isinstance(st_.value, ast.Call) and isinstance(st_.value.func, ast.Attribute) and norm(st_.value.func.value) == nm_ and st_.value.func.attr == "update":
                        todo += list(st_.value.args)
    if coords is not None and {"combos", "var_coords"} <= cn:
        rr.ok("coords are built from combos and var_coords")
    elif coords is not None and "combos" not in cn:
        rr.bad(ctx.finding(rid, f, coords, "Dataset coordinates are not built from the swept combos: %s" % norm(coords), construct="coords"), "coords")
    else:
        raise AnalysisError("idiom changed: coords of the Dataset in results_to_ds")
    # data variables: name -> (swept names + the variable's own dims, its own data)
    key_t = norm(dv.key)
    need(isinstance(dv.value, ast.Tuple) and len(dv.value.elts) == 2, "idiom changed: data variable entry `%s`" % norm(dv.value)[:60])
    dims_e, data_e = dv.value.elts
    problems = []
    if key_t != NAME:
        problems.append("the key is `%s`, not the variable's name" % key_t)
    if data_src != "results":
        problems.append("the data iterates `%s`, not the results" % data_src)
    if DATA not in names_in(data_e) or NAME in names_in(data_e):
        problems.append("the data entry `%s` is not built from the variable's own data" % norm(data_e)[:40])
    if isinstance(dims_e, ast.BinOp) and isinstance(dims_e.op, ast.Add):
        l_, r_ = norm(dims_e.left), norm(dims_e.right)
        if (l_, r_) != (FN, "var_dims[%s]" % NAME):
            if r_ == FN or "var_dims[" in l_:
                problems.append("the dims are `%s`: the variable's internal dimensions come before the swept arguments" % norm(dims_e))
            elif "var_dims[" in r_ and r_ != "var_dims[%s]" % NAME:
                problems.append("the internal dims are looked up with `%s`" % r_)
            else:
                raise AnalysisError("idiom changed: dims of a data variable `%s`" % norm(dims_e))
    elif norm(dims_e) in (FN, "var_dims[%s]" % NAME):
        problems.append("the dims are `%s` only" % norm(dims_e))
    else:
        raise AnalysisError("idiom changed: dims of a data variable `%s`" % norm(dims_e))
    if problems:
        rr.bad(ctx.finding(rid, f, dv, "data variables are not `name: (fn_args + var_dims[name], data) for data, name in zip(results, var_names)`: %s (%s)" % ("; ".join(problems), norm(dv)[:100]), construct="data_vars"), "data_vars")
    else:
        rr.ok("data_vars: name -> (fn_args + var_dims[name], data) over zip(results, var_names)")
    # constants: coordinate if a dimension, else attribute
    g = build_cfg(f.node)
    loops = [n for n in walk_shallow(f.node) if isinstance(n, ast.For) and norm(n.iter) == "constants.items()" and isinstance(n.target, ast.Tuple) and len(n.target.elts) == 2]
    need(len(loops) == 1, "idiom changed: the per-constant coordinate-or-attribute decision (`k in ds.dims`) is not in results_to_ds")
    K, V = (norm(e) for e in loops[0].target.elts)
    rets = [r_.value for r_ in walk_shallow(f.node) if isinstance(r_, ast.Return) and r_.value is not None]
    need(rets and all(isinstance(r_, ast.Name) for r_ in rets) and len({r_.id for r_ in rets}) == 1, "idiom changed: results_to_ds returns %s" % [norm(r_) for r_ in rets])
    DS = rets[0].id
    t = [n for n in g.nodes if n.kind == "test" and norm(n.ast) == "%s in %s.dims" % (K, DS)]
    if len(t) == 1:
        tb = [b for b, l in g.succ[t[0].id] if l == "t"]
        fb = [b for b, l in g.succ[t[0].id] if l == "f"]
        tt = g.nodes[tb[0]].text() if tb else ""
        ft = " ".join(g.nodes[x].text() for x in g.reachable(start=fb[0], blocked_nodes=[t[0].id]) | {fb[0]} if g.nodes[x].kind == "stmt")[:400] if fb else ""
        ttt = " ".join(g.nodes[x].text() for x in g.reachable(start=tb[0], blocked_nodes=[t[0].id]) | {tb[0]} if g.nodes[x].kind == "stmt")[:400] if tb else ""
        if tt == "%s.coords[%s] = %s" % (DS, K, V) and "attrs[%s] = %s" % (K, V) in ft:
            rr.ok("constants: coordinate if it names a dimension, else attribute")
        elif "attrs[%s] = %s" % (K, V) in ttt.split("%s.coords" % DS)[0] and "%s.coords[%s] = %s" % (DS, K, V) in ft:
            rr.bad(ctx.finding(rid, f, t[0].ast, "constants that name a dimension go to attrs and the others to coordinates (branches swapped)", construct="constants-split"), "constants split")
        elif tb and g.nodes[tb[0]].kind == "test" and "%s.coords[%s] = %s" % (DS, K, V) in ttt and "attrs[%s] = %s" % (K, V) in ft:
            rr.bad(ctx.finding(rid, f, g.nodes[tb[0]].ast, "a constant that names a dimension is written to the coordinates only when `%s`: otherwise the dimension keeps another labelling than the constant's value" % norm(g.nodes[tb[0]].ast), construct="constants-split"), "constants split")
        else:
            raise AnalysisError("idiom changed: the branches of the per-constant coordinate-or-attribute decision")
    else:
        alt = [n for n in g.nodes if n.kind == "test" and isinstance(n.ast, ast.Compare) and len(n.ast.ops) == 1 and isinstance(n.ast.ops[0], ast.In) and norm(n.ast.left) == K
               and any(g.nodes[b].kind == "stmt" and g.nodes[b].text().startswith("%s.coords[%s]" % (DS, K)) for b, l in g.succ[n.id] if l == "t")]
        if alt:
            rr.bad(ctx.finding(rid, f, alt[0].ast, "a constant becomes a coordinate when `%s` instead of when it names a dimension of the dataset (`k in ds.dims`): for results that bring their own dimensions (var_names=None) the constant is written to attrs "
                               "and the dimension stays unlabelled" % norm(alt[0].ast), construct="constants-split"), "constants split")
        else:
            raise AnalysisError("idiom changed: the per-constant coordinate-or-attribute decision (`k in ds.dims`) is not in results_to_ds")
    return rr


LABEL_FIELDS = ("var_names", "var_dims", "var_coords", "attrs", "resources", "constants", "fn_args", "cases", "combos", "shuffle", "to_df",
                "parallel", "num_workers", "executor", "verbosity", "split", "flat")
FORWARD_SITES = [
    ("xyzpy.gen.farming.Runner.run_combos", TO_DS), ("xyzpy.gen.farming.Runner.run_cases", "xyzpy.gen.case_runner.case_runner_to_ds"),
    ("xyzpy.gen.case_runner.case_runner_to_ds", TO_DS), ("xyzpy.gen.case_runner.case_runner", CORE), (CR + ".combo_runner", CORE),
    ("xyzpy.gen.cropping.Crop.reap_runner", "xyzpy.gen.cropping.Crop.reap_combos_to_ds"),
    ("xyzpy.gen.farming.label.wrapper", "xyzpy.gen.farming.Runner"),
]


def _field_words(e):
    import re
    out = set()
    for nm in ast.walk(e):
        w = None
        if isinstance(nm, ast.Name):
            w = nm.id
        elif isinstance(nm, ast.Attribute):
            w = nm.attr
        if w:
            w = w.lstrip("_")
            if w in LABEL_FIELDS:
                out.add(w)
    return out


def forwarding_rule(ctx, rid):
    """C03.R5: each stored description field is forwarded to the same-named
    parameter."""
    rr = ctx.rule(rid, "forwarding tables: every description field reaches the like-named parameter", floor=30)
    prog = ctx.prog
    for site, callee in FORWARD_SITES:
        f = prog.need_func(site)
        ctx.touch(f)
        calls = [(n, c) for n, c, nm in all_calls(ctx, f) if nm == callee]
        need(calls, "anchor lost: %s -> %s" % (site, callee))
        for n, c in calls:
            for k in c.keywords:
                if k.arg in LABEL_FIELDS:
                    words = _field_words(k.value)
                    allowed = {k.arg}
                    if k.arg == "constants":
                        allowed |= {"resources"} if callee == CORE else set()
                    if k.arg in ("split",):
                        allowed |= {"to_df", "var_names"}
                    if k.arg == "flat":
                        allowed |= {"to_df"}
                    if isinstance(k.value, ast.Constant) or (isinstance(k.value, ast.Dict) and not k.value.keys):
                        rr.ok("%s: %s=%s (fixed)" % (f.name, k.arg, norm(k.value)), "%s|%s|%s" % (site, callee, k.arg))
                        continue
                    wrong = words - allowed
                    if wrong or (not words and not isinstance(k.value, (ast.Constant, ast.Dict))):
                        rr.bad(ctx.finding(rid, f, k.value, "%s passes %s=%s to %s: the `%s` description is fed from `%s`" % (f.name, k.arg, norm(k.value), callee.rsplit(".", 1)[-1], k.arg, ", ".join(sorted(wrong)) or norm(k.value)),
                                           construct="forward %s=%s" % (k.arg, norm(k.value))), "%s %s" % (f.name, k.arg))
                    else:
                        rr.ok("%s: %s=%s" % (f.name, k.arg, norm(k.value)), "%s|%s|%s" % (site, callee, k.arg))
    return rr


def resources_rule(ctx, rid):
    """C03.R4: resources reach the function's kwargs only; constants are
    recorded; results_to_df pops every resource from every row."""
    rr = ctx.rule(rid, "resources are never recorded, constants are", floor=4)
    prog = ctx.prog
    f = prog.need_func(TO_DS)
    ctx.touch(f)
    for n, c, nm in all_calls(ctx, f):
        if nm == CR + ".results_to_ds":
            for k in c.keywords:
                if k.arg in ("constants", "attrs") and "resources" in names_in(k.value):
                    rr.bad(ctx.finding(rid, f, k.value, "resources flow into the Dataset's %s: they are recorded although documented as never recorded" % k.arg, construct="resources-recorded " + k.arg), "resources not recorded")
            kc = arg(c, None, "constants")
            if kc is None or norm(kc) != "constants":
                rr.bad(ctx.finding(rid, f, c, "constants are not passed to results_to_ds as constants (found %s): they are not recorded as coordinate / attribute" % (norm(kc) if kc else None), construct="constants-not-recorded"), "constants recorded")
            else:
                rr.ok("results_to_ds(constants=constants, attrs=attrs): resources absent")
        if nm == CR + ".results_to_df":
            kr = arg(c, None, "resources")
            if (kr is None or norm(kr) != "resources") and not _rows_are_kwargs(prog.need_func(CR + ".results_to_df"), prog):
                # the rows are rebuilt from something else than the kwargs dicts: the absence of the resources argument says nothing
                raise AnalysisError("idiom changed: results_to_df builds its rows itself and is not told the resources; whether resource keys can be among what the rows are built from is not analysed")
            if kr is None or norm(kr) != "resources":
                rr.bad(ctx.finding(rid, f, c, "results_to_df is not told which keys are resources", construct="df-resources"), "df resources")
            else:
                rr.ok("results_to_df(resources=resources)")
        if nm == CORE:
            kc = arg(c, None, "constants")
            if kc is None or norm(kc) != "{**resources, **constants}":
                rr.bad(ctx.finding(rid, f, c, "the swept function's constant kwargs are %s, not {**resources, **constants}" % (norm(kc) if kc else None), construct="core-constants"), "core constants")
            else:
                rr.ok("core constants = {**resources, **constants}")
    df = prog.need_func(CR + ".results_to_df")
    ctx.touch(df)
    g = build_cfg(df.node)
    ok = False
    for fn in [df] + [x for x in ctx.res.slice([df]) if x.module is df.module and x is not df]:
        for lp in ast.walk(fn.node):
            if isinstance(lp, ast.For) and norm(lp.iter) == "resources" and len(lp.body) == 1 and isinstance(lp.body[0], ast.Expr) and isinstance(lp.body[0].value, ast.Call) \
                    and isinstance(lp.body[0].value.func, ast.Attribute) and lp.body[0].value.func.attr == "pop" and lp.body[0].value.args and norm(lp.body[0].value.args[0]) == norm(lp.target):
                ok = True
    if ok:
        rr.ok("every resource key is popped from every row (for k in resources: row.pop(k, ...))")
    elif not _rows_are_kwargs(df, prog):
        raise AnalysisError("idiom changed: results_to_df builds its rows itself and pops nothing; whether resource keys can be among what the rows are built from is not analysed")
    else:
        rr.bad(ctx.finding(rid, df, df.node, "results_to_df (and its helpers) no longer remove the resource keys from the rows: resources are recorded in the DataFrame", construct="df-pop-resources"), "df pops")
    return rr


MUT_METHODS = {"update", "pop", "popitem", "setdefault", "clear", "append", "extend", "insert", "remove", "sort", "reverse", "__setitem__", "__delitem__"}
INPUT_PARAMS = {"attrs", "constants", "resources", "var_coords", "var_dims", "var_names", "combos", "cases"}


def no_input_mutation_rule(ctx, rid, funcs=None):
    """C03.R6: the description mappings handed in by the caller (a Runner keeps
    them between runs) are not modified."""
    rr = ctx.rule(rid, "labelling inputs (attrs, constants, resources, var_*) are not mutated by the labelling code", floor=4)
    prog = ctx.prog
    names = funcs or [CR + ".results_to_ds", CR + ".results_to_df", TO_DS, "xyzpy.gen.case_runner.case_runner_to_ds",
                      "xyzpy.gen.farming.Runner.run_combos", "xyzpy.gen.farming.Runner.run_cases", CORE]
    for q in names:
        f = prog.need_func(q)
        ctx.touch(f)
        params = set(f.params) & INPUT_PARAMS
        # aliases: x = p | x = p or ... | x = p if .. else ..  (no copy)
        alias = {p: p for p in params}
        changed = True
        while changed:
            changed = False
            for n in walk_shallow(f.node):
                if isinstance(n, ast.Assign) and len(n.targets) == 1 and isinstance(n.targets[0], ast.Name):
                    v = n.value
                    cands = [v]
                    if isinstance(v, ast.BoolOp):
                        cands = v.values
                    elif isinstance(v, ast.IfExp):
                        cands = [v.body, v.orelse]
                    for cnd in cands:
                        if isinstance(cnd, ast.Name) and cnd.id in alias and n.targets[0].id not in alias:
                            # rebinding a parameter to a fresh value is fine; aliasing is what we track
                            alias[n.targets[0].id] = alias[cnd.id]
                            changed = True
        # a parameter rebound to a fresh object stops being the caller's object
        fresh = set()
        for n in walk_shallow(f.node):
            if isinstance(n, ast.Assign) and len(n.targets) == 1 and isinstance(n.targets[0], ast.Name) and n.targets[0].id in params:
                v = n.value
                if isinstance(v, (ast.Call, ast.Dict, ast.DictComp, ast.Tuple, ast.List)) and not (isinstance(v, ast.Name)):
                    fresh.add(n.targets[0].id)
        muts = []
        for n in walk_shallow(f.node):
            tgt = None
            if isinstance(n, (ast.Assign, ast.AugAssign, ast.Delete)):
                ts = n.targets if isinstance(n, (ast.Assign, ast.Delete)) else [n.target]
                for t in ts:
                    if isinstance(t, ast.Subscript) and isinstance(t.value, ast.Name) and t.value.id in alias:
                        tgt = t.value.id
            elif isinstance(n, ast.Call) and isinstance(n.func, ast.Attribute) and n.func.attr in MUT_METHODS and isinstance(n.func.value, ast.Name) and n.func.value.id in alias:
                tgt = n.func.value.id
            if tgt is not None and alias[tgt] not in fresh:
                # the parse step rebinds params to fresh dicts only under `parse`; be exact: flag only
                muts.append((n, tgt))
        if muts:
            for n, tgt in muts:
                rr.bad(ctx.finding(rid, f, n, "`%s` modifies the caller's `%s` mapping in place: a Runner's stored description (or the user's dict) changes between runs, so later Datasets / rows carry stale or foreign entries" % (norm(n)[:70], alias[tgt]),
                                   construct="mutates-input %s" % alias[tgt]), "%s does not mutate %s" % (f.name, alias[tgt]))
        else:
            rr.ok("%s does not modify %s" % (f.name, sorted(params) or "its description inputs"))
    return rr


def nan_placeholder_rule(ctx, rid):
    """C02.R5 / C09.R7: the stand-in for a value that was never computed is
    'missing' whatever the type of the real results: every value returned by
    nan_like_result is None or NaN in a float / object container.  A fill
    that keeps the result's dtype (integer, bool) turns NaN into ordinary
    data."""
    rr = ctx.rule(rid, "placeholder constructor: every value returned by nan_like_result is None or NaN in a float / object container (never a dtype-preserving fill)", floor=3)
    f = ctx.prog.need_func(CR + ".nan_like_result")
    ctx.touch(f)
    FLOATS = {"float", "np.float64", "numpy.float64", "np.float_", "object", "'float'", "'float64'", "np.floating", "np.double", "'object'", "'O'"}
    NANS = {"np.nan", "numpy.nan", "math.nan", "float('nan')", 'float("nan")', "np.NaN", "np.NAN"}

    def classify(e):
        """'ok' | ('bad', why) | None (unknown)"""
        if isinstance(e, ast.Constant) and e.value is None:
            return "ok"
        if norm(e) in NANS:
            return "ok"
        if isinstance(e, ast.Name):
            d = single_def(f, e.id)
            return classify(d[1]) if d and d[1] is not None else None
        if isinstance(e, (ast.Tuple, ast.List)):
            rs = [classify(x) for x in e.elts]
            bad = [r for r in rs if isinstance(r, tuple)]
            return bad[0] if bad else ("ok" if rs and all(r == "ok" for r in rs) else None)
        if isinstance(e, (ast.GeneratorExp, ast.ListComp)):
            return classify(e.elt)
        if isinstance(e, ast.IfExp):
            a_, b_ = classify(e.body), classify(e.orelse)
            for r_ in (a_, b_):
                if isinstance(r_, tuple):
                    return r_
            return "ok" if a_ == b_ == "ok" else None
        if isinstance(e, ast.Call):
            fn = norm(e.func)
            last = fn.rsplit(".", 1)[-1]
            if fn in ("tuple", "list") and len(e.args) == 1:
                return classify(e.args[0])
            if last == "broadcast_to" and e.args:
                return classify(e.args[0])
            if last == "full_like" and len(e.args) >= 2:
                fill = classify(e.args[1])
                dt = arg(e, 2, "dtype")
                if fill != "ok":
                    return fill if fill is not None else None
                if dt is None:
                    return ("bad", "`%s` keeps the dtype of the real result: for integer or boolean results NaN is cast to an ordinary value (a huge negative integer / True), so unfinished positions read as data" % norm(e))
                if norm(dt) in FLOATS:
                    return "ok"
                return ("bad", "`%s` fills with dtype %s, which cannot hold NaN" % (norm(e), norm(dt)))
            if last == "full" and len(e.args) >= 2:
                fill = classify(e.args[1])
                dt = arg(e, 2, "dtype")
                if fill == "ok" and (dt is None or norm(dt) in FLOATS):
                    return "ok"
                if fill == "ok":
                    return ("bad", "`%s` fills with dtype %s, which cannot hold NaN" % (norm(e), norm(dt)))
                return fill
            if last in ("zeros_like", "ones_like", "empty_like", "zeros", "ones", "empty", "copy", "deepcopy"):
                return ("bad", "`%s` is not a NaN / None stand-in: unfinished positions read as data" % norm(e))
        return None

    rets = [s for s in walk_shallow(f.node) if isinstance(s, ast.Return)]
    need(len(rets) >= 3, "anchor lost: return statements of nan_like_result")
    for r in rets:
        if r.value is None:
            rr.ok("bare return (None)")
            continue
        c = classify(r.value)
        if c == "ok":
            rr.ok("return %s: NaN / None stand-in" % norm(r.value)[:70], norm(r.value))
        elif isinstance(c, tuple):
            rr.bad(ctx.finding(rid, f, r, c[1], construct="placeholder-fill " + norm(r.value.func if isinstance(r.value, ast.Call) else r.value)), "placeholder fill")
        else:
            raise AnalysisError("idiom changed: nan_like_result returns `%s`, not a recognised NaN / None constructor" % norm(r.value)[:80])
    # several outputs: a str output cannot take a NaN stand-in (numpy turns array(nan) stacked with strings into the *string*
    # 'nan', which is not null); the function's own top-level rule gives str the None stand-in -- the per-element branch must too
    RES = f.positional[0]
    per_el = [x for x in walk_shallow(f.node) if isinstance(x, (ast.GeneratorExp, ast.ListComp)) and len(x.generators) == 1 and norm(x.generators[0].iter) == RES]
    top_str = any(isinstance(t_, ast.Call) and norm(t_.func) == "isinstance" and len(t_.args) == 2 and norm(t_.args[0]) == RES and "str" in norm(t_.args[1]) for t_ in ast.walk(f.node))
    for x in per_el:
        v = x.generators[0].target
        el = x.elt
        handles = any(isinstance(t_, ast.Call) and norm(t_.func) == "isinstance" and len(t_.args) == 2 and norm(t_.args[0]) == norm(v) and "str" in norm(t_.args[1]) for t_ in ast.walk(el)) or \
            any(isinstance(t_, ast.Call) and isinstance(t_.func, ast.Name) and t_.func.id == f.name for t_ in ast.walk(el))
        if handles:
            rr.ok("each output of a several-output result gets its own stand-in, str outputs the None one")
        elif top_str:
            rr.bad(ctx.finding(rid, f, x, "for a result with several outputs every output gets `%s`, also a str output: stacked with the real strings numpy turns array(nan) into the string 'nan', so the unfinished positions of that variable hold "
                               "ordinary (non-null) text instead of the missing placeholder -- the function's own rule for a str result (None) is not applied per output" % norm(el)[:50], construct="placeholder-str-element"), "placeholder per output")
        else:
            raise AnalysisError("idiom changed: per-output stand-ins of nan_like_result")
    return rr


def df_single_output_rule(ctx, rid):
    """C03.R8 (sibling cross-check): the Dataset labeller normalises the
    'one declared output = the result itself' convention through
    parse_combo_results before pairing names with results; the DataFrame
    labeller must do the same (or branch on the number of outputs).  Pairing
    `zip(var_names, result)` on the raw result splits an iterable single
    output (array, string) and keeps only its first element."""
    rr = ctx.rule(rid, "DataFrame rows: names are paired with the result only after the single-output convention was normalised (as the Dataset sibling does)", floor=2)
    prog = ctx.prog
    ds = prog.need_func(CR + ".results_to_ds")
    df = prog.need_func(CR + ".results_to_df")
    ctx.touch(ds), ctx.touch(df)
    NORMALISER = PREP + ".parse_combo_results"
    uses = [c for n, c, nm in all_calls(ctx, ds) if nm == NORMALISER]
    need(uses, "anchor lost: results_to_ds no longer normalises through parse_combo_results")
    rr.ok("results_to_ds: results = parse_combo_results(results, var_names)")
    vn = [p_ for p_ in df.positional if "var_names" in p_]
    need(len(vn) == 1, "anchor lost: var_names parameter of results_to_df")
    vn = vn[0]
    from ..util import callee_func
    sites = [(df, z, None) for z in ast.walk(df.node) if isinstance(z, ast.Call) and norm(z.func) == "zip" and len(z.args) == 2 and norm(z.args[0]) == vn]
    for n, c, nm in all_calls(ctx, df):
        h = callee_func(ctx, df, c)
        if h is not None and h.module is df.module and h is not df:
            binding = {}
            for pname, a in zip(h.positional, c.args):
                binding[pname] = a
            for k in c.keywords:
                if k.arg:
                    binding[k.arg] = k.value
            hv = [pn for pn, a in binding.items() if norm(a) == vn]
            for z in ast.walk(h.node):
                if isinstance(z, ast.Call) and norm(z.func) == "zip" and len(z.args) == 2 and hv and norm(z.args[0]) == hv[0]:
                    ctx.touch(h)
                    sites.append((h, z, binding))
    if not sites:
        raise AnalysisError("anchor lost: results_to_df does not pair %s with the results (directly or in a helper it calls)" % vn)

    def normalised(fn, e, binding, depth=0):
        if isinstance(e, ast.Call) and callee_name(ctx, fn, e) == NORMALISER:
            return True
        if isinstance(e, ast.Name) and depth < 3:
            d = [v for _, v in assignments_to(fn, e.id) if v is not None]
            if d:
                return all(normalised(fn, v, binding, depth + 1) for v in d)
            if binding and e.id in binding:
                return normalised(df, binding[e.id], None, depth + 1)
        return False

    def branch_on_count(fn, node, v):
        p = getattr(node, "_parent", None)
        while p is not None and p is not fn.node:
            if isinstance(p, ast.If) and ("len(%s)" % v) in norm(p.test):
                return True
            p = getattr(p, "_parent", None)
        return False
    loopvars = set()
    for lp in ast.walk(df.node):
        if isinstance(lp, ast.For):
            loopvars |= {x.id for x in ast.walk(lp.target) if isinstance(x, ast.Name)}
        elif isinstance(lp, ast.comprehension):
            loopvars |= {x.id for x in ast.walk(lp.target) if isinstance(x, ast.Name)}
    for fn, z, binding in sites:
        x = z.args[1]
        raw = x
        if binding and isinstance(x, ast.Name) and x.id in binding and not [v for _, v in assignments_to(fn, x.id) if v is not None]:
            raw = binding[x.id]
        if normalised(fn, x, binding) or branch_on_count(fn, z, norm(z.args[0])):
            rr.ok("%s: zip(%s, %s): single-output convention normalised first" % (fn.name, norm(z.args[0]), norm(x)[:50]))
        elif isinstance(raw, ast.Name) and raw.id in loopvars:
            rr.bad(ctx.finding(rid, fn, z, "`%s` pairs the names with the raw result: with one declared output an iterable result (1-d array, string) is split and the row keeps only its first element ('hello' -> 'h'); "
                               "the Dataset sibling normalises through parse_combo_results first" % norm(z), construct="single-output-split"), "single output")
        elif isinstance(x, (ast.List, ast.Tuple)) and len(x.elts) == 1:
            rr.ok("zip(%s, [%s]): explicit single-output wrap (fallback)" % (norm(z.args[0]), norm(x.elts[0])))
        else:
            raise AnalysisError("idiom changed: results_to_df pairs %s with `%s`" % (vn, norm(x)))
    return rr


def case_normalisation_rule(ctx, rid):
    """C02.R7: cases spelled as dicts already name their arguments;
    parse_cases must hand them on with every key and value intact (the tuple
    spelling is zipped with fn_args).  A rebuild of the dicts that iterates
    another key source or filters keys drops requested arguments."""
    rr = ctx.rule(rid, "parse_cases: dict-spelled cases are passed on with all their keys and values (only the container is normalised)", floor=2)
    f = ctx.prog.need_func(PREP + ".parse_cases")
    ctx.touch(f)
    p0 = f.positional[0]
    ifs = [n for n in walk_shallow(f.node) if isinstance(n, ast.If) and isinstance(n.test, ast.Call) and norm(n.test.func) == "isinstance" and len(n.test.args) == 2 and norm(n.test.args[1]) == "dict"
           and norm(n.test.args[0]) in (p0, "%s[0]" % p0)]
    need(len(ifs) >= 2, "anchor lost: the dict branches of parse_cases (%d found)" % len(ifs))
    OK_RETURNS = {p0, "(%s,)" % p0, "tuple(%s)" % p0, "[%s]" % p0, "list(%s)" % p0}
    for br in ifs:
        tag = norm(br.test)
        bad = None
        rets = 0
        for st in ast.walk(ast.Module(body=br.body, type_ignores=[])):
            if isinstance(st, ast.Return):
                rets += 1
                if st.value is None or norm(st.value) not in OK_RETURNS:
                    comps = [c for c in ast.walk(st.value)] if st.value is not None else []
                    if any(isinstance(c, (ast.DictComp, ast.Dict)) or (isinstance(c, ast.Call) and norm(c.func) == "dict") for c in comps):
                        bad = bad or (st, "returns rebuilt dicts `%s`" % norm(st.value)[:70])
                    else:
                        raise AnalysisError("idiom changed: parse_cases returns `%s` for dict-spelled cases" % (norm(st.value) if st.value is not None else None))
            elif isinstance(st, ast.Assign) and any(isinstance(t, ast.Name) and t.id == p0 for t in st.targets):
                v = st.value
                if norm(v) in OK_RETURNS:
                    continue
                dcs = [c for c in ast.walk(v) if isinstance(c, ast.DictComp)]
                if dcs:
                    dc = dcs[0]
                    gen = dc.generators[0]
                    outer = [gg for c in ast.walk(v) if isinstance(c, (ast.GeneratorExp, ast.ListComp)) for gg in c.generators]
                    casevars = {x.id for gg in outer for x in ast.walk(gg.target) if isinstance(x, ast.Name)}
                    it = norm(gen.iter)
                    total = (it in casevars or any(it in ("%s.items()" % cv, "%s.keys()" % cv) for cv in casevars)) and not gen.ifs
                    if not total:
                        bad = bad or (st, "rebuilds each case as `%s`: keys of the case not produced by `%s`%s are dropped, so the function is called without a requested argument" % (norm(dc)[:70], it, " (filtered)" if gen.ifs else ""))
                else:
                    raise AnalysisError("idiom changed: parse_cases rewrites dict-spelled cases with `%s`" % norm(v)[:80])
        need(rets >= 1, "idiom changed: dict branch of parse_cases does not return")
        if bad:
            rr.bad(ctx.finding(rid, f, bad[0], "for dict-spelled cases (%s) parse_cases %s" % (tag, bad[1]), construct="case-keys-dropped"), "dict cases intact [%s]" % tag)
        else:
            rr.ok("%s: cases handed on unchanged" % tag, tag)
    return rr


# xarray combine options that change which labels / values survive (xarray
# documentation of concat / merge / align; trusted library table):
#   join: 'outer' keeps the union of labels (default); 'inner' / 'left' /
#   'right' drop labels; 'override' copies the first object's index onto the
#   others (relabels); 'exact' raises on any difference (no silent change).
#   compat='override' skips the comparison and takes the first object's values.
LABEL_DESTROYING = {"join": {"inner": "keeps only the labels common to all pieces", "left": "keeps only the first piece's labels", "right": "keeps only the last piece's labels",
                             "override": "copies the first piece's coordinate onto every other piece (relabels their data)"},
                    "compat": {"override": "skips the comparison of coinciding variables and keeps the first piece's values"}}


def combine_options_rule(ctx, rid):
    """C03.R9: the per-setting results (Datasets / DataArrays returned by the
    function) are concatenated with xarray options under which every piece
    keeps its own internal coordinate labels."""
    rr = ctx.rule(rid, "xarray concat / merge calls that assemble the labelled results use no label- or value-destroying option (join in inner/left/right/override, compat='override')", floor=2)
    prog = ctx.prog
    funcs = [prog.need_func(CR + ".multi_concat"), prog.need_func(CR + ".results_to_ds")]
    n = 0
    for f in funcs:
        ctx.touch(f)
        for c in [c for c in ast.walk(f.node) if isinstance(c, ast.Call)]:
            nm = callee_name(ctx, f, c) or ""
            last = norm(c.func).rsplit(".", 1)[-1]
            if not (nm in ("xarray.concat", "xarray.merge", "xarray.align", "xarray.combine_by_coords", "xarray.combine_nested") or (isinstance(c.func, ast.Attribute) and last in ("merge", "combine_first") and nm not in ("builtins.dict.update",))):
                continue
            n += 1
            opts = {}
            for k in c.keywords:
                if k.arg is not None:
                    opts[k.arg] = k.value
                else:
                    d = k.value
                    if isinstance(d, ast.Name):
                        sd = single_def(f, d.id)
                        d = sd[1] if sd and sd[1] is not None else f.module.consts.get(d.id)
                    if isinstance(d, ast.Call) and norm(d.func) == "dict" and not d.args:
                        d = ast.Dict(keys=[ast.Constant(k2.arg) for k2 in d.keywords], values=[k2.value for k2 in d.keywords])
                    if not isinstance(d, ast.Dict) or not all(isinstance(k2, ast.Constant) for k2 in d.keys):
                        raise AnalysisError("idiom changed: options of `%s` are not a literal mapping" % norm(c)[:60])
                    for k2, v2 in zip(d.keys, d.values):
                        opts[k2.value] = v2
            bad = None
            for opt, table in LABEL_DESTROYING.items():
                if opt in opts:
                    v = opts[opt]
                    if not (isinstance(v, ast.Constant) and isinstance(v.value, str)):
                        raise AnalysisError("idiom changed: %s= of `%s` is not a literal" % (opt, norm(c)[:50]))
                    if v.value in table:
                        bad = (opt, v.value, table[v.value])
            if bad:
                rr.bad(ctx.finding(rid, f, c, "`%s` is called with %s=%r, which %s: results whose internal coordinates differ between settings are silently mislabelled / lose points" % (norm(c.func), bad[0], bad[1], bad[2]),
                                   construct="combine-option %s=%s" % (bad[0], bad[1])), "%s options" % f.name)
            else:
                rr.ok("%s: %s(%s) keeps every piece's labels" % (f.name, norm(c.func), ", ".join("%s=%s" % (k, norm(v)) for k, v in sorted(opts.items()))), "%s|%s" % (f.name, c.lineno))
    need(n >= 2, "anchor lost: concat calls assembling the results (%d)" % n)
    return rr


def case_binding_rule(ctx, rid):
    """Runner.run_cases binds tuple cases to argument names with the fn_args
    given by the caller, falling back to the runner's declared order only
    when none is given; the same names are handed on to the case runner."""
    from ..util import sym_expand
    rr = ctx.rule(rid, "Runner.run_cases: tuple cases are bound with the caller's fn_args if given, else the runner's declared order (same names handed to the case runner)", floor=4)
    f = ctx.prog.need_func("xyzpy.gen.farming.Runner.run_cases")
    g = build_cfg(f.node)
    ctx.touch(f, g)
    pcs = [c for n, c, nm in all_calls(ctx, f, g) if nm == PREP + ".parse_cases"]
    crs = [c for n, c, nm in all_calls(ctx, f, g) if nm == "xyzpy.gen.case_runner.case_runner_to_ds"]
    need(len(pcs) == 1 and len(crs) == 1, "anchor lost: parse_cases / case_runner_to_ds in Runner.run_cases")
    a_parse = arg(pcs[0], 1, "fn_args")
    a_run = arg(crs[0], None, "fn_args")
    need(a_parse is not None and a_run is not None, "idiom changed: fn_args not passed on in Runner.run_cases")
    for val, want, tag in ((NOTNONE, "fn_args", "given"), (NONE, "self._fn_args", "omitted")):
        for what, e in (("parse_cases", a_parse), ("case_runner_to_ds", a_run)):
            got = sym_expand(ctx, f, e, {"fn_args": val})
            got = {"self.fn_args": "self._fn_args"}.get(got, got)
            if got == want:
                rr.ok("fn_args %s: %s receives %s" % (tag, what, want))
            elif got in ("fn_args", "self._fn_args"):
                rr.bad(ctx.finding(rid, f, e, "with fn_args %s, %s receives `%s` instead of `%s`: tuple cases (e.g. those reported by find_missing_cases, ordered like the dataset's dimensions) are bound to other parameters than the caller named, "
                                   "so wrong settings are evaluated and merged" % (tag, what, got, want), construct="case-binding %s %s" % (what, tag)), "%s fn_args %s" % (what, tag))
            elif got.startswith("parse_fn_args(self.fn") or got.startswith("parse_fn_args(self._fn"):
                # the signature order of the function: for an omitted fn_args this ignores the order the runner was declared with
                if val == NONE:
                    rr.bad(ctx.finding(rid, f, e, "with fn_args omitted, %s receives `%s` -- the function's signature order -- instead of the runner's declared `self._fn_args`: for a Runner built with fn_args that are not a prefix of the signature, "
                                       "tuple cases are bound to other parameters, so settings nobody requested are evaluated" % (what, got), construct="case-binding %s %s" % (what, tag)), "%s fn_args %s" % (what, tag))
                else:
                    rr.ok("fn_args %s: %s receives the caller's names (normalised by parse_fn_args)" % (tag, what))
            else:
                raise AnalysisError("idiom changed: fn_args reaching %s in Runner.run_cases is `%s`" % (what, got))
    return rr
