"""Finite-window evaluation of RunningCovarianceMatrix (C19.R1, matrix clause).

The class only shuffles indices: which pair accumulator is fed with which two
series, and which accumulator each matrix entry is read from.  For n = 1..4
the methods are interpreted on symbolic data by the analyser's own evaluator
(nothing of the repository is executed): accumulators are opaque objects with
identity, x[i] is the symbol ('x', i).  Obligations:

  (a) after __init__ there is exactly one accumulator per unordered pair
      {i, j} (several keys may alias it);
  (b) one update(*x) feeds every accumulator exactly once, with (x[i], x[j])
      for its own pair (either orientation, covariance is symmetric);
  (c) update_from_it likewise with the series;
  (d) entry [i, j] of covar_matrix / sample_covar_matrix reads the attribute
      covar / sample_covar of the accumulator of the pair {i, j}.

Anything the evaluator does not know ends the run as ANALYSIS-ERROR."""
import ast
import itertools

from ..loader import AnalysisError, norm


class Acc:
    _n = 0

    def __init__(self):
        Acc._n += 1
        self.id = Acc._n
        self.calls = []


class Matrix(dict):
    pass


class _Return(Exception):
    def __init__(self, v):
        self.v = v


class MInterp:
    def __init__(self, cls, n):
        self.cls = cls
        self.self_attrs = {}
        self.n = n
        self.steps = 0

    def fail(self, what):
        raise AnalysisError("C19 matrix evaluator: %s" % what)

    # ------------------------------------------------------------ expressions
    def ev(self, e, env):
        self.steps += 1
        if self.steps > 200000:
            self.fail("too many steps")
        if isinstance(e, ast.Constant):
            return e.value
        if isinstance(e, ast.Name):
            if e.id in env:
                return env[e.id]
            self.fail("unknown name %s" % e.id)
        if isinstance(e, ast.Attribute):
            if isinstance(e.value, ast.Name) and e.value.id == "self":
                if e.attr in self.self_attrs:
                    return self.self_attrs[e.attr]
                m = self.cls.methods.get(e.attr)
                if m is not None and any(norm(d) == "property" for d in m.node.decorator_list):
                    return self.call_method(m, [], {})
                self.fail("unknown attribute self.%s" % e.attr)
            v = self.ev(e.value, env)
            if isinstance(v, Acc):
                return ("attr", v.id, e.attr)
            self.fail("attribute %s" % norm(e))
        if isinstance(e, ast.Tuple):
            return tuple(self.ev(x, env) for x in e.elts)
        if isinstance(e, ast.List):
            return [self.ev(x, env) for x in e.elts]
        if isinstance(e, ast.Subscript):
            base = self.ev(e.value, env)
            idx = self.ev(e.slice, env)
            if isinstance(base, dict):
                if idx not in base:
                    self.fail("key %r not present (%s)" % (idx, norm(e)))
                return base[idx]
            if isinstance(base, tuple) and base and base[0] == "series" and isinstance(idx, int):
                return (base[1], idx)
            if isinstance(base, (tuple, list, range)) and isinstance(idx, int):
                return base[idx]
            self.fail("subscript %s" % norm(e))
        if isinstance(e, ast.BinOp) and isinstance(e.op, (ast.Add, ast.Sub, ast.Mult)):
            a, b = self.ev(e.left, env), self.ev(e.right, env)
            if isinstance(a, int) and isinstance(b, int):
                return a + b if isinstance(e.op, ast.Add) else a - b if isinstance(e.op, ast.Sub) else a * b
            self.fail("arithmetic %s" % norm(e))
        if isinstance(e, ast.Compare) and len(e.ops) == 1:
            a, b = self.ev(e.left, env), self.ev(e.comparators[0], env)
            op = type(e.ops[0])
            if isinstance(a, (int, tuple)) and isinstance(b, (int, tuple)):
                tbl = {ast.Lt: lambda: a < b, ast.LtE: lambda: a <= b, ast.Gt: lambda: a > b, ast.GtE: lambda: a >= b, ast.Eq: lambda: a == b, ast.NotEq: lambda: a != b}
                if op in tbl:
                    return tbl[op]()
            if op in (ast.In, ast.NotIn) and isinstance(b, dict):
                r = a in b
                return r if op is ast.In else not r
            self.fail("comparison %s" % norm(e))
        if isinstance(e, ast.IfExp):
            return self.ev(e.body, env) if self.ev(e.test, env) else self.ev(e.orelse, env)
        if isinstance(e, (ast.GeneratorExp, ast.ListComp)) and len(e.generators) == 1 and not e.generators[0].ifs:
            out = []
            for item in self.iterate(self.ev(e.generators[0].iter, env)):
                env2 = dict(env)
                self.bind(e.generators[0].target, item, env2)
                out.append(self.ev(e.elt, env2))
            return out
        if isinstance(e, ast.DictComp) and len(e.generators) == 1 and not e.generators[0].ifs:
            out = {}
            for item in self.iterate(self.ev(e.generators[0].iter, env)):
                env2 = dict(env)
                self.bind(e.generators[0].target, item, env2)
                out[self.ev(e.key, env2)] = self.ev(e.value, env2)
            return out
        if isinstance(e, ast.Dict) and not e.keys:
            return {}
        if isinstance(e, ast.Starred):
            return ("star", self.ev(e.value, env))
        if isinstance(e, ast.Call):
            return self.call(e, env)
        self.fail("expression %s" % norm(e))

    def iterate(self, v):
        if isinstance(v, (range, list, tuple)) and not (isinstance(v, tuple) and v and v[0] in ("series", "attr")):
            return list(v)
        if isinstance(v, dict):
            return list(v)
        self.fail("iteration over %r" % (v,))

    def call(self, e, env):
        fn = norm(e.func)
        args = [self.ev(a, env) for a in e.args]
        flat = []
        for a in args:
            if isinstance(a, tuple) and len(a) == 2 and a[0] == "star":
                flat += list(a[1])
            else:
                flat.append(a)
        args = flat
        kw = {k.arg: self.ev(k.value, env) for k in e.keywords if k.arg}
        last = fn.rsplit(".", 1)[-1]
        if fn == "range" and all(isinstance(a, int) for a in args):
            return range(*args)
        if fn in ("len",) and len(args) == 1:
            return len(args[0])
        if fn in ("tuple", "list", "sorted") and len(args) == 1:
            v = self.iterate(args[0])
            return tuple(v) if fn == "tuple" else sorted(v) if fn == "sorted" else list(v)
        if fn in ("min", "max") and all(isinstance(a, int) for a in args):
            return min(args) if fn == "min" else max(args)
        if fn == "enumerate" and len(args) == 1:
            return list(enumerate(self.iterate(args[0])))
        if fn == "zip":
            return list(zip(*[self.iterate(a) for a in args]))
        if last in ("combinations_with_replacement", "combinations", "product", "permutations") and fn.split(".")[0] in ("itertools", last):
            f = getattr(itertools, last)
            if last == "product":
                return list(f(*[self.iterate(a) for a in args], **{k: v for k, v in kw.items() if k == "repeat"}))
            return list(f(self.iterate(args[0]), args[1]))
        if fn == "RunningCovariance" and not args:
            return Acc()
        if last in ("empty", "zeros", "full", "ones") and fn.split(".")[0] in ("np", "numpy"):
            return Matrix()
        if fn == "getattr" and len(args) == 2 and isinstance(args[0], Acc) and isinstance(args[1], str):
            return ("attr", args[0].id, args[1])
        if isinstance(e.func, ast.Attribute):
            recv_e = e.func.value
            if isinstance(recv_e, ast.Name) and recv_e.id == "self":
                m = self.cls.methods.get(e.func.attr)
                if m is None:
                    self.fail("unknown method self.%s" % e.func.attr)
                return self.call_method(m, args, kw)
            recv = self.ev(recv_e, env)
            if isinstance(recv, Acc) and e.func.attr in ("update", "update_from_it"):
                recv.calls.append((e.func.attr, tuple(args)))
                return None
            if isinstance(recv, dict) and e.func.attr in ("items", "keys", "values") and not args:
                return list(recv.items()) if e.func.attr == "items" else list(recv) if e.func.attr == "keys" else list(recv.values())
            if isinstance(recv, dict) and e.func.attr == "get" and args:
                return recv.get(args[0], args[1] if len(args) > 1 else None)
            if isinstance(recv, dict) and e.func.attr == "setdefault" and len(args) == 2:
                return recv.setdefault(args[0], args[1])
        self.fail("call %s" % norm(e))

    def call_method(self, m, args, kw, star=None):
        a = m.node.args
        params = [p.arg for p in a.args][1:]
        env = {}
        if a.vararg is not None:
            env.update(dict(zip(params, args)))
            env[a.vararg.arg] = tuple(args[len(params):])
        else:
            if len(args) > len(params):
                self.fail("too many arguments for %s" % m.name)
            env.update(dict(zip(params, args)))
        env.update(kw)
        defaults = m.defaults()
        for p in params:
            if p not in env:
                if p in defaults:
                    env[p] = self.ev(defaults[p], {})
                else:
                    self.fail("missing argument %s of %s" % (p, m.name))
        try:
            self.run(m.node.body, env)
        except _Return as r:
            return r.v
        return None

    # ------------------------------------------------------------- statements
    def bind(self, t, v, env):
        if isinstance(t, ast.Name):
            env[t.id] = v
        elif isinstance(t, (ast.Tuple, ast.List)):
            vs = list(v)
            if len(vs) != len(t.elts):
                self.fail("unpacking %s" % norm(t))
            for tt, vv in zip(t.elts, vs):
                self.bind(tt, vv, env)
        elif isinstance(t, ast.Attribute) and isinstance(t.value, ast.Name) and t.value.id == "self":
            self.self_attrs[t.attr] = v
        elif isinstance(t, ast.Subscript):
            base = self.ev(t.value, env)
            if not isinstance(base, dict):
                self.fail("store into %s" % norm(t))
            base[self.ev(t.slice, env)] = v
        else:
            self.fail("target %s" % norm(t))

    def run(self, stmts, env):
        for s in stmts:
            if isinstance(s, ast.Expr):
                if isinstance(s.value, ast.Constant):
                    continue
                self.ev(s.value, env)
            elif isinstance(s, ast.Assign):
                v = self.ev(s.value, env)
                for t in s.targets:
                    self.bind(t, v, env)
            elif isinstance(s, ast.For) and not s.orelse:
                for item in self.iterate(self.ev(s.iter, env)):
                    self.bind(s.target, item, env)
                    self.run(s.body, env)
            elif isinstance(s, ast.If):
                self.run(s.body if self.ev(s.test, env) else s.orelse, env)
            elif isinstance(s, ast.Return):
                raise _Return(self.ev(s.value, env) if s.value is not None else None)
            elif isinstance(s, ast.Pass):
                continue
            else:
                self.fail("statement %s" % norm(s)[:50])


def check_matrix(ctx, rid, rr, mx):
    """Evaluate the matrix class for n = 1..4; report into rr."""
    for m in mx.methods.values():
        ctx.touch(m)
    problems = {}
    for n in (1, 2, 3, 4):
        it = MInterp(mx, n)
        init = mx.methods.get("__init__")
        it.call_method(init, [n], {})
        rcs = it.self_attrs.get("rcs")
        if not isinstance(rcs, dict) or it.self_attrs.get("n") != n:
            raise AnalysisError("C19 matrix evaluator: __init__ does not build self.rcs / self.n")
        accs = {}
        for key, a in rcs.items():
            if not (isinstance(key, tuple) and len(key) == 2 and isinstance(a, Acc)):
                raise AnalysisError("C19 matrix evaluator: rcs entry %r" % (key,))
            accs.setdefault(a.id, (a, set()))[1].add(frozenset(key))
        pair_of = {}
        for aid, (a, pairs) in accs.items():
            if len(pairs) != 1:
                problems.setdefault("init-alias", (init, "one accumulator is stored for several different pairs %s (n = %d)" % (sorted(map(sorted, pairs)), n)))
            pair_of[aid] = sorted(pairs, key=sorted)[0]
        want = {frozenset((i, j)) for i in range(n) for j in range(n)}
        have = list(pair_of.values())
        if set(have) != want or len(have) != len(set(have)):
            problems.setdefault("init-pairs", (init, "after __init__(n=%d) the accumulators cover the pairs %s, expected one per unordered pair" % (n, sorted(map(sorted, have)))))
            continue
        for mname, sym in (("update", "x"), ("update_from_it", "xs")):
            m = mx.methods.get(mname)
            if m is None:
                raise AnalysisError("anchor lost: RunningCovarianceMatrix.%s" % mname)
            for a, _ in accs.values():
                a.calls = []
            it.call_method(m, [(sym, i) for i in range(n)], {})
            for aid, (a, _) in accs.items():
                p = sorted(pair_of[aid])
                i, j = (p[0], p[0]) if len(p) == 1 else p
                good = [((sym, i), (sym, j)), ((sym, j), (sym, i))]
                exp_method = mname
                if len(a.calls) != 1:
                    problems.setdefault("%s-count" % mname, (m, "one call of %s(*%s) feeds the accumulator of pair (%d, %d) %d times (n = %d): %s -- its count and covariance are no longer those of the sample" % (
                        mname, sym, i, j, len(a.calls), n, [c[1] for c in a.calls][:3])))
                elif a.calls[0][0] != exp_method or a.calls[0][1] not in good:
                    problems.setdefault("%s-args" % mname, (m, "%s feeds the accumulator of pair (%d, %d) with %s.%s (n = %d)" % (mname, i, j, a.calls[0][0], a.calls[0][1], n)))
        for pname, attr in (("covar_matrix", "covar"), ("sample_covar_matrix", "sample_covar")):
            pm = mx.methods.get(pname)
            if pm is None:
                raise AnalysisError("anchor lost: RunningCovarianceMatrix.%s" % pname)
            mat = it.call_method(pm, [], {})
            if not isinstance(mat, Matrix):
                raise AnalysisError("C19 matrix evaluator: %s does not return the filled array" % pname)
            for i in range(n):
                for j in range(n):
                    got = mat.get((i, j))
                    ok = isinstance(got, tuple) and len(got) == 3 and got[0] == "attr" and got[2] == attr and pair_of.get(got[1]) == frozenset((i, j))
                    if not ok:
                        problems.setdefault("fill-" + pname, (pm, "%s[%d, %d] is %s (n = %d), not the %s of the accumulator of the pair (%d, %d)" % (
                            pname, i, j, "unset" if got is None else "%s of pair %s" % (got[2], sorted(pair_of.get(got[1], []))) if isinstance(got, tuple) and len(got) == 3 else repr(got), n, attr, min(i, j), max(i, j))))
    for kind, (m, msg) in problems.items():
        rr.bad(ctx.finding(rid, m, m.node, "RunningCovarianceMatrix: " + msg, construct="matrix-" + kind), "matrix %s" % kind)
    if not problems:
        rr.ok("RunningCovarianceMatrix evaluated for n = 1..4: one accumulator per unordered pair, each fed once per update / update_from_it with its own two series, matrix entries read from the right accumulator")
        rr.ok("matrix: symmetric fill")
        rr.ok("matrix: update once per pair")
    return not problems
