"""C05 -- the harvested dataset is the faithful merge of everything ever harvested."""
from .. import base_rules
from . import harvest
from .harvest import FARM, MAN

LEVEL = "other"
CLAIM = {
    "text": ("Decides the structural clauses of C05: (R1) every file-system predicate or destructive call on the dataset file in Harvester.load_full_ds / save_full_ds / delete_ds and manage.save_merge_ds uses the extension-normalised name, "
             "normalised with the engine actually used for the I/O, and save_merge_ds loads and saves with one engine; (R2) both siblings implement the overwrite table (True: new.combine_first(old); False: old.combine_first(new); "
             "None: merge with compat='no_conflicts' and nothing else) -- evaluated per policy value on the feasible paths; (R3) with sync add_ds reloads the on-disk data before merging for every in-memory state, the possibly raising merge precedes every store "
             "to memory and every disk effect, the save follows on every normal path and saves the very object kept in memory; expand_dims / drop_sel persist through the same save (R4); (R4 also: expand_dims / drop_sel reload the file before deriving the dataset they save, and expand_dims labels the new dimension for every value incl. falsy ones); (R7) a failing load of the existing file propagates -- only an absent file means 'no data yet' -- and the loader never replaces the in-memory data by a constant; (R6) typestate of the in-memory dataset {saved, unsaved}: data stored in memory only (sync falsy) must be carried over a later reload -- on the current tree it is not (known finding F19: sync=False then sync=True drops the unsaved points). Not decided: xarray merge / combine_first semantics, netCDF round trip."),
    "note": "Trusted base: xarray merge(compat='no_conflicts') raises on conflicting values and combine_first prefers the receiver; CPython semantics of the parsed ast.",
    "technique": "static analysis: provenance (D-NAME) rule on file-name expressions, sibling cross-check of the policy table under truthiness-partitioned dataflow, effect-order (load/merge/save) CFG rules",
}
EXPLANATION = "File-name provenance through local definitions to auto_add_extension; policy table per overwrite value on feasible paths of both siblings; load/merge/save ordering with exception edges."
ASSUMPTIONS = ["xarray: merge(compat='no_conflicts') raises MergeError on conflicts; a.combine_first(b) keeps a's non-null values"]
NOT_DECIDED = ["(L) xarray merge / combine_first semantics; netCDF round trip (C14)"]


def run(ctx):
    harvest.physical_name_rule(ctx, "C05.R1")
    harvest.policy_rule(ctx, "C05.R2")
    harvest.sync_order_rule(ctx, "C05.R3", "Harvester")
    harvest.through_save_rule(ctx, "C05.R4")
    harvest.unsynced_rule(ctx, "C05.R6", "Harvester")
    harvest.loader_errors_rule(ctx, "C05.R7", "Harvester")
    harvest.reload_reads_rule(ctx, "C05.R8", "Harvester")
    harvest.stale_encoding_rule(ctx, "C05.R9")
    prog = ctx.prog
    h = prog.need_cls(FARM + ".Harvester")
    sl = [h.methods[n] for n in ("__init__", "load_full_ds", "full_ds", "save_full_ds", "delete_ds", "add_ds", "expand_dims", "drop_sel", "harvest_combos", "harvest_cases") if n in h.methods]
    sl += [prog.need_func(MAN + "." + n) for n in ("auto_add_extension", "save_ds", "load_ds", "save_merge_ds")]
    base_rules.run_link_rules(ctx, "C05", sl)
