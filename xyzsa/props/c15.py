"""C15 -- sampling only ever appends correct rows."""
import ast

from ..loader import AnalysisError, norm, walk_shallow
from ..cfg import build_cfg
from ..flow import Flow, NONE, NOTNONE, TRUE, FALSE, TRUTHY, FALSY, path_key
from ..util import callee_name, all_calls, arg, need, single_def, names_in
from .. import base_rules
from . import harvest, sweep, shared, c04
from .harvest import FARM, MAN

LEVEL = "other"
CLAIM = {
    "text": ("Decides the structural clauses of C15: (R1) add_df builds concat([old, new]) in that order (or a deep copy when there is no old table) and the accumulated table is stored only by __init__, load_full_df, save_full_df, add_df; "
             "(R2) sample_combos runs the cases once with to_df and appends that very frame once, reap_samples likewise; (R3) the order/alignment interpretation through case_runner_to_ds(to_df) shows every row pairing a setting with its own outputs "
             "for every configuration incl. shuffle; (R4) gen_cases_fnargs returns the names and the per-case draws of one and the same mapping in one iteration order, per-run combos override the defaults, a callable entry is called and any other "
             "entry is handed to the chooser; (R5) with sync add_df reloads the on-disk table before concatenating (whatever is in memory) and saves after on every normal path; (R6) the pooled grow keeps the batch order (sow/grow/reap route); (R7) the in-memory table is replaced only after a successful save; (R8) constants given when sowing samples take precedence over the runner's stored constants and resources exactly as in a direct run (function evaluated with the values the rows are labelled with). "
             "(R9) a failing load of the table file propagates and the loader never wipes the in-memory table; (R10) the settings record is read from disk on every load_info. Not decided: that np.random.choice returns an allowed value; CSV / pickle round trip."),
    "note": "Trusted base: pandas.concat([a, b]) appends b's rows after a's; np.random.choice draws from its argument; C01 rules for the enumeration.",
    "technique": "static analysis: role/orientation rules, who-may-store rule, interprocedural D-ORDER through the sampler entry, dict-merge precedence layers, effect-order CFG rules",
}
EXPLANATION = "Orientation of concat; store sites of _full_df; D-ORDER through Runner.run_cases(to_df); layers of the combos merge; load/concat/save ordering under the sync valuation."
ASSUMPTIONS = ["pandas.concat keeps the order of its list argument", "np.random.choice(v) returns an element of v"]
NOT_DECIDED = ["(L) np.random.choice returns an allowed value; CSV / pickle round trip of the table"]


def append_rule(ctx, rid):
    rr = ctx.rule(rid, "append orientation concat([old, new]); single set of writers of the accumulated table", floor=3)
    prog = ctx.prog
    s = prog.need_cls(FARM + ".Sampler")
    f = s.methods.get("add_df")
    need(f is not None, "anchor lost: Sampler.add_df")
    g = build_cfg(f.node)
    ctx.touch(f, g)
    fl = Flow(g, {"self._full_df": NOTNONE, "sync": FALSE}).run()
    cc = [(n, c) for n, c, nm in all_calls(ctx, f, g) if nm == "pandas.concat" and n.id in fl.visited]
    if not cc:
        # the append may live in a helper that receives the accumulated table and the new rows
        from ..util import callee_func
        from .harvest import _expands_to
        writers_only = False
        for n, c, nm in all_calls(ctx, f, g):
            h = callee_func(ctx, f, c)
            if h is None or h.module is not f.module or n.id not in fl.visited:
                continue
            bound = dict(zip([p_ for p_ in h.positional if p_ != "self"], c.args))
            p_old = [p_ for p_, a_ in bound.items() if _expands_to(f, a_, {"self._full_df"})]
            p_new = [p_ for p_, a_ in bound.items() if _expands_to(f, a_, {"new_df"})]
            if not p_old and len(p_new) == 1 and h.cls is f.cls and any(norm(x_) == "self._full_df" for x_ in ast.walk(h.node) if isinstance(x_, ast.Attribute)):
                p_old = ["self._full_df"]          # a method of the same class that reads the accumulated table itself
            if len(p_old) == 1 and len(p_new) == 1:
                hg = build_cfg(h.node)
                ctx.touch(h, hg)
                hcc = [c2 for _, c2, nm2 in all_calls(ctx, h, hg) if nm2 == "pandas.concat"]
                hcp = [r for r in ast.walk(h.node) if isinstance(r, ast.Return) and r.value is not None and norm(r.value) in ("%s.copy(deep=True)" % p_new[0], "%s.copy()" % p_new[0])]
                if len(hcc) == 1 and hcc[0].args and isinstance(hcc[0].args[0], (ast.List, ast.Tuple)) and len(hcc[0].args[0].elts) == 2:
                    x0, x1 = hcc[0].args[0].elts
                    e0 = p_old[0] if _expands_to(h, x0, {p_old[0]}) else p_new[0] if _expands_to(h, x0, {p_new[0]}) else norm(x0)
                    e1 = p_old[0] if _expands_to(h, x1, {p_old[0]}) else p_new[0] if _expands_to(h, x1, {p_new[0]}) else norm(x1)
                    if (e0, e1) == (p_old[0], p_new[0]):
                        rr.ok("add_df -> %s: concat([accumulated, new]) -- earlier rows first, unchanged" % h.name)
                    elif (e0, e1) == (p_new[0], p_old[0]):
                        rr.bad(ctx.finding(rid, h, hcc[0], "%s concatenates the new rows *before* the accumulated ones: earlier rows move" % h.name, construct="concat-orientation"), "concat orientation")
                    else:
                        raise AnalysisError("idiom changed: operands of pd.concat in %s" % h.qualname)
                    if hcp:
                        rr.ok("add_df -> %s: no table yet -> a copy of the new rows" % h.name)
                    else:
                        raise AnalysisError("idiom changed: %s does not start from a copy of the new rows" % h.qualname)
                    writers_only = True
                    break
        if writers_only:
            cc = None

    def expands(e, want):
        from .harvest import _expands_to
        return _expands_to(f, e, {want})
    if cc is None:
        pass
    elif len(cc) == 1 and cc[0][1].args and isinstance(cc[0][1].args[0], (ast.List, ast.Tuple)) and len(cc[0][1].args[0].elts) == 2:
        a0, a1 = cc[0][1].args[0].elts
        if expands(a0, "self._full_df") and expands(a1, "new_df"):
            rr.ok("add_df: concat([accumulated, new]) -- earlier rows first, unchanged")
        elif expands(a1, "self._full_df") and expands(a0, "new_df"):
            rr.bad(ctx.finding(rid, f, cc[0][1], "add_df concatenates the new rows *before* the accumulated ones (%s): earlier rows move" % norm(cc[0][1].args[0]), construct="concat-orientation"), "concat orientation")
        else:
            raise AnalysisError("idiom changed: operands of pd.concat in add_df: %s" % norm(cc[0][1].args[0]))
    elif not cc and any(isinstance(c_, ast.Call) and isinstance(c_.func, ast.Attribute) and norm(c_.func.value) == "self" and c_.func.attr in s.methods and c_.func.attr not in ("load_full_df", "save_full_df")
                        and any("new_df" in names_in(a_) for a_ in c_.args) for c_ in ast.walk(f.node)):
        raise AnalysisError("idiom changed: add_df hands the new rows to a helper method in which the append is not recognised")
    elif not cc:
        rr.bad(ctx.finding(rid, f, f.node, "with an accumulated table present add_df does not concatenate it with the new rows: earlier rows are dropped", construct="concat-missing"), "concat orientation")
    else:
        raise AnalysisError("idiom changed: pd.concat calls in add_df")
    fl2 = Flow(g, {"self._full_df": NONE, "sync": FALSE}).run()
    if cc is None:
        fl2 = None
    cp = [] if fl2 is None else [n for n in g.nodes if n.id in fl2.visited and n.kind == "stmt" and isinstance(n.ast, ast.Assign) and norm(n.ast.value) in ("new_df.copy(deep=True)", "new_df.copy()")]
    cc2 = [] if fl2 is None else [1 for n, c, nm in all_calls(ctx, f, g) if nm == "pandas.concat" and n.id in fl2.visited]
    if fl2 is None:
        pass
    elif cp and not cc2:
        rr.ok("add_df: no table yet -> a copy of the new rows")
    elif cc2:
        raise AnalysisError("idiom changed: add_df concatenates although no table is accumulated")
    else:
        rr.bad(ctx.finding(rid, f, f.node, "with no accumulated table add_df does not start from a copy of the new rows", construct="first-append"), "first append")
    # who may store _full_df
    allowed = {"__init__", "load_full_df", "save_full_df", "add_df"}
    for name, m in s.methods.items():
        for n in walk_shallow(m.node):
            if isinstance(n, (ast.Assign, ast.AugAssign)):
                tg = n.targets if isinstance(n, ast.Assign) else [n.target]
                if any(path_key(t) == "self._full_df" for t in tg):
                    if name in allowed:
                        rr.ok("Sampler.%s stores _full_df (reviewed writer)" % name, "store|%s|%s" % (name, norm(n)))
                    else:
                        rr.bad(ctx.finding(rid, m, n, "Sampler.%s replaces the accumulated table outside the append path" % name, construct="foreign-store"), "%s stores table" % name)
    return rr


def one_run_one_append_rule(ctx, rid):
    rr = ctx.rule(rid, "one run, one append of exactly that run's frame", floor=2)
    prog = ctx.prog
    f = prog.need_func(FARM + ".Sampler.sample_combos")
    g = build_cfg(f.node)
    ctx.touch(f, g)
    runs = [(n, c) for n, c, nm in all_calls(ctx, f, g) if nm == FARM + ".Runner.run_cases"]
    adds = [(n, c) for n, c, nm in all_calls(ctx, f, g) if nm == FARM + ".Sampler.add_df"]
    gens = [(n, c) for n, c, nm in all_calls(ctx, f, g) if nm == FARM + ".Sampler.gen_cases_fnargs"]
    ok = len(runs) == 1 and len(adds) == 1 and len(gens) == 1
    if ok:
        rc, ac = runs[0][1], adds[0][1]
        td = arg(rc, None, "to_df")
        tgt = runs[0][0].ast.targets[0] if isinstance(runs[0][0].ast, ast.Assign) else None
        # the drawn (names, cases) pair: `<names>, <cases> = self.gen_cases_fnargs(...)` (the generator returns (fn_args, cases))
        gt = gens[0][0].ast.targets[0] if isinstance(gens[0][0].ast, ast.Assign) else None
        if not (isinstance(gt, ast.Tuple) and len(gt.elts) == 2 and all(isinstance(e_, ast.Name) for e_ in gt.elts)):
            raise AnalysisError("idiom changed: sample_combos does not unpack gen_cases_fnargs into (names, cases)")
        NAMES, CASES = gt.elts[0].id, gt.elts[1].id
        a_cases, a_names = arg(rc, 0, "cases"), arg(rc, None, "fn_args")
        ok = td is not None and isinstance(td, ast.Constant) and td.value is True and tgt is not None and norm(ac.args[0]) == norm(tgt) \
            and g.completes_before(runs[0][0].id, adds[0][0].id) and g.completes_before(adds[0][0].id, g.exit.id) \
            and a_cases is not None and a_names is not None and norm(a_cases) == CASES and norm(a_names) == NAMES
    if ok:
        rr.ok("sample_combos: gen_cases_fnargs -> run_cases(cases, fn_args=fn_args, to_df=True) once -> add_df(that frame) once")
    else:
        rr.bad(ctx.finding(rid, f, f.node, "sample_combos does not run the drawn cases exactly once to a DataFrame and append exactly that frame once", construct="sample-once"), "sample once")
    r = prog.need_func("xyzpy.gen.cropping.Crop.reap_samples")
    gr = build_cfg(r.node)
    ctx.touch(r, gr)
    adds = [(n, c) for n, c, nm in all_calls(ctx, r, gr) if nm == FARM + ".Sampler.add_df"]
    rp = [(n, c) for n, c, nm in all_calls(ctx, r, gr) if nm == "xyzpy.gen.cropping.Crop.reap_runner"]
    if len(adds) == 1 and len(rp) == 1 and isinstance(rp[0][0].ast, ast.Assign) and norm(adds[0][1].args[0]) == norm(rp[0][0].ast.targets[0]) and \
            isinstance(arg(rp[0][1], None, "to_df"), ast.Constant) and arg(rp[0][1], None, "to_df").value is True:
        rr.ok("reap_samples: reap_runner(to_df=True) once -> add_df(that frame) once")
    elif (not rp or not adds) and any(isinstance(c_, ast.Call) and isinstance(c_.func, ast.Attribute) and norm(c_.func.value) == "self" and r.cls is not None and c_.func.attr in r.cls.methods
                                      and any(isinstance(x_, ast.Call) and norm(x_.func) in ("self.reap_runner", "sampler.add_df", "self.farmer.add_df") for x_ in ast.walk(r.cls.methods[c_.func.attr].node)) for c_ in ast.walk(r.node)):
        raise AnalysisError("idiom changed: reap_samples reaps / appends through a helper method")
    else:
        if not rp or not adds:
            from ..util import callee_func as _cf15
            for n_, c_, nm_ in all_calls(ctx, r, gr):
                h_ = _cf15(ctx, r, c_)
                if h_ is not None and hasattr(h_, "node") and h_ is not r and any(nm2 in (FARM + ".Sampler.add_df", "xyzpy.gen.cropping.Crop.reap_runner") for _, _, nm2 in all_calls(ctx, h_)):
                    raise AnalysisError("idiom changed: reap_samples reaps / appends through `%s`" % h_.qualname)
        rr.bad(ctx.finding(rid, r, r.node, "reap_samples does not append exactly the reaped frame once", construct="reap-samples-once"), "reap once")
    return rr


def draws_rule(ctx, rid):
    rr = ctx.rule(rid, "names and draws come from one mapping in one order; per-run combos override defaults; 2-way dispatch callable / choices", floor=4)
    f = ctx.prog.need_func(FARM + ".Sampler.gen_cases_fnargs")
    g = build_cfg(f.node)
    ctx.touch(f, g)
    # layering of the mapping the draws come from: later layers win
    layers = {}
    param = f.positional[2] if len(f.positional) > 2 else "combos"
    layers[param] = ["<run>"]

    def lay(e, layers):
        if isinstance(e, ast.Name):
            return list(layers.get(e.id, ["?" + e.id]))
        if norm(e) == "self.default_combos":
            return ["<defaults>"]
        if isinstance(e, ast.Dict) and all(k is None for k in e.keys):
            out = []
            for x in e.values:
                out += lay(x, layers)
            return out
        if isinstance(e, ast.Dict) and not e.keys:
            return []
        if isinstance(e, ast.Call) and norm(e.func) == "dict" and len(e.args) <= 1:
            return lay(e.args[0], layers) if e.args else []
        if isinstance(e, ast.IfExp):
            a_, b_ = lay(e.body, layers), lay(e.orelse, layers)
            return a_ if a_ else b_
        return ["?"]

    def process(stmts, layers):
        for n in stmts:
            if isinstance(n, ast.Assign) and len(n.targets) == 1 and isinstance(n.targets[0], ast.Name):
                layers[n.targets[0].id] = lay(n.value, layers)
            elif isinstance(n, ast.Expr) and isinstance(n.value, ast.Call) and isinstance(n.value.func, ast.Attribute) and n.value.func.attr == "update" and isinstance(n.value.func.value, ast.Name) and len(n.value.args) == 1:
                t = n.value.func.value.id
                a = n.value.args[0]
                add = list(layers.get(a.id, ["?" + a.id])) if isinstance(a, ast.Name) else (["<defaults>"] if norm(a) == "self.default_combos" else ["?"])
                layers[t] = layers.get(t, []) + add
            elif isinstance(n, ast.If):
                la, lb = dict(layers), dict(layers)
                process(n.body, la)
                process(n.orelse, lb)
                for k in set(la) | set(lb):
                    va, vb = la.get(k, layers.get(k, [])), lb.get(k, layers.get(k, []))
                    # the two arms normalise one value (None -> {}, mapping -> dict(mapping)): the informative arm
                    layers[k] = va if va else vb
            elif isinstance(n, (ast.For, ast.While, ast.With, ast.Try)):
                process(getattr(n, "body", []), layers)
    process([st_ for st_ in f.node.body], layers)
    # the mapping actually iterated for the draws
    src = None
    for x in ast.walk(f.node):
        if isinstance(x, ast.Call) and isinstance(x.func, ast.Attribute) and x.func.attr in ("values", "items") and isinstance(x.func.value, ast.Name):
            src = x.func.value.id
    need(src is not None, "idiom changed: gen_cases_fnargs does not iterate a mapping's values")
    lsrc = [l for l in layers.get(src, ["?"])]
    if lsrc == ["<defaults>", "<run>"]:
        rr.ok("draws come from {defaults overridden by the run's combos}")
    elif lsrc == ["<run>", "<defaults>"]:
        rr.bad(ctx.finding(rid, f, f.node, "the per-run combos do not override the sampler's defaults (the defaults are merged in last): rows carry argument values that were not among the choices given for the run", construct="combos-precedence"), "override precedence")
    else:
        raise AnalysisError("idiom changed: layering of the combos mapping in gen_cases_fnargs: %s" % lsrc)
    merged = []
    rets = [n for n in g.nodes if n.kind == "stmt" and isinstance(n.ast, ast.Return)]
    need(len(rets) == 1 and isinstance(rets[0].ast.value, ast.Tuple) and len(rets[0].ast.value.elts) == 2, "idiom changed: gen_cases_fnargs return")
    names_e, cases_e = rets[0].ast.value.elts
    cd = single_def(f, cases_e.id, g) if isinstance(cases_e, ast.Name) else None
    ce = cd[1] if cd else cases_e
    ok_names = norm(names_e) in ("tuple(%s.keys())" % src, "tuple(%s)" % src)
    inner = None
    for x in ast.walk(ce):
        if isinstance(x, ast.GeneratorExp) and len(x.generators) == 1 and norm(x.generators[0].iter) == "%s.values()" % src:
            inner = x
    if ok_names and inner is not None and not inner.generators[0].ifs:
        rr.ok("names = combos.keys(), each case = one draw per combos.values(): same mapping, same iteration order")
    elif ok_names is False and norm(names_e).startswith("tuple(") and src not in norm(names_e):
        rr.bad(ctx.finding(rid, f, rets[0].ast, "argument names (%s) and per-case draws (%s.values()) do not come from the same mapping: values are attributed to the wrong arguments" % (norm(names_e), src), construct="names-vs-draws"), "names vs draws")
    else:
        raise AnalysisError("idiom changed: names / draws construction in gen_cases_fnargs")
    if inner is not None:
        e = inner.elt
        v = norm(inner.generators[0].target)
        if isinstance(e, ast.IfExp) and norm(e.test) == "callable(%s)" % v and norm(e.body) == "%s()" % v and norm(e.orelse) in ("np.random.choice(%s)" % v, "random.choice(%s)" % v):
            rr.ok("draw = v() if callable(v) else np.random.choice(v)")
        elif isinstance(e, ast.IfExp) and "callable(%s)" % v in norm(e.test):
            rr.bad(ctx.finding(rid, f, e, "a draw is `%s`, not `v() if callable(v) else np.random.choice(v)`" % norm(e), construct="draw-dispatch"), "draw dispatch")
        else:
            raise AnalysisError("idiom changed: draw expression %s" % norm(e))
    outer = [x for x in ast.walk(ce) if isinstance(x, ast.GeneratorExp) and len(x.generators) == 1 and norm(x.generators[0].iter) == "range(n)"]
    if outer:
        rr.ok("exactly n cases are drawn (range(n))")
    elif [x for x in ast.walk(ce) if isinstance(x, ast.GeneratorExp) and len(x.generators) == 1 and norm(x.generators[0].iter).startswith("range(")]:
        rr.bad(ctx.finding(rid, f, ce, "the number of drawn cases is not range(n)", construct="draw-count"), "n draws")
    else:
        raise AnalysisError("idiom changed: number of drawn cases")
    return rr


def run(ctx):
    from . import shared
    shared.precedence_rule(ctx, "C15.R8")
    from . import harvest as _h
    _h.loader_errors_rule(ctx, "C15.R9", "Sampler")
    from . import c04 as _c04
    _c04.fresh_settings_rule(ctx, "C15.R10")
    append_rule(ctx, "C15.R1")
    one_run_one_append_rule(ctx, "C15.R2")
    flags = {"to_df": [sweep.TRUE], "shuffle": [sweep.FALSE, sweep.TRUTHY], "parse": [sweep.FALSE, sweep.TRUE], "cases": [sweep.TRUTHY], "combos": [sweep.FALSY],
             "executor": [sweep.NONE, sweep.NOTNONE], "parallel": [sweep.FALSE], "num_workers": [sweep.NONE], "var_names": [("obj", "var_names")], "var_dims": [sweep.NONE], "var_coords": [sweep.NONE],
             "fn_args": [("obj", "fn_args")]}
    sweep.row_pairing_rule(ctx, "C15.R3", entry="xyzpy.gen.case_runner.case_runner_to_ds", flags=flags,
                           title="row pairing through case_runner_to_ds(to_df=True) (the Sampler's route) in every configuration", )
    draws_rule(ctx, "C15.R4")
    harvest.sync_order_rule(ctx, "C15.R5", "Sampler")
    harvest.reload_reads_rule(ctx, "C15.R11", "Sampler")
    harvest.tmp_keeps_extension_rule(ctx, "C15.R12")
    harvest.csv_options_rule(ctx, "C15.R13")
    sweep.row_labels_rule(ctx, "C15.R14")
    c04.grow_order_rule(ctx, "C15.R6")
    harvest.failed_save_rule(ctx, "C15.R7")
    prog = ctx.prog
    s = prog.need_cls(FARM + ".Sampler")
    sl = list(s.methods.values()) + [prog.need_func(MAN + ".save_df"), prog.need_func(MAN + ".load_df")]
    base_rules.run_link_rules(ctx, "C15", sl)
