"""C15 -- sampling only ever appends correct rows."""
import ast

from ..loader import AnalysisError, norm, walk_shallow
from ..cfg import build_cfg
from ..flow import Flow, NONE, NOTNONE, TRUE, FALSE, TRUTHY, FALSY, path_key
from ..util import callee_name, all_calls, arg, need, single_def, names_in
from .. import base_rules
from . import harvest, sweep, shared, c04
from .harvest import FARM, MAN

LEVEL = "other"
CLAIM = {
    "text": ("Decides the structural clauses of C15: (R1) add_df builds concat([old, new]) in that order (or a deep copy when there is no old table) and the accumulated table is stored only by __init__, load_full_df, save_full_df, add_df; "
             "(R2) sample_combos runs the cases once with to_df and appends that very frame once, reap_samples likewise; (R3) the order/alignment interpretation through case_runner_to_ds(to_df) shows every row pairing a setting with its own outputs "
             "for every configuration incl. shuffle; (R4) gen_cases_fnargs returns the names and the per-case draws of one and the same mapping in one iteration order, per-run combos override the defaults, a callable entry is called and any other "
             "entry is handed to the chooser; (R5) with sync add_df reloads the on-disk table before concatenating (whatever is in memory) and saves after on every normal path; (R6) the pooled grow keeps the batch order (sow/grow/reap route). "
             "Not decided: that np.random.choice returns an allowed value; CSV / pickle round trip."),
    "note": "Trusted base: pandas.concat([a, b]) appends b's rows after a's; np.random.choice draws from its argument; C01 rules for the enumeration.",
    "technique": "static analysis: role/orientation rules, who-may-store rule, interprocedural D-ORDER through the sampler entry, dict-merge precedence layers, effect-order CFG rules",
}
EXPLANATION = "Orientation of concat; store sites of _full_df; D-ORDER through Runner.run_cases(to_df); layers of the combos merge; load/concat/save ordering under the sync valuation."
ASSUMPTIONS = ["pandas.concat keeps the order of its list argument", "np.random.choice(v) returns an element of v"]
NOT_DECIDED = ["(L) np.random.choice returns an allowed value; CSV / pickle round trip of the table"]


def append_rule(ctx, rid):
    rr = ctx.rule(rid, "append orientation concat([old, new]); single set of writers of the accumulated table", floor=3)
    prog = ctx.prog
    s = prog.need_cls(FARM + ".Sampler")
    f = s.methods.get("add_df")
    need(f is not None, "anchor lost: Sampler.add_df")
    g = build_cfg(f.node)
    ctx.touch(f, g)
    fl = Flow(g, {"self._full_df": NOTNONE, "sync": FALSE}).run()
    cc = [(n, c) for n, c, nm in all_calls(ctx, f, g) if nm == "pandas.concat" and n.id in fl.visited]
    if len(cc) == 1 and cc[0][1].args and isinstance(cc[0][1].args[0], (ast.List, ast.Tuple)) and [norm(x) for x in cc[0][1].args[0].elts] == ["self._full_df", "new_df"]:
        rr.ok("add_df: concat([self._full_df, new_df]) -- earlier rows first, unchanged")
    else:
        rr.bad(ctx.finding(rid, f, cc[0][1] if cc else f.node, "add_df does not append the new rows after the accumulated ones with concat([self._full_df, new_df]) (found %s): earlier rows move, are dropped or duplicated" % ([norm(c) for _, c in cc]),
                           construct="concat-orientation"), "concat orientation")
    fl2 = Flow(g, {"self._full_df": NONE, "sync": FALSE}).run()
    nv = [n for n in g.nodes if n.id in fl2.visited and n.kind == "stmt" and isinstance(n.ast, ast.Assign) and norm(n.ast.targets[0]) == "new_full_df"]
    if len(nv) == 1 and norm(nv[0].ast.value) in ("new_df.copy(deep=True)", "new_df.copy()"):
        rr.ok("add_df: no table yet -> a copy of the new rows")
    else:
        rr.bad(ctx.finding(rid, f, f.node, "with no accumulated table add_df does not start from a copy of the new rows", construct="first-append"), "first append")
    # who may store _full_df
    allowed = {"__init__", "load_full_df", "save_full_df", "add_df"}
    for name, m in s.methods.items():
        for n in walk_shallow(m.node):
            if isinstance(n, (ast.Assign, ast.AugAssign)):
                tg = n.targets if isinstance(n, ast.Assign) else [n.target]
                if any(path_key(t) == "self._full_df" for t in tg):
                    if name in allowed:
                        rr.ok("Sampler.%s stores _full_df (reviewed writer)" % name, "store|%s|%s" % (name, norm(n)))
                    else:
                        rr.bad(ctx.finding(rid, m, n, "Sampler.%s replaces the accumulated table outside the append path" % name, construct="foreign-store"), "%s stores table" % name)
    return rr


def one_run_one_append_rule(ctx, rid):
    rr = ctx.rule(rid, "one run, one append of exactly that run's frame", floor=2)
    prog = ctx.prog
    f = prog.need_func(FARM + ".Sampler.sample_combos")
    g = build_cfg(f.node)
    ctx.touch(f, g)
    runs = [(n, c) for n, c, nm in all_calls(ctx, f, g) if nm == FARM + ".Runner.run_cases"]
    adds = [(n, c) for n, c, nm in all_calls(ctx, f, g) if nm == FARM + ".Sampler.add_df"]
    gens = [(n, c) for n, c, nm in all_calls(ctx, f, g) if nm == FARM + ".Sampler.gen_cases_fnargs"]
    ok = len(runs) == 1 and len(adds) == 1 and len(gens) == 1
    if ok:
        rc, ac = runs[0][1], adds[0][1]
        td = arg(rc, None, "to_df")
        tgt = runs[0][0].ast.targets[0] if isinstance(runs[0][0].ast, ast.Assign) else None
        ok = td is not None and isinstance(td, ast.Constant) and td.value is True and tgt is not None and norm(ac.args[0]) == norm(tgt) \
            and g.completes_before(runs[0][0].id, adds[0][0].id) and g.completes_before(adds[0][0].id, g.exit.id) \
            and norm(arg(rc, 0, "cases")) == "cases" and norm(arg(rc, None, "fn_args")) == "fn_args"
    if ok:
        rr.ok("sample_combos: gen_cases_fnargs -> run_cases(cases, fn_args=fn_args, to_df=True) once -> add_df(that frame) once")
    else:
        rr.bad(ctx.finding(rid, f, f.node, "sample_combos does not run the drawn cases exactly once to a DataFrame and append exactly that frame once", construct="sample-once"), "sample once")
    r = prog.need_func("xyzpy.gen.cropping.Crop.reap_samples")
    gr = build_cfg(r.node)
    ctx.touch(r, gr)
    adds = [(n, c) for n, c, nm in all_calls(ctx, r, gr) if nm == FARM + ".Sampler.add_df"]
    rp = [(n, c) for n, c, nm in all_calls(ctx, r, gr) if nm == "xyzpy.gen.cropping.Crop.reap_runner"]
    if len(adds) == 1 and len(rp) == 1 and isinstance(rp[0][0].ast, ast.Assign) and norm(adds[0][1].args[0]) == norm(rp[0][0].ast.targets[0]) and \
            isinstance(arg(rp[0][1], None, "to_df"), ast.Constant) and arg(rp[0][1], None, "to_df").value is True:
        rr.ok("reap_samples: reap_runner(to_df=True) once -> add_df(that frame) once")
    else:
        rr.bad(ctx.finding(rid, r, r.node, "reap_samples does not append exactly the reaped frame once", construct="reap-samples-once"), "reap once")
    return rr


def draws_rule(ctx, rid):
    rr = ctx.rule(rid, "names and draws come from one mapping in one order; per-run combos override defaults; 2-way dispatch callable / choices", floor=4)
    f = ctx.prog.need_func(FARM + ".Sampler.gen_cases_fnargs")
    g = build_cfg(f.node)
    ctx.touch(f, g)
    defs = [(n, v) for n, v in __import__("xyzsa.util", fromlist=["x"]).assignments_to(f, "combos", g) if v is not None]
    merged = [v for n, v in defs if isinstance(v, ast.Dict) and all(k is None for k in v.keys)]
    if len(merged) == 1 and [norm(x) for x in merged[0].values] == ["self.default_combos", "combos"]:
        rr.ok("combos = {**self.default_combos, **combos}: the run's combos override the defaults")
    else:
        rr.bad(ctx.finding(rid, f, merged[0] if merged else f.node, "the per-run combos do not override the sampler's defaults (merge order %s): rows carry argument values that were not among the choices given for the run"
                           % ([norm(x) for x in merged[0].values] if merged else "?"), construct="combos-precedence"), "override precedence")
    rets = [n for n in g.nodes if n.kind == "stmt" and isinstance(n.ast, ast.Return)]
    need(len(rets) == 1 and isinstance(rets[0].ast.value, ast.Tuple) and len(rets[0].ast.value.elts) == 2, "idiom changed: gen_cases_fnargs return")
    names_e, cases_e = rets[0].ast.value.elts
    cd = single_def(f, cases_e.id, g) if isinstance(cases_e, ast.Name) else None
    ce = cd[1] if cd else cases_e
    ok_names = norm(names_e) in ("tuple(combos.keys())", "tuple(combos)")
    inner = None
    for x in ast.walk(ce):
        if isinstance(x, ast.GeneratorExp) and len(x.generators) == 1 and norm(x.generators[0].iter) == "combos.values()":
            inner = x
    last_merge = max([n.id for n, v in defs]) if defs else -1
    if ok_names and inner is not None and not inner.generators[0].ifs:
        rr.ok("names = combos.keys(), each case = one draw per combos.values(): same mapping, same iteration order")
    else:
        rr.bad(ctx.finding(rid, f, rets[0].ast, "argument names (%s) and per-case draws do not iterate the same mapping in the same order: values are attributed to the wrong arguments" % norm(names_e), construct="names-vs-draws"), "names vs draws")
    if inner is not None:
        e = inner.elt
        v = norm(inner.generators[0].target)
        if isinstance(e, ast.IfExp) and norm(e.test) == "callable(%s)" % v and norm(e.body) == "%s()" % v and norm(e.orelse) in ("np.random.choice(%s)" % v, "random.choice(%s)" % v):
            rr.ok("draw = v() if callable(v) else np.random.choice(v)")
        else:
            rr.bad(ctx.finding(rid, f, e, "a draw is `%s`, not `v() if callable(v) else np.random.choice(v)`" % norm(e), construct="draw-dispatch"), "draw dispatch")
    outer = [x for x in ast.walk(ce) if isinstance(x, ast.GeneratorExp) and len(x.generators) == 1 and norm(x.generators[0].iter) == "range(n)"]
    if outer:
        rr.ok("exactly n cases are drawn (range(n))")
    else:
        rr.bad(ctx.finding(rid, f, ce, "the number of drawn cases is not range(n)", construct="draw-count"), "n draws")
    return rr


def run(ctx):
    append_rule(ctx, "C15.R1")
    one_run_one_append_rule(ctx, "C15.R2")
    flags = {"to_df": [sweep.TRUE], "shuffle": [sweep.FALSE, sweep.TRUTHY], "parse": [sweep.FALSE, sweep.TRUE], "cases": [sweep.TRUTHY], "combos": [sweep.FALSY],
             "executor": [sweep.NONE, sweep.NOTNONE], "parallel": [sweep.FALSE], "num_workers": [sweep.NONE], "var_names": [("obj", "var_names")], "var_dims": [sweep.NONE], "var_coords": [sweep.NONE],
             "fn_args": [("obj", "fn_args")]}
    sweep.row_pairing_rule(ctx, "C15.R3", entry="xyzpy.gen.case_runner.case_runner_to_ds", flags=flags,
                           title="row pairing through case_runner_to_ds(to_df=True) (the Sampler's route) in every configuration", )
    draws_rule(ctx, "C15.R4")
    harvest.sync_order_rule(ctx, "C15.R5", "Sampler")
    c04.grow_order_rule(ctx, "C15.R6")
    harvest.failed_save_rule(ctx, "C15.R7")
    prog = ctx.prog
    s = prog.need_cls(FARM + ".Sampler")
    sl = list(s.methods.values()) + [prog.need_func(MAN + ".save_df"), prog.need_func(MAN + ".load_df")]
    base_rules.run_link_rules(ctx, "C15", sl)
