"""C18 -- infiniplot draws each data slice once, correctly styled and correctly placed."""
from .. import base_rules
from . import plots
from .plots import INF

LEVEL = "other"
CLAIM = {
    "text": ("Decided structural clauses on plot/infiniplot.py: (R1) references resolve against the installed packages / closed-world attribute names; (R2) x / y / error / text data reach the matching slots of ax.plot / errorbar / fill_between / text, "
             "the mesh is transposed to (y, x) by name; (R3) every visited location draws exactly one line on every path except all-null slices, which are skipped before any artist is created; (R4) panels are axs[i, j] with i from the row mapping and j "
             "from the column mapping, created as subplots(sizes[row], sizes[col]) and titled from domains[col][j] / domains[row][i]; (R5) for each mapped property style value and legend key use one index; (R6) the input dataset is never modified; "
             "(R7) init_mapped_dim records a dimension's coordinates only after every re-indexing of the dataset along it, so isel positions and domains / values positions denote the same coordinate; (R8) mask polarity under join_across_missing; "
             "(R9) histogram density is delegated to np.histogram(bins=self.bins, density=self.bins_density); (R10) without a palette all heat-map panels and the legend share one colour scale; (R11) the automatic hues exclude the sweep's end point whenever the default sweep is a whole number of turns (otherwise the first and last hue coordinate share their colours). (R12) in heat-map mode with unmapped dimensions every aggregate value (None, True, a name, a list) is widened to all unmapped dimensions. "
             "(R13) the x values of a slice are selected per slice whenever x is a data variable, and some definition of them reaches ax.plot both for x a data variable and x a coordinate; (R14) loc = {dimension name: index of the product loop}, names and index ranges appended in lock-step; "
             "(R15) no look-up keyed by a mapped property (loc[...], ds_loc[...], ', '.join(...)) on a path whose own tests say the property is None; (R16) init_mapped_dim, by truth tables over its path conditions: fused names are stacked iff all components are dimensions and the fused name is not one yet, "
             "a given value that is no dimension is a constant style (size 1, attribute reset to None), a dimension is mapped (domains recorded, size = their number), custom values stored iff given, defaults otherwise and taken from default_values, every normal path records the resolved attribute; "
             "(R17) every property whose domains / values / sizes the drawing code reads is initialised by init_mapped_dim on every path through __init__; (R20) with an explicit <prop>_order the dataset is re-indexed by it on every path of init_mapped_dim that goes on to record the coordinates (a skip when the order equals the sorted coordinates is reported; any other guarded skip is exit 2); (B6) builtin calls are given plausible argument kinds. Not decided: everything about the drawn values."),
    "note": "Trusted base: matplotlib slot table; xarray isel / sel / dropna semantics; np.histogram density normalisation for uneven bins.",
    "technique": "static analysis: role-provenance rules at draw sinks, CFG path rules over the location loop, ordering rule on dataset re-indexing vs coordinate capture, alias/taint no-mutation rule, path-condition truth tables, contradiction rule on None-tested keys",
}
EXPLANATION = "Rules of xyzsa/props/plots.py on Infiniplotter.__init__/init_mapped_dim/plot_lines/plot_heatmap plus B4/B5 link rules."
ASSUMPTIONS = ["matplotlib draws what it is given"]
NOT_DECIDED = ["(L/V) drawn values, aggregation, legend rendering"]


def run(ctx):
    prog = ctx.prog
    funcs = list(prog.modules[INF].all_funcs)
    base_rules.run_link_rules(ctx, "C18.R1", funcs, externals=True, closed_world=True)
    plots.c18_rules(ctx)
    plots.c18_structure_rules(ctx)
    plots.c18_selection_rules(ctx)

    def sources(fi):
        # self.ds is derived from the caller's dataset by drop_vars / sel / dropna: new Dataset objects whose variables may still
        # share memory with the caller's arrays, so a store into a view of it can write through
        s = set()
        if fi.cls is not None or (fi.parent is not None and fi.parent.cls is not None):
            s.add("self.ds")
        for p in fi.params:
            if p in ("ds",):
                s.add(p)
        return s
    plots.no_mutation_rule(ctx, "C18.R6", funcs, sources)
