"""C16 -- generated cluster scripts and the grow CLI grow exactly the intended batches.

The script generator is a finite composition of string constants selected by
flags, so it is enumerated statically and completely (D-TEMPLATE).
"""
import ast
import itertools
import os
import re
import string
import subprocess

from ..loader import AnalysisError, norm, walk_shallow, FuncInfo
from ..cfg import build_cfg, node_calls
from ..flow import Flow, Env, TOP, NONE, NOTNONE, TRUE, FALSE, TRUTHY, FALSY, const, is_const, valuations, path_key
from ..inter import Inter, InterFlow
from ..callgraph import bind_call
from ..util import callee_name, all_calls, arg, need, single_def, names_in, SAFE_STR_METHODS
from .. import base_rules
from . import shared, c04, c08
from .shared import CROP

LEVEL = "other"
CLAIM = {
    "text": ("The generator is abstractly interpreted over scheduler x mode x batch-state (30 configurations, exhaustive; batch states: explicit ids, fresh crop, partly grown with a non-contiguous missing set, partly grown with the leading batches missing, exactly one batch missing -- comparisons over the crop's batch state are decided on these representative states by the analyser's own evaluator): per configuration the concatenated template, the definite key set of the format dictionary and "
             "a representative literal per field are derived. Decided: (R2) every {field} is a definite key; (R3) the embedded program between the here-doc markers is valid Python for every configuration, also after the PBS size-1 rewrite; "
             "(R4) index mapping -- in array mode the id expression of the embedded grow(...) is evaluated for every task index of the header range and the multiset of grown ids must equal the intended ids (all batches, the explicit ids, or the missing ones), no index out of range; single mode calls crop.grow(batch_ids) with the explicit ids or the dynamic "
             "crop.missing_results(); task variable, directive prefix and array flag match the scheduler table; (R5) the embedded program's imports and calls resolve against the current signatures; (R6) shebang first, here-doc opener and a "
             "terminator that cannot occur inside the program (thorough: bash -n on every script); (R7) the console entry point resolves and reaches Crop.grow_missing with kwargs the enumerator accepts; (R8) missing_results / progress listings never count "
             "a leftover temporary; (R9) the pooled grow() used by array scripts keeps the batch order. (R11) missing_results, from which grow_missing, the CLI and gen_cluster_script take the ids, looks at the result files in every call (= C08.R9). (R10) for every combination of omitted / given num_procs, num_threads, num_workers no arithmetic is applied to an omitted (None) option, i.e. a script is produced. Not decided: scheduler behaviour, actually running the jobs."),
    "note": "Trusted base: str.format semantics; the scheduler table (sge: #$ -t / SGE_TASK_ID, pbs: #PBS -J / PBS_ARRAY_INDEX, slurm: #SBATCH --array= / SLURM_ARRAY_TASK_ID); bash here-doc semantics.",
    "technique": "static analysis: abstract interpretation with string-constant folding and definite-key tracking, exhaustive enumeration of the finite configuration space, parsing of the assembled embedded program (ast.parse / bash -n are parsers, nothing is run)",
}
EXPLANATION = ("D-TEMPLATE: truthiness-partitioned dataflow over gen_cluster_script with string folding; per configuration the template, definite opts keys and field representatives; "
               "the embedded program is parsed and its grow call / array range compared with the scheduler table; link rules on the embedded AST; CFG rules on the CLI.")
ASSUMPTIONS = ["schedulers export the task index under the tabled variable and run the script once per index in the header range"]
NOT_DECIDED = ["(L) scheduler behaviour; actually running the jobs"]

SCHED = {
    "sge": {"prefix": "#$", "array": re.compile(r"^#\$ -t (\d+)-(\d+)$", re.M), "var": "$SGE_TASK_ID"},
    "pbs": {"prefix": "#PBS", "array": re.compile(r"^#PBS -J (\d+)-(\d+)$", re.M), "var": "$PBS_ARRAY_INDEX"},
    "slurm": {"prefix": "#SBATCH", "array": re.compile(r"^#SBATCH --array=(\d+)-(\d+)$", re.M), "var": "$SLURM_ARRAY_TASK_ID"},
}
NUM_BATCHES = 8
EXPLICIT = (2, 5, 7)
MISSING = (3, 4, 6, 8)
# batch states enumerated: label -> (abstract batch_ids argument, number of results present, ids currently missing)
STATES = {
    "explicit ids": ("NOTNONE", 3, MISSING),
    "fresh crop": ("NONE", 0, tuple(range(1, NUM_BATCHES + 1))),
    "partly grown": ("NONE", 4, MISSING),
    "partly grown, leading batches missing": ("NONE", 5, (1, 2, 3)),
    "one batch missing": ("NONE", 7, (4,)),
}


class FrozenTable(dict):
    """hashable read-only mapping (a folded module-level table)"""
    def __hash__(self):
        return hash(tuple(sorted((repr(k), repr(v)) for k, v in self.items())))


def tjoin(a, b):
    from ..inter import join_any
    if isinstance(a, tuple) and isinstance(b, tuple) and a and b and a[0] == "format-result" and b[0] == "format-result" and a[1] == b[1]:
        # the size-1 rewrite is conditional on a runtime length: keep the
        # variant that records it; it is applied on the length-1 representative
        return a if len(a[3]) >= len(b[3]) else b
    if isinstance(a, tuple) and isinstance(b, tuple) and a and b and a[0] == "dictlit" and b[0] == "dictlit":
        da, db = dict(a[1]), dict(b[1])
        keys = [k for k in da if k in db]
        return ("dictlit", tuple((k, da[k] if da[k] == db[k] else ("expr", "?")) for k in keys))
    return join_any(a, b)


class TFlow(InterFlow):
    """String folding + definite dict keys + provenance of opts values."""
    join = staticmethod(tjoin)

    def eval_name(self, e, env):
        if e.id in env:
            return env[e.id]
        s = self.inter.ctx.prog.fold_str(self.fi.module, e)
        if s is not None:
            return const(s)
        c = self.fold_container(e)
        if c is not None:
            return const(c)
        return TOP

    def fold_container(self, node, depth=0):
        """a module-level table of templates (dict / tuple displays of string constants, possibly nested) as a Python value"""
        prog, mod = self.inter.ctx.prog, self.fi.module
        if depth > 6:
            return None
        if isinstance(node, ast.Constant):
            return node.value
        if isinstance(node, ast.Name):
            s_ = prog.fold_str(mod, node)
            if s_ is not None:
                return s_
            cst = mod.consts.get(node.id)
            return self.fold_container(cst, depth + 1) if cst is not None else None
        if isinstance(node, (ast.Tuple, ast.List)):
            vals = [self.fold_container(x, depth + 1) for x in node.elts]
            return None if any(v is None for v in vals) else tuple(vals)
        if isinstance(node, ast.Dict):
            out = {}
            for k, v in zip(node.keys, node.values):
                kk = self.fold_container(k, depth + 1) if k is not None else None
                vv = self.fold_container(v, depth + 1)
                if kk is None or vv is None:
                    return None
                out[kk] = vv
            return FrozenTable(out)
        s_ = prog.fold_str(mod, node) if isinstance(node, ast.expr) else None
        return s_

    def unpack(self, v, n, value_expr, env):
        if is_const(v) and isinstance(v[1], tuple) and len(v[1]) == n:
            return [const(x) for x in v[1]]
        return super().unpack(v, n, value_expr, env)

    def aug(self, s, cur, v, env):
        if isinstance(s.op, ast.Add) and is_const(cur) and is_const(v) and isinstance(cur[1], str) and isinstance(v[1], str):
            return const(cur[1] + v[1])
        return TOP

    def eval_other(self, e, env):
        if isinstance(e, ast.Dict) and all(isinstance(k, ast.Constant) for k in e.keys):
            return ("dictlit", tuple((k.value, self.tagged(v, env)) for k, v in zip(e.keys, e.values)))
        if isinstance(e, ast.Subscript):
            base_v = self.eval(e.value, env)
            if is_const(base_v) and isinstance(base_v[1], (tuple, FrozenTable)):
                kv = self.eval(e.slice, env)
                if isinstance(e.slice, ast.Tuple):
                    parts = [self.eval(x, env) for x in e.slice.elts]
                    kv = const(tuple(p_[1] for p_ in parts)) if all(is_const(p_) for p_ in parts) else TOP
                if is_const(kv):
                    try:
                        return const(base_v[1][kv[1]])
                    except (KeyError, IndexError, TypeError):
                        return TOP
                return TOP
            b = path_key(e.value)
            cur = env.get(b) if b else None
            if isinstance(cur, tuple) and cur and cur[0] == "dictlit" and isinstance(e.slice, ast.Constant):
                return dict(cur[1]).get(e.slice.value, TOP)
        return super().eval_other(e, env)

    def tagged(self, v_expr, env):
        v = self.eval(v_expr, env)
        if v == TOP or v in (TRUTHY, FALSY, NOTNONE):
            return ("expr", norm(v_expr))
        return v

    def store_subscript(self, target, v, env):
        b = path_key(target.value)
        if b is not None and isinstance(target.slice, ast.Constant) and isinstance(target.slice.value, str):
            cur = env.get(b)
            if isinstance(cur, tuple) and cur and cur[0] == "dictlit":
                d = dict(cur[1])
                d[target.slice.value] = v if v not in (TOP, TRUTHY, FALSY, NOTNONE) else ("expr", self._last_value_text)
                env[b] = ("dictlit", tuple(d.items()))

    def exec_stmt(self, s, env):
        if isinstance(s, ast.Assign):
            self._last_value_text = norm(s.value)
        super().exec_stmt(s, env)

    def eval_call(self, e, env):
        f = e.func
        if isinstance(f, ast.Attribute) and f.attr in SAFE_STR_METHODS and f.attr != "format":
            recv = self.eval(f.value, env)
            args = [self.eval(a, env) for a in e.args]
            if is_const(recv) and isinstance(recv[1], str) and all(is_const(a) for a in args):
                try:
                    return const(getattr(recv[1], f.attr)(*[a[1] for a in args]))
                except Exception:
                    return TOP
            if isinstance(recv, tuple) and recv and recv[0] == "format-result":
                # script.replace(a, b).replace(c, d) after formatting: recorded, applied later
                if f.attr == "replace" and all(is_const(a) for a in args):
                    return ("format-result", recv[1], recv[2], recv[3] + ((args[0][1], args[1][1]),))
        if isinstance(f, ast.Attribute) and f.attr == "format":
            recv = self.eval(f.value, env)
            sp = [self.eval(k.value, env) for k in e.keywords if k.arg is None]
            if is_const(recv) and isinstance(recv[1], str) and len(sp) == 1 and isinstance(sp[0], tuple) and sp[0] and sp[0][0] == "dictlit" and not e.args:
                self.inter.formats.append((e, recv[1], sp[0]))
                return ("format-result", recv[1], sp[0], ())
        nm = callee_name(self.inter.ctx, self.fi, e)
        if nm == "builtins.len" and e.args:
            v = self.eval(e.args[0], env)
            return ("expr", "len(%s)" % norm(e.args[0]))
        if nm in ("builtins.tuple", "builtins.range"):
            for a in e.args:
                self.eval(a, env)
            return ("expr", norm(e))
        return super().eval_call(e, env)

    def on_return(self, s, v, env):
        super().on_return(s, v, env)
        if isinstance(v, tuple) and v and v[0] == "format-result":
            self.inter.returned.append(v)

    def test_compare(self, e, env):
        # len(opts["batch_ids"]) == 1 is decided later on representatives: both branches here
        r = super().test_compare(e, env)
        if r is None and getattr(self.inter, "state", None):
            r = self.concrete_test(e, env)
        return r

    def test(self, e, env):
        r = super().test(e, env)
        if r is None and getattr(self.inter, "state", None) and not isinstance(e, ast.Compare):
            r = self.concrete_test(e, env, truthiness=True)
        return r

    def concrete_test(self, e, env, truthiness=False):
        """A comparison over the crop's batch state (which ids are missing, how
        many batches / results there are) is decided on the representative
        state of the configuration being enumerated, by the analyser's own
        evaluator; anything it cannot evaluate stays undecided."""
        from ..util import IntEval, single_def
        state = self.inter.state
        fi = self.fi
        BUILT = {"tuple": tuple, "list": list, "sorted": sorted, "len": len, "range": range, "set": set, "min": min, "max": max}

        def on_call(c, ev, st_):
            txt = norm(c)
            if txt in state:
                return state[txt]
            fn = norm(c.func)
            if fn in BUILT and not c.keywords:
                return BUILT[fn](*[ev.ev(a, st_) for a in c.args])
            return NotImplemented

        class Ev(IntEval):
            active = set()

            def ev(s, x, st_):
                if isinstance(x, ast.Name) and x.id not in st_ and x.id not in s.sym:
                    if x.id in s.active:
                        raise AnalysisError("self-referential definition of %s" % x.id)
                    d = single_def(fi, x.id)
                    if d and d[1] is not None:
                        s.active.add(x.id)
                        try:
                            return s.ev(d[1], st_)
                        finally:
                            s.active.discard(x.id)
                return super().ev(x, st_)
        try:
            v = Ev({k: v for k, v in state.items() if not k.endswith(")")}, on_call).ev(e, {})
        except (AnalysisError, TypeError, IndexError, KeyError, ValueError, RecursionError, AttributeError):
            return None
        if isinstance(v, bool):
            self.inter.decided_on_state.append(norm(e))
            return v
        if truthiness and isinstance(v, (tuple, int, str, range)):
            self.inter.decided_on_state.append(norm(e))
            return bool(v)
        return None


class TInter(Inter):
    def __init__(self, ctx):
        super().__init__(ctx, None, track=None)
        self.formats = []
        self.returned = []
        self.state = None
        self.decided_on_state = []

    def flow(self, fi, val):
        fl = TFlow(self, fi, val)
        fl.run()
        self.ctx.touch(fi, fl.cfg)
        return fl

    def resolve(self, fi, call):
        return None    # no descent: crop methods are summarised by representatives


def representative(key, v, state):
    """Representative literal for a format field from the abstract value of
    opts[key] (its provenance expression)."""
    if is_const(v):
        return v[1]
    txt = v[1] if isinstance(v, tuple) and v and v[0] == "expr" else None
    table = {
        "tuple(batch_ids)": EXPLICIT,
        "range(1, crop.num_batches + 1)": range(1, NUM_BATCHES + 1),
        "crop.missing_results()": STATES[state][2] if state in STATES else MISSING,
        "crop.num_batches": NUM_BATCHES,
        "crop.name": "mycrop",
        "full_parent_dir": "/home/user/project",
        "len(opts['batch_ids'])": None,
    }
    if txt in table and table[txt] is not None:
        return table[txt]
    if txt == "len(opts['batch_ids'])":
        return "<len>"
    defaults = {"hours": 1, "minutes": 0, "seconds": 0, "gigabytes": 2, "num_procs": 1, "num_threads": 1, "num_nodes": 1, "num_workers": None,
                "launcher": "python", "setup": "#", "shell_setup": "", "temp_gigabytes": 1, "output_directory": "/home/user/Scratch/output",
                "header_options": "", "debugging": False, "pe": "smp"}
    if key in defaults:
        return defaults[key]
    if txt is not None:
        return ("defer", txt)
    raise AnalysisError("no representative for format field %r (value %r)" % (key, v))


def enumerate_scripts(ctx):
    """-> list of dicts: config, template, keys, script text, embedded python."""
    prog = ctx.prog
    f = prog.need_func(CROP + ".gen_cluster_script")
    # canonical role names: the mapping the template is formatted with is `opts`; the absolute parent directory `full_parent_dir`
    from ..util import role_rename
    spl = {k.value.id for c_ in walk_shallow(f.node) if isinstance(c_, ast.Call) and isinstance(c_.func, ast.Attribute) and c_.func.attr == "format" for k in c_.keywords if k.arg is None and isinstance(k.value, ast.Name)}
    need(len(spl) == 1, "anchor lost: script.format(**<options>) in gen_cluster_script")
    role_rename(f, spl.pop(), "opts")
    for n_ in walk_shallow(f.node):
        if isinstance(n_, ast.Assign) and norm(n_.targets[0]) == "opts":
            from .shared import dict_literal
            dl_ = dict_literal(n_.value)
            if isinstance(dl_, ast.Dict):
                for k_, v_ in zip(dl_.keys, dl_.values):
                    if isinstance(k_, ast.Constant) and k_.value == "parent_dir" and isinstance(v_, ast.Name):
                        role_rename(f, v_.id, "full_parent_dir")
    out = []
    for sched in ("sge", "pbs", "slurm"):
        for mode in ("array", "single"):
            for state, (bids_s, nres_i, miss) in STATES.items():
                bids = NOTNONE if bids_s == "NOTNONE" else NONE
                nres = const(nres_i)
                inter = TInter(ctx)
                inter.state = {"crop.missing_results()": tuple(miss), "crop.num_batches": NUM_BATCHES, "crop.num_results": nres_i}
                init = {"scheduler": const(sched), "mode": const(mode), "batch_ids": bids, "crop.num_results": nres,
                        "hours": NONE, "minutes": NONE, "seconds": NONE, "time": NONE, "num_threads": NONE, "num_workers": NONE, "conda_env": FALSE,
                        "output_directory": NONE, "kwargs": FALSY, "mem": NONE, "mem_per_cpu": NONE, "gigabytes": NONE, "num_nodes": NONE, "num_procs": NONE, "mpi": FALSE,
                        "launcher": const("python"), "setup": const("#"), "shell_setup": const(""), "temp_gigabytes": const(1), "debugging": FALSE}
                fl = inter.flow(f, init)
                cfgname = "%s/%s/%s" % (sched, mode, state)
                if not inter.returned:
                    raise AnalysisError("gen_cluster_script returns no formatted template in configuration %s (returns %r)" % (cfgname, fl.returns))
                for ret in inter.returned:
                    _, template, opts, replaces = ret
                    out.append({"config": cfgname, "sched": sched, "mode": mode, "state": state, "template": template, "opts": dict(opts[1]), "replaces": replaces, "flow": fl})
    return f, out


def build_text(item, ids_override=None):
    keys = item["opts"]
    fields = [fld for _, fld, _, _ in string.Formatter().parse(item["template"]) if fld]
    rep = {}
    for k, v in keys.items():
        rep[k] = representative(k, v, item["state"])
    if ids_override is not None and "batch_ids" in rep and not isinstance(rep["batch_ids"], str):
        rep["batch_ids"] = ids_override
    for k, v in list(rep.items()):
        if v == "<len>":
            rep[k] = len(rep["batch_ids"])
    # values derived from the batch ids (opts['batch_ids'][0], len(...) - 1, ...): evaluated on the representative ids
    from ..util import IntEval
    for k, v in list(rep.items()):
        if isinstance(v, tuple) and len(v) == 2 and v[0] == "defer":
            ids = rep.get("batch_ids")
            sym = {"opts['batch_ids']": tuple(ids) if not isinstance(ids, str) else ids, "crop.num_batches": NUM_BATCHES, "batch_ids": tuple(ids) if not isinstance(ids, str) else ids}

            def on_call(c, ev, st_):
                if norm(c.func) in ("len", "min", "max", "tuple") and not c.keywords:
                    return {"len": len, "min": min, "max": max, "tuple": tuple}[norm(c.func)](*[ev.ev(a, st_) for a in c.args])
                return NotImplemented
            try:
                rep[k] = IntEval(sym, on_call).ev(ast.parse(v[1], mode="eval").body, {})
            except (AnalysisError, IndexError, TypeError, SyntaxError) as ex:
                raise AnalysisError("no representative for format field %r (`%s`): %s" % (k, v[1], ex))
    return fields, rep


def embedded(text):
    m = re.search(r"<< (\w+)\n(.*?)\n\1\n", text, re.S)
    if not m:
        return None, None
    return m.group(1), m.group(2)


def run(ctx):
    prog = ctx.prog
    f, items = enumerate_scripts(ctx)
    ctx.extra["configurations_enumerated"] = len(items)
    ctx.extra["exhaustive"] = True
    r1 = ctx.rule("C16.R1", "configuration enumeration: one folded template + definite key set per scheduler x mode x batch state", floor=18)
    r2 = ctx.rule("C16.R2", "every {field} of the assembled template is a definite key of the format dictionary", floor=18)
    r3 = ctx.rule("C16.R3", "the embedded program is valid Python in every configuration (also after the PBS size-1 rewrite)", floor=18)
    r4 = ctx.rule("C16.R4", "index mapping: task variable / header range / batch_ids indexing match the scheduler table and the intended ids", floor=18)
    r5 = ctx.rule("C16.R5", "the embedded program links against the current signatures", floor=18)
    r6 = ctx.rule("C16.R6", "shell shape: shebang first, here-doc opener, terminator not inside the program", floor=18)
    samples = []
    texts = []
    for it in items:
        cfgname = it["config"]
        sched, mode, state = it["sched"], it["mode"], it["state"]
        r1.ok("%s: template of %d chars, %d opts keys" % (cfgname, len(it["template"]), len(it["opts"])))
        fields, rep = build_text(it)
        missing = [x for x in fields if x.split(":")[0].split("!")[0] not in it["opts"]]
        if missing:
            r2.bad(ctx.finding("C16.R2", f, f.node, "configuration %s: template field(s) %s are not keys of the format dictionary (KeyError when the script is generated)" % (cfgname, sorted(set(missing))), construct="missing-field %s %s" % (cfgname, sorted(set(missing))), path=cfgname), cfgname)
            continue
        r2.ok("%s: %d fields all definite keys" % (cfgname, len(fields)))
        variants = [(None, "")]
        if sched == "pbs" and state != "fresh crop":
            variants.append(((4,), " (one id: PBS size-1 rewrite)"))
        if sched == "pbs" and state == "fresh crop":
            variants.append(("one-batch", " (crop of one batch: PBS size-1 rewrite)"))
        for ids, vtxt in variants:
            it2 = dict(it)
            global NUM_BATCHES
            saved = NUM_BATCHES
            if ids == "one-batch":
                NUM_BATCHES = 1
                ids_o = None
            else:
                ids_o = ids
            try:
                fields, rep = build_text(it2, ids_o)
            finally:
                nb = NUM_BATCHES
                NUM_BATCHES = saved
            try:
                text = it["template"].format(**rep)
            except Exception as e:
                r3.bad(ctx.finding("C16.R3", f, f.node, "configuration %s: the template cannot be formatted (%r)" % (cfgname, e), construct="format-error " + cfgname, path=cfgname), cfgname)
                continue
            ids_len = len(rep["batch_ids"]) if not isinstance(rep.get("batch_ids"), str) else None
            if sched == "pbs" and ids_len == 1:
                # the generator's own post-processing: apply the recorded replace chain
                if not it["replaces"]:
                    r4.bad(ctx.finding("C16.R4", f, f.node, "PBS cannot run an array of size 1 but no size-1 rewrite is applied (%s)" % cfgname, construct="pbs-size1-missing", path=cfgname), cfgname + vtxt)
                for a, b in it["replaces"]:
                    text = text.replace(a, b)
            texts.append((cfgname + vtxt, text))
            check_script(ctx, f, it, cfgname + vtxt, text, rep, ids_len, r3, r4, r5, r6, nb)
            if len(samples) < 3:
                samples.append({"config": cfgname + vtxt, "script_head": text[:300]})
    ctx.extra["samples_scripts"] = samples
    if ctx.tier == "thorough":
        r6b = ctx.rule("C16.R6b", "bash -n accepts every assembled script (parser only)", floor=18)
        for name, text in texts:
            p = subprocess.run(["bash", "-n"], input=text, capture_output=True, text=True)
            if p.returncode != 0:
                r6b.bad(ctx.finding("C16.R6b", f, f.node, "bash -n rejects the script of %s: %s" % (name, p.stderr.strip()[:120]), construct="bash-n " + name, path=name), name)
            else:
                r6b.ok("bash -n ok: %s" % name)
    cli_rule(ctx, "C16.R7")
    option_defaults_rule(ctx, "C16.R10")
    from . import batching as _b
    _b.missing_fresh_rule(ctx, "C16.R11")
    c08.listing_rule(ctx, "C16.R8")
    c04.grow_order_rule(ctx, "C16.R9")
    sl = [f, prog.need_func(CROP + ".grow_cluster"), prog.need_func("xyzpy.gen.xyzpy_grow_cli.main"), prog.need_func(CROP + ".Crop.missing_results"), prog.need_func(CROP + ".Crop.grow_missing"), prog.need_func(CROP + ".Crop.grow")]
    base_rules.run_link_rules(ctx, "C16", sl)
    # xyzpy.utils.XYZPYError on the CLI's "not sown" error path is an observation outside the property statement
    for r in ctx.results:
        if r.rule == "C16.B2":
            keep = []
            for fnd in r.findings:
                if "XYZPYError" in fnd.message:
                    r.notes.append("observation (outside the property: the CLI's 'crop not sown' error path raises AttributeError instead of the intended error): " + fnd.message)
                else:
                    keep.append(fnd)
            r.findings = keep


def check_script(ctx, f, it, name, text, rep, ids_len, r3, r4, r5, r6, num_batches):
    sched, mode, state = it["sched"], it["mode"], it["state"]
    T = SCHED[sched]
    # ---- R6 shell shape
    term, prog_txt = embedded(text)
    if not text.startswith("#!"):
        r6.bad(ctx.finding("C16.R6", f, f.node, "%s: the script does not start with a shebang line" % name, construct="no-shebang " + sched, path=name), name)
    elif term is None:
        r6.bad(ctx.finding("C16.R6", f, f.node, "%s: here-doc opener / terminator not found" % name, construct="no-heredoc " + sched, path=name), name)
        return
    elif re.search(r"^%s$" % re.escape(term), prog_txt, re.M):
        r6.bad(ctx.finding("C16.R6", f, f.node, "%s: the here-doc terminator occurs inside the embedded program" % name, construct="terminator-inside", path=name), name)
    else:
        r6.ok("%s: shebang, here-doc << %s ... %s" % (name, term, term))
    # directives of other schedulers must not appear
    for other, O in SCHED.items():
        if other != sched and re.search(r"^%s " % re.escape(O["prefix"]), text, re.M):
            r4.bad(ctx.finding("C16.R4", f, f.node, "%s: the script contains %s directives" % (name, other), construct="foreign-directive %s in %s" % (other, sched), path=name), name)
    # ---- R3 embedded python
    taskvars = set(re.findall(r"\$\{?[A-Za-z_][A-Za-z_0-9]*(?::-[^}]*)?\}?", prog_txt))
    py = prog_txt
    for tv in sorted(taskvars, key=len, reverse=True):
        py = py.replace(tv, "7")
    try:
        tree = ast.parse(py)
    except SyntaxError as e:
        r3.bad(ctx.finding("C16.R3", f, f.node, "%s: the embedded program is not valid Python (%s at line %s: %r)" % (name, e.msg, e.lineno, (py.splitlines()[e.lineno - 1] if e.lineno and e.lineno <= len(py.splitlines()) else "")[:60]),
                           construct="embedded-not-python %s" % it["config"].replace(" ", "-"), path=name), name)
        return
    r3.ok("%s: embedded program parses (%d statements)" % (name, len(tree.body)))
    # ---- R4 index mapping
    m_arr = T["array"].search(text)
    calls = [c for c in ast.walk(tree) if isinstance(c, ast.Call)]
    grow_calls = [c for c in calls if isinstance(c.func, ast.Name) and c.func.id == "grow"]
    cg_calls = [c for c in calls if isinstance(c.func, ast.Attribute) and c.func.attr == "grow" and norm(c.func.value) == "crop"]
    raw_lines = [l for l in prog_txt.splitlines() if "grow(" in l]
    if mode == "array":
        size1 = (sched == "pbs" and ids_len == 1)
        if len(grow_calls) != 1 or cg_calls:
            r4.bad(ctx.finding("C16.R4", f, f.node, "%s: array mode must call grow(<id>, **grow_kwargs) exactly once" % name, construct="array-grow-count " + sched, path=name), name)
            return
        line = [l for l in raw_lines if re.search(r"\bgrow\(", l) and "crop.grow" not in l][0].strip()
        used = [tv for tv in taskvars if tv in line]
        if size1:
            if m_arr:
                r4.bad(ctx.finding("C16.R4", f, f.node, "%s: a PBS job of one task still carries an array directive" % name, construct="pbs-size1-directive", path=name), name)
            if used:
                r4.bad(ctx.finding("C16.R4", f, f.node, "%s: after the PBS size-1 rewrite the program still refers to %s (unset for a non-array job)" % (name, used), construct="pbs-size1-var", path=name), name)
            a0 = grow_calls[0].args[0] if grow_calls[0].args else None
            expect = "batch_ids[1 - 1]" if state != "fresh crop" else "1"
            if a0 is None or norm(a0) != expect:
                r4.bad(ctx.finding("C16.R4", f, f.node, "%s: after the size-1 rewrite the grown id is `%s`, expected `%s`" % (name, norm(a0) if a0 else None, expect), construct="pbs-size1-id", path=name), name)
            else:
                r4.ok("%s: size-1 PBS job grows %s, no array directive" % (name, expect))
            return
        if not m_arr:
            r4.bad(ctx.finding("C16.R4", f, f.node, "%s: array mode without the scheduler's array directive (%s)" % (name, T["array"].pattern), construct="no-array-directive " + sched, path=name), name)
            return
        lo, hi = int(m_arr.group(1)), int(m_arr.group(2))
        if used != [T["var"]]:
            r4.bad(ctx.finding("C16.R4", f, f.node, "%s: the grown id is computed from %s, but %s exports the task index as %s (and the size-1 rewrite substitutes exactly that spelling)" % (name, used or "no task variable", sched.upper(), T["var"]),
                               construct="task-variable %s" % sched, path=name), name)
            return
        a0 = norm(grow_calls[0].args[0]) if grow_calls[0].args else ""
        # evaluate the grown id for every task index of the header range (the analyser's own evaluator)
        py2 = prog_txt
        for tv in sorted(taskvars, key=len, reverse=True):
            py2 = py2.replace(tv, "TASK_")
        tree2 = ast.parse(py2)
        g2 = [c for c in ast.walk(tree2) if isinstance(c, ast.Call) and isinstance(c.func, ast.Name) and c.func.id == "grow"][0]
        ids_assign = [n for n in ast.walk(tree2) if isinstance(n, ast.Assign) and norm(n.targets[0]) == "batch_ids"]
        ids_lit = None
        if ids_assign:
            try:
                ids_lit = tuple(ast.literal_eval(ids_assign[-1].value))
            except Exception:
                ids_lit = None
        intended = tuple(range(1, num_batches + 1)) if state == "fresh crop" else tuple(rep["batch_ids"])

        def ev(e, k):
            if isinstance(e, ast.Constant) and isinstance(e.value, int):
                return e.value
            if isinstance(e, ast.Name) and e.id == "TASK_":
                return k
            if isinstance(e, ast.BinOp) and isinstance(e.op, (ast.Add, ast.Sub)):
                a, b = ev(e.left, k), ev(e.right, k)
                return a + b if isinstance(e.op, ast.Add) else a - b
            if isinstance(e, ast.Call) and isinstance(e.func, ast.Name) and e.func.id == "int" and len(e.args) == 1:
                return ev(e.args[0], k)
            if isinstance(e, ast.Subscript) and norm(e.value) == "batch_ids" and ids_lit is not None:
                i = ev(e.slice, k)
                if not (0 <= i < len(ids_lit)):     # a negative index would silently wrap around
                    raise IndexError(i)
                return ids_lit[i]
            raise AnalysisError("C16.R4: cannot evaluate the grown id `%s` (%s)" % (norm(e), name))
        want = "tasks %d-%d grow exactly the ids %s, each once" % (1, len(intended), (list(intended) if len(intended) <= 8 else "1..%d" % len(intended)))
        try:
            grown = [ev(g2.args[0], k) for k in range(lo, hi + 1)] if g2.args else None
        except IndexError:
            grown = "index out of range"
        if isinstance(grown, list) and sorted(grown) == sorted(intended) and lo == 1:
            r4.ok("%s: header range %d-%d, task k grows %s: ids %s" % (name, lo, hi, a0.replace("7", "$TASK"), grown if len(grown) <= 8 else "1..%d" % len(grown)))
        else:
            r4.bad(ctx.finding("C16.R4", f, f.node, "%s: array task k grows `%s` over header range %d-%d, i.e. %s; intended: %s -- some batch is grown twice / never / although it is finished, or an index is out of range" % (name, a0.replace("7", "$TASK"), lo, hi, grown, want),
                               construct="index-mapping %s %s" % (sched, state), path=name), name)
    else:
        if m_arr:
            r4.bad(ctx.finding("C16.R4", f, f.node, "%s: single mode carries an array directive" % name, construct="single-array-directive " + sched, path=name), name)
        if len(cg_calls) != 1 or grow_calls:
            r4.bad(ctx.finding("C16.R4", f, f.node, "%s: single mode must call crop.grow(batch_ids, ...) exactly once" % name, construct="single-grow-count", path=name), name)
            return
        ids = [n for n in ast.walk(tree) if isinstance(n, ast.Assign) and norm(n.targets[0]) == "batch_ids"]
        want = "crop.missing_results()" if state != "explicit ids" else repr(tuple(rep["batch_ids"]))
        if len(ids) == 1 and norm(ids[0].value) == norm(ast.parse(want, mode="eval").body) and norm(cg_calls[0].args[0]) == "batch_ids":
            r4.ok("%s: crop.grow(batch_ids) with batch_ids = %s" % (name, want))
        else:
            r4.bad(ctx.finding("C16.R4", f, f.node, "%s: single mode grows `%s`, intended %s" % (name, norm(ids[0].value) if ids else None, want), construct="single-ids %s" % state, path=name), name)
    # ---- R5 links
    prog = ctx.prog
    okl = True
    for n in ast.walk(tree):
        if isinstance(n, ast.ImportFrom):
            m = prog.modules.get(n.module)
            for a in n.names:
                if m is None or prog.resolve_global(m, a.name) is None:
                    r5.bad(ctx.finding("C16.R5", f, f.node, "%s: `from %s import %s` does not resolve" % (name, n.module, a.name), construct="embedded-import " + a.name, path=name), name)
                    okl = False
    targets = {"grow": prog.need_func(CROP + ".grow"), "Crop": prog.need_cls(CROP + ".Crop").find_method("__init__")}
    for c in calls:
        callee = None
        is_m = None
        if isinstance(c.func, ast.Name) and c.func.id in targets:
            callee = targets[c.func.id]
            is_m = True if c.func.id == "Crop" else False
        elif isinstance(c.func, ast.Attribute) and norm(c.func.value) == "crop":
            callee = prog.need_cls(CROP + ".Crop").find_method(c.func.attr)
            is_m = True
            if callee is None:
                r5.bad(ctx.finding("C16.R5", f, f.node, "%s: Crop has no method %s" % (name, c.func.attr), construct="embedded-method " + c.func.attr, path=name), name)
                okl = False
                continue
        if isinstance(callee, FuncInfo):
            kws = [k for k in c.keywords if k.arg is None]
            c2 = c
            if kws:
                # **grow_kwargs = dict(crop=..., debugging=..., num_workers=...)
                gk = [n for n in ast.walk(tree) if isinstance(n, ast.Assign) and norm(n.targets[0]) == norm(kws[0].value) and isinstance(n.value, ast.Call) and norm(n.value.func) == "dict"]
                if gk:
                    c2 = ast.Call(func=c.func, args=c.args, keywords=list(gk[0].value.keywords))
            binding, problems, star = bind_call(c2, callee, None, is_m)
            for p in problems:
                r5.bad(ctx.finding("C16.R5", f, f.node, "%s: embedded call `%s` does not match %s: %s" % (name, norm(c)[:50], callee.qualname, p), construct="embedded-call %s %s" % (callee.name, p), path=name), name)
                okl = False
            if callee.name == "grow" and callee.cls is not None:
                # crop.grow(batch_ids, num_workers=..) forwards **opts to combo_runner_core
                core = prog.need_func("xyzpy.gen.combo_runner.combo_runner_core")
                for k in c.keywords:
                    if k.arg and k.arg not in callee.params and k.arg not in core.params:
                        r5.bad(ctx.finding("C16.R5", f, f.node, "%s: crop.grow(..., %s=) is forwarded to combo_runner_core, which has no such parameter" % (name, k.arg), construct="embedded-forward " + k.arg, path=name), name)
                        okl = False
    if okl:
        r5.ok("%s: imports, Crop(...), grow(...) / crop.grow(...) bind to the current signatures" % name)


def option_defaults_rule(ctx, rid):
    """C16.R10: for every combination of omitted / given resource options
    (num_procs, num_threads, num_workers) no arithmetic is applied to an
    option that is definitely None on that path -- otherwise no script is
    generated at all for that legal option combination."""
    from ..flow import Flow, is_none
    from ..cfg import node_exprs
    rr = ctx.rule(rid, "resource options: no arithmetic on an omitted (None) option for any combination of num_procs / num_threads / num_workers given or omitted", floor=8)
    f = ctx.prog.need_func(CROP + ".gen_cluster_script")
    g = build_cfg(f.node)
    ctx.touch(f, g)
    seen = set()
    for sched in ("sge", "pbs", "slurm"):
        for np_, nt, nw in itertools.product((NONE, NOTNONE), repeat=3):
            init = {"scheduler": const(sched), "mode": const("array"), "batch_ids": NONE, "num_procs": np_, "num_threads": nt, "num_workers": nw,
                    "hours": NONE, "minutes": NONE, "seconds": NONE, "time": NONE, "conda_env": FALSE, "output_directory": NONE, "kwargs": FALSY, "mem": NONE, "mem_per_cpu": NONE,
                    "gigabytes": NONE, "num_nodes": NONE, "mpi": FALSE}
            fl = Flow(g, init).run()
            tag = "num_procs %s, num_threads %s, num_workers %s" % tuple("omitted" if v == NONE else "given" for v in (np_, nt, nw))
            bad = None
            for n in g.nodes:
                if n.id not in fl.visited or n.id not in fl.IN:
                    continue
                env = fl.IN[n.id]
                for e in node_exprs(n):
                    for b in ast.walk(e):
                        if isinstance(b, ast.BinOp) and isinstance(b.op, (ast.Add, ast.Sub, ast.Mult, ast.Div, ast.FloorDiv, ast.Mod, ast.Pow)):
                            for side in (b.left, b.right):
                                if isinstance(side, (ast.Name, ast.Attribute)) and is_none(fl.eval(side, env.copy())) is True:
                                    if bad is None or (b.lineno, b.col_offset) < (bad[0].lineno, bad[0].col_offset):
                                        bad = (b, side)      # the first one in source order ends the path
            if bad is None:
                rr.ok("%s / %s: no arithmetic on an omitted option" % (sched, tag))
            else:
                key = (norm(bad[0]), tag)
                if key not in seen:
                    seen.add(key)
                    rr.bad(ctx.finding(rid, f, bad[0], "with %s the generator evaluates `%s` where `%s` is None: gen_cluster_script raises TypeError and no script is produced for this option combination (every scheduler)" % (tag, norm(bad[0]), norm(bad[1])),
                                       construct="none-arithmetic %s [%s]" % (norm(bad[0]), tag), path=tag), tag)
    return rr


def cli_rule(ctx, rid):
    rr = ctx.rule(rid, "grow CLI: entry point resolves; main reaches Crop.grow_missing with acceptable kwargs on every path past the checks", floor=3)
    prog = ctx.prog
    sp = os.path.join(prog.repo, "setup.py")
    need(os.path.exists(sp), "anchor lost: setup.py")
    tree = ast.parse(open(sp).read())
    eps = []
    for n in ast.walk(tree):
        if isinstance(n, ast.Constant) and isinstance(n.value, str) and re.match(r"^\s*[\w-]+\s*=\s*[\w.]+:\w+\s*$", n.value):
            eps.append(n.value)
    need(eps, "anchor lost: console_scripts entry in setup.py")
    for ep in eps:
        name, target = [x.strip() for x in ep.split("=")]
        mod, fn = target.split(":")
        m = prog.modules.get(mod)
        if m is None or fn not in m.funcs:
            rr.bad(ctx.finding(rid, None, None, "console script %s points at %s, which does not exist" % (name, target), construct="entry-point " + target), "entry point")
        else:
            rr.ok("console script %s -> %s" % (name, target))
    main = prog.need_func("xyzpy.gen.xyzpy_grow_cli.main")
    g = build_cfg(main.node)
    ctx.touch(main, g)
    gm = [(n, c) for n, c in [(n, c) for n in g.nodes for c in node_calls(n)] if isinstance(c.func, ast.Attribute) and c.func.attr == "grow_missing"]
    if not gm:
        rr.bad(ctx.finding(rid, main, main.node, "the command-line grower no longer calls grow_missing", construct="cli-no-grow-missing"), "cli grows missing")
        return rr
    n, c = gm[0]
    if g.completes_before(n.id, g.exit.id):
        rr.ok("main: every normal exit passes crop.grow_missing(**grow_kwargs)")
    else:
        rr.bad(ctx.finding(rid, main, c, "a normal exit of the CLI is reachable without growing the missing batches", construct="cli-skip"), "cli grows on all paths")
    # the crop's folder is importable before the crop (and with it the pickled function, possibly by reference to a module
    # living next to the crop) is loaded
    paths = [(n_, c_) for n_ in g.nodes for c_ in node_calls(n_) if norm(c_.func) in ("sys.path.append", "sys.path.insert") and "parent_dir" in norm(c_)]
    crops = [(n_, c_) for n_ in g.nodes for c_ in node_calls(n_) if norm(c_.func).endswith("Crop") and any(k.arg == "parent_dir" for k in c_.keywords)]
    if paths and crops:
        if all(any(g.completes_before(pn.id, cn.id) for pn, _ in paths) for cn, _ in crops):
            rr.ok("main: parent_dir is on sys.path before the crop (and its function) is loaded")
        else:
            rr.bad(ctx.finding(rid, main, crops[0][1], "the crop is constructed (auto-loading and unpickling its function) before `%s`: a function pickled by reference to a module that lives next to the crop cannot be imported, the CLI stops with ModuleNotFoundError and nothing is grown" % norm(paths[0][1]),
                               construct="cli-path-after-crop"), "cli import path")
    elif crops and not paths:
        raise AnalysisError("idiom changed: the CLI no longer puts parent_dir on sys.path")
    # the "not sown" refusal guards the unprepared crop, not the prepared one
    for t_ in [x for x in ast.walk(main.node) if isinstance(x, ast.If) and any(isinstance(y, ast.Call) and isinstance(y.func, ast.Attribute) and y.func.attr == "is_prepared" for y in ast.walk(x.test))]:
        raises_in_body = any(isinstance(y, ast.Raise) for y in ast.walk(ast.Module(body=t_.body, type_ignores=[])))
        neg = isinstance(t_.test, ast.UnaryOp) and isinstance(t_.test.op, ast.Not)
        if raises_in_body and not neg:
            rr.bad(ctx.finding(rid, main, t_.test, "the CLI refuses (raises) when the crop *is* prepared and goes on when it is not: a sown crop can never be grown from the command line", construct="cli-prepared-polarity"), "cli prepared check")
        elif raises_in_body:
            rr.ok("the CLI refuses exactly the crop that has not been sown")
    # every attribute read from the parsed arguments is defined by an add_argument
    defined = set()
    for x in ast.walk(main.node):
        if isinstance(x, ast.Call) and isinstance(x.func, ast.Attribute) and x.func.attr == "add_argument":
            for a_ in x.args:
                if isinstance(a_, ast.Constant) and isinstance(a_.value, str):
                    defined.add(a_.value.lstrip("-").replace("-", "_"))
            d_ = arg(x, None, "dest")
            if isinstance(d_, ast.Constant):
                defined.add(d_.value)
    used = {x.attr for x in ast.walk(main.node) if isinstance(x, ast.Attribute) and isinstance(x.value, ast.Name) and x.value.id == "args"}
    if defined:
        undefined = sorted(used - defined)
        if undefined:
            rr.bad(ctx.finding(rid, main, main.node, "the CLI reads args.%s, which no add_argument defines: AttributeError before anything is grown" % undefined[0], construct="cli-arg-undefined " + undefined[0]), "cli arguments defined")
        else:
            rr.ok("every args.<name> read (%s) is defined by the parser" % ", ".join(sorted(used)))
    # kwargs keys accepted by the enumerator
    core = prog.need_func("xyzpy.gen.combo_runner.combo_runner_core")
    keys = set()
    splats = [k.value.id for k in c.keywords if k.arg is None and isinstance(k.value, ast.Name)]
    if [k for k in c.keywords if k.arg is None and not isinstance(k.value, ast.Name)]:
        raise AnalysisError("idiom changed: grow_missing(**<expression>) in the CLI")
    for x in walk_shallow(main.node):
        if isinstance(x, ast.Assign) and norm(x.targets[0]) in splats:
            from .shared import dict_literal
            dl = dict_literal(x.value)
            if isinstance(dl, ast.Dict):
                keys |= {k.value for k in dl.keys if isinstance(k, ast.Constant)}
            else:
                raise AnalysisError("idiom changed: the CLI's grow keyword mapping is `%s`" % norm(x.value)[:60])
        if isinstance(x, ast.Assign) and isinstance(x.targets[0], ast.Subscript) and norm(x.targets[0].value) in splats and isinstance(x.targets[0].slice, ast.Constant):
            keys.add(x.targets[0].slice.value)
    keys |= {k.arg for k in c.keywords if k.arg is not None}          # keywords written at the call itself
    gmf = prog.need_cls(CROP + ".Crop").methods.get("grow_missing")
    growf = prog.need_cls(CROP + ".Crop").methods.get("grow")
    accepted = set(core.params) | set(gmf.params if gmf else ()) | set(growf.params if growf else ())
    badk = [k for k in keys if k not in accepted]
    if badk or not keys:
        rr.bad(ctx.finding(rid, main, main.node, "grow_kwargs key(s) %s are not parameters of combo_runner_core, to which Crop.grow forwards them" % badk, construct="cli-kwargs %s" % badk), "cli kwargs")
    else:
        rr.ok("grow_kwargs keys %s are parameters of combo_runner_core" % sorted(keys))
    return rr
