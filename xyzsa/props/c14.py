"""C14 -- saving and loading a dataset gives the same dataset back (naming clause)."""
from .. import base_rules
from . import harvest
from .harvest import FARM, MAN

LEVEL = "other"
CLAIM = {
    "text": ("Only the naming and table clauses of C14 are structural and decided: (R1) the file name used is the given name with the engine's extension added when it has none, consistently for saving, loading, merging and deleting (a Harvester method that remembers the normalised name in an attribute and reads it back is reported: data_name is a plain attribute and can be reassigned) "
             "(every file-system call on the dataset file uses the name normalised with the engine of the I/O; save_ds / load_ds normalise before every use); (R2) the extension table, save_ds and load_ds agree on the engines, extensions do not "
             "shadow one another, auto_add_extension adds exactly the engine's extension iff none is present, and the documented attribute rewriting is exactly None/True/False by identity on netCDF engines only; (R3) on the netCDF branch, complex data reaches Dataset.to_netcdf with invalid_netcdf=True (the option without which h5netcdf refuses complex dtypes), set unconditionally or on the complex branch of a complex-data test, before the call. "
             "NOT decided -- the bulk of the property: round-trip identity of values, dtypes, NaNs, complex data, lazy vs eager loading are facts about h5netcdf / joblib / dask on runtime data."),
    "note": "Trusted base: none beyond CPython semantics; the claim is limited to the naming / table clauses and says so.",
    "technique": "static analysis: provenance rule on file-name expressions, table agreement, exact-idiom rule for the attribute rewriting tests",
}
EXPLANATION = "Provenance of file-name arguments; engine / extension table agreement; the attribute-rewriting tests compared with the documented identity tests."
ASSUMPTIONS = []
NOT_DECIDED = ["(L/V) save -> load identity of dimensions, coordinates, values (complex, NaN), dtypes, attributes for every engine", "(L) lazy (chunks) vs eager loading equality"]


def run(ctx):
    harvest.physical_name_rule(ctx, "C14.R1")
    harvest.engine_tables_rule(ctx, "C14.R2")
    harvest.complex_netcdf_rule(ctx, "C14.R3")
    prog = ctx.prog
    sl = [prog.need_func(MAN + "." + n) for n in ("auto_add_extension", "save_ds", "load_ds", "save_merge_ds")]
    base_rules.run_link_rules(ctx, "C14", sl)
