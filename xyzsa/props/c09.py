"""C09 -- a partial reap shows finished batches exactly and everything else as missing."""
import ast

from ..loader import AnalysisError, norm, walk_shallow
from ..cfg import build_cfg
from ..util import callee_name, all_calls, arg, need, single_def, names_in
from .. import base_rules
from . import shared, batching, c12
from .shared import CROP

LEVEL = "other"
CLAIM = {
    "text": ("Decides the structural clauses of C09: (R1) the Reaper derives a missing batch's id from its file name with the writer's template and sizes its placeholder with a predicate whose "
             "linear normal form equals the Sower's (id <= remainder) -- for all N, batch counts and subsets of finished batches; (R2) the 'no placeholder' marker tested by the Reaper is the very object "
             "returned by the clean-up decision function and the Reaper's default, and is not a value the placeholder constructor can return (None cannot mean both); (R3) the readiness gate completes before "
             "any Reaper is built and before any file effect; (R4) the decision functions evaluated over their complete input space match the documented table; (R5) for every flag valuation with "
             "allow_incomplete the crop can be deleted iff clean_up is explicitly true; (R6) a failing result load propagates; (R9) when the Reaper asks missing_results which batches need a stand-in, missing_results looks at the result files in every call (= C08.R9; not applicable on a tree whose Reaper tests each file itself); (R7) every value the placeholder constructor nan_like_result can return is None or NaN in a float / object container (a dtype-preserving fill turns 'missing' into ordinary integers / True); (R8) the Reaper replays the enumeration with the settings persisted at sow time (shuffle, combos, cases), not with the reaping object's own attributes. Placeholder shapes per result kind are library semantics and not decided."),
    "note": "Trusted base: CPython semantics of the parsed ast; the Sower/Reaper are located by role (the method calling the crop-file writer; the closure building `(default,) * size`).",
    "technique": "static analysis: sibling cross-check of linear-form predicates (Sower vs Reaper), identity dataflow of the sentinel, CFG must-complete-before gate rule, exhaustive finite decision-table evaluation",
}
EXPLANATION = ("Sibling cross-check Sower vs Reaper on linear normal forms; sentinel identity by abstract evaluation of calc_clean_up_default_res; CFG gate rule; finite decision table; "
               "interprocedural delete-event table restricted to allow_incomplete; handler inspection around result loads.")
ASSUMPTIONS = ["the Sower increments its id counter before naming (checked in C07.R1 and re-derived here)",
               "nan_like_result's possible constant return values are those syntactically returned"]
NOT_DECIDED = ["(L/V) the placeholder's shape for each result kind (numpy broadcasting, xr.full_like) -- C02",
               "(V) exact values at finished positions -- follows from C01/C04 placement"]


def sentinel_rule(ctx, rid):
    rr = ctx.rule(rid, "`None` cannot mean both 'no default' and 'the placeholder': sentinel identity", floor=3)
    prog = ctx.prog
    ld, _wl, init = shared.reaper_loaders(ctx)
    ctx.touch(init), ctx.touch(ld)
    # the parameter receiving the placeholder
    reaper_calls = []
    crop = prog.need_cls(CROP + ".Crop")
    for m in crop.methods.values():
        for n, c, nm in all_calls(ctx, m):
            if nm == CROP + ".Reaper":
                reaper_calls.append((m, c))
    need(len(reaper_calls) >= 2, "anchor lost: Reaper construction sites")
    pname = None
    for m, c in reaper_calls:
        kws = [k.arg for k in c.keywords if k.arg and "default" in k.arg]
        need(len(kws) == 1, "idiom changed: Reaper(...) default keyword in %s" % m.qualname)
        pname = kws[0]
        v = arg(c, None, pname)
        # provenance: second component of calc_clean_up_default_res, possibly through local aliases / tuple assignments
        def origin(e, seen=()):
            """('calc', i) | ('const', text) | ('placeholder-attr',) | None (not followed)"""
            if isinstance(e, ast.Constant):
                return ("const", norm(e))
            if isinstance(e, ast.Attribute) and e.attr == "all_nan_result":
                return ("placeholder-attr",)
            if not isinstance(e, ast.Name) or e.id in seen:
                return None
            outs = set()
            defs_ = 0
            for st_ in ast.walk(m.node):
                if not isinstance(st_, ast.Assign) or len(st_.targets) != 1:
                    if isinstance(st_, (ast.AugAssign, ast.For, ast.With, ast.NamedExpr)) and any(isinstance(x_, ast.Name) and x_.id == e.id and isinstance(x_.ctx, ast.Store) for x_ in ast.walk(st_)) \
                            and not isinstance(st_, ast.With):
                        return None
                    continue
                t_ = st_.targets[0]
                if isinstance(t_, ast.Name) and t_.id == e.id:
                    defs_ += 1
                    outs.add(origin(st_.value, seen + (e.id,)))
                elif isinstance(t_, ast.Tuple) and any(isinstance(x_, ast.Name) and x_.id == e.id for x_ in t_.elts):
                    defs_ += 1
                    i_ = [k_ for k_, x_ in enumerate(t_.elts) if isinstance(x_, ast.Name) and x_.id == e.id][0]
                    if isinstance(st_.value, ast.Call) and callee_name(ctx, m, st_.value) == CROP + ".calc_clean_up_default_res" and len(t_.elts) == 2:
                        outs.add(("calc", i_))
                    elif isinstance(st_.value, ast.Tuple) and len(st_.value.elts) == len(t_.elts):
                        outs.add(origin(st_.value.elts[i_], seen + (e.id,)))
                    else:
                        outs.add(None)
            if defs_ == 0 or len(outs) != 1:
                return None
            return outs.pop()
        org = origin(v)
        if org == ("calc", 1):
            rr.ok("%s: Reaper(%s=...) receives the second result of calc_clean_up_default_res" % (m.name, pname))
        elif org is None:
            raise AnalysisError("idiom changed: where the Reaper's %s=%s in %s comes from is not followed back to calc_clean_up_default_res" % (pname, norm(v)[:40], m.qualname))
        else:
            what_ = {"calc": "the clean-up flag (first result of calc_clean_up_default_res)", "const": "the constant %s" % (org[1] if len(org) > 1 else ""), "placeholder-attr": "the placeholder itself, unconditionally"}[org[0]]
            rr.bad(ctx.finding(rid, m, c, "the Reaper's %s=%s is %s, not the placeholder decided by calc_clean_up_default_res" % (pname, norm(v), what_), construct="reaper-default-provenance"), "%s default provenance" % m.name)
    # the test in _load (the parameter may have been stored on the instance under another name: self.X = <param>)
    attr_of_param = pname
    for st_ in ast.walk(init.node):
        if isinstance(st_, ast.Assign) and isinstance(st_.targets[0], ast.Attribute) and norm(st_.targets[0].value) == "self" and norm(st_.value) == pname:
            attr_of_param = st_.targets[0].attr
    tests = []
    from ..util import callee_func as _cf
    scan = [ld] + [h for h in {_cf(ctx, ld, c_) for _, c_, _n in all_calls(ctx, ld)} if h is not None and h is not ld and (h.cls is ld.cls and ld.cls is not None or (h.parent is not None and h.parent is ld.parent))]
    for n in [x for fn_ in scan for x in walk_shallow(fn_.node)]:
        if isinstance(n, ast.Compare) and len(n.ops) == 1 and isinstance(n.ops[0], (ast.Is, ast.IsNot, ast.Eq, ast.NotEq)) and \
                norm(n.left).split(".")[-1].lstrip("_") in (pname.lstrip("_"), attr_of_param.lstrip("_")):
            tests.append(n)
    need(len(tests) == 1, "idiom changed: the Reaper's use-default test on %s (found %d)" % (pname, len(tests)))
    t = tests[0]
    marker = t.comparators[0]
    mtxt = norm(marker)
    if not isinstance(t.ops[0], (ast.Is, ast.IsNot)):
        rr.bad(ctx.finding(rid, ld, t, "the no-default test uses == instead of identity: array-valued placeholders compare element-wise", construct="sentinel-eq"), "identity test")
    # the decision itself, as a truth table over (a placeholder was decided, wait, the result file exists):
    # the placeholder stands in iff one was decided, the reaper does not wait, and the file is absent
    holder = t
    p_ = getattr(t, "_parent", None)
    while p_ is not None and isinstance(p_, (ast.BoolOp, ast.UnaryOp)):
        holder = p_
        p_ = getattr(p_, "_parent", None)
    t_txt = norm(t)

    def tv(e, has_default, wait_v, file_v):
        if norm(e) == t_txt:
            r_ = not has_default            # `<default> is <sentinel>`
            return r_ if isinstance(t.ops[0], (ast.Is, ast.Eq)) else not r_
        if isinstance(e, ast.BoolOp):
            vals_ = [tv(x, has_default, wait_v, file_v) for x in e.values]
            return all(vals_) if isinstance(e.op, ast.And) else any(vals_)
        if isinstance(e, ast.UnaryOp) and isinstance(e.op, ast.Not):
            return not tv(e.operand, has_default, wait_v, file_v)
        if isinstance(e, (ast.Name, ast.Attribute)) and norm(e).split(".")[-1].lstrip("_") == "wait":
            return wait_v
        if isinstance(e, ast.Call) and norm(e.func) in ("os.path.isfile", "os.path.exists"):
            return file_v
        if isinstance(e, ast.Constant) and isinstance(e.value, bool):
            return e.value
        raise AnalysisError("idiom changed: term `%s` of the Reaper's use-default decision" % norm(e))

    # which If decides between the stand-ins and the read, and with which expression?
    def _has_standin(stmts, fn_=None, depth=0):
        for s_ in stmts:
            for x in ast.walk(s_):
                if isinstance(x, ast.BinOp) and isinstance(x.op, ast.Mult) and any(isinstance(y, ast.Tuple) and any(norm(z).split(".")[-1].lstrip("_") in (pname.lstrip("_"), attr_of_param.lstrip("_")) for z in y.elts) for y in (x.left, x.right)):
                    return True
                # ... or built by a sibling helper of the loader (a closure of the same function / a method of the same class)
                if isinstance(x, ast.Call) and fn_ is not None and depth < 1:
                    h_ = _cf(ctx, fn_, x)
                    if h_ is not None and h_ in scan and h_ is not fn_ and not any(isinstance(y, ast.If) for y in walk_shallow(h_.node)) and _has_standin(h_.node.body, h_, depth + 1):
                        return True
        return False
    standin_when = True
    ctrls = []
    for fn_ in scan:
        for x in walk_shallow(fn_.node):
            if isinstance(x, ast.If) and _has_standin(x.body, fn_) != _has_standin(x.orelse, fn_):
                ctrls.append((fn_, x))
    if len(ctrls) > 1:
        # the If that calls the helper and an If inside the helper: the outermost (in the loader itself) decides
        outer = [c_ for c_ in ctrls if c_[0] is ld]
        if len(outer) == 1:
            ctrls = outer
    need(len(ctrls) == 1, "idiom changed: which outcome of the Reaper's use-default decision builds the stand-ins")
    cfn, ctrl = ctrls[0]
    test_e = ctrl.test
    pol = True
    while isinstance(test_e, ast.UnaryOp) and isinstance(test_e.op, ast.Not):
        test_e, pol = test_e.operand, not pol
    standin_when = pol if _has_standin(ctrl.body, cfn) else not pol

    def _pred_expr(h_):
        """a predicate helper `if c: return A` ... `return B` as one boolean expression (None: another shape)"""
        body_ = [s_ for s_ in h_.node.body if not (isinstance(s_, ast.Expr) and isinstance(s_.value, ast.Constant))]
        body_ = [s_ for s_ in body_ if not (isinstance(s_, ast.Assign) and isinstance(s_.targets[0], ast.Name))]     # flag definitions are looked up by expand
        if not body_ or not isinstance(body_[-1], ast.Return) or body_[-1].value is None:
            return None
        out_ = body_[-1].value
        for s_ in reversed(body_[:-1]):
            if not (isinstance(s_, ast.If) and len(s_.body) == 1 and isinstance(s_.body[0], ast.Return) and s_.body[0].value is not None and not s_.orelse):
                return None
            # ite(c, a, rest) == (c and a) or (not c and rest)
            out_ = ast.BoolOp(op=ast.Or(), values=[ast.BoolOp(op=ast.And(), values=[s_.test, s_.body[0].value]),
                                                  ast.BoolOp(op=ast.And(), values=[ast.UnaryOp(op=ast.Not(), operand=s_.test), out_])])
        return out_

    def expand(e, depth=0, fn_=None):
        """the decision expression with flag variables replaced by their (first, non-constant) definitions and
        predicate helpers of the loader replaced by their bodies"""
        fn_ = fn_ or cfn
        if isinstance(e, ast.Name) and depth < 4:
            defs_ = sorted((n_ for n_ in walk_shallow(fn_.node) if isinstance(n_, ast.Assign) and isinstance(n_.targets[0], ast.Name) and n_.targets[0].id == e.id and not isinstance(n_.value, ast.Constant)), key=lambda n_: n_.lineno)
            if len(defs_) == 1:
                return expand(defs_[0].value, depth + 1, fn_)
            return e
        if isinstance(e, ast.Call) and depth < 4 and norm(e.func) not in ("os.path.isfile", "os.path.exists"):
            h_ = _cf(ctx, fn_, e)
            if h_ is not None and h_ in scan and h_ is not fn_:
                pe_ = _pred_expr(h_)
                if pe_ is not None:
                    return expand(pe_, depth + 1, h_)
            return e
        if isinstance(e, ast.BoolOp):
            return ast.BoolOp(op=e.op, values=[expand(v_, depth, fn_) for v_ in e.values])
        if isinstance(e, ast.UnaryOp) and isinstance(e.op, ast.Not):
            return ast.UnaryOp(op=e.op, operand=expand(e.operand, depth, fn_))
        return e
    holder = expand(test_e)
    need(t_txt in norm(holder), "idiom changed: the test that selects the stand-ins (`%s`) does not involve the no-default sentinel" % norm(test_e)[:60])
    if holder is not t:
        wrong = []
        for hd in (True, False):
            for wv in (True, False):
                for fv in (True, False):
                    if (tv(holder, hd, wv, fv) == standin_when) != (hd and not wv and not fv):
                        wrong.append((hd, wv, fv))
        if wrong:
            hd, wv, fv = wrong[0]
            rr.bad(ctx.finding(rid, ld, holder, "the Reaper's decision `%s` differs from 'a placeholder was decided and not waiting and the result file is absent' (e.g. placeholder decided=%s, wait=%s, file exists=%s): "
                               "finished batches are replaced by placeholders, or missing ones are read as if present" % (norm(holder)[:90], hd, wv, fv), construct="use-default-decision"), "use-default decision")
        else:
            rr.ok("use-default decision == (placeholder decided and not wait and result absent) on all 8 valuations")
    # decision function's marker (computed by the table rule when it ran; recompute cheaply)
    from ..flow import NONE, TRUE, FALSE, is_const
    from .shared import _TableInter, _show
    calc = prog.need_func(CROP + ".calc_clean_up_default_res")
    from ..flow import TOP
    inter = _TableInter(ctx, TOP)
    fl = inter.flow(calc, {calc.positional[1]: NONE, calc.positional[2]: FALSE})
    ret = fl.returns
    need(isinstance(ret, tuple) and ret[0] == "tuple", "calc_clean_up_default_res return shape")
    mc = _show(ret[1][1])
    dflt = init.defaults().get(pname)
    md = norm(dflt) if dflt is not None else None
    if not (mc == mtxt == md):
        rr.bad(ctx.finding(rid, ld, t, "three spellings of 'no default' disagree: the Reaper tests against %s, its parameter defaults to %s, the decision function returns %s" % (mtxt, md, mc),
                           construct="sentinel-mismatch"), "one sentinel")
    else:
        rr.ok("one sentinel: Reaper test, Reaper default and decision function all use %s" % mtxt)
    # the sentinel is not a possible placeholder
    nlr = prog.need_func("xyzpy.gen.combo_runner.nan_like_result")
    ctx.touch(nlr)
    consts = set()
    for n in walk_shallow(nlr.node):
        if isinstance(n, ast.Return) and n.value is not None and isinstance(n.value, ast.Constant):
            consts.add(repr(n.value.value))
    if isinstance(marker, ast.Constant) and repr(marker.value) in consts:
        rr.bad(ctx.finding(rid, ld, t, "the Reaper treats %s as 'no placeholder, incomplete reaping not allowed', but nan_like_result returns %s as the placeholder for bool / str results: a partial reap of such a crop fails on the first missing batch" % (mtxt, mtxt),
                           construct="sentinel-is-a-placeholder"), "sentinel not a placeholder")
    elif isinstance(marker, ast.Constant):
        rr.ok("sentinel constant %s is not among nan_like_result's constant results %s" % (mtxt, sorted(consts)))
    else:
        r = ctx.res.resolve_name(ld, marker.id) if isinstance(marker, ast.Name) else None
        if isinstance(r, tuple) and r[0] in ("const", "modvar"):
            d = ctx.prog.modules[CROP].consts.get(marker.id)
            if d is not None and isinstance(d, ast.Call) and norm(d) == "object()":
                rr.ok("sentinel %s is a private object(): no result placeholder can be identical to it (nan_like_result constants: %s)" % (mtxt, sorted(consts)))
            elif d is not None and isinstance(d, ast.Constant) and repr(d.value) in consts:
                rr.bad(ctx.finding(rid, ld, t, "the sentinel %s is the constant %r, which nan_like_result can return as a placeholder" % (mtxt, d.value), construct="sentinel-is-a-placeholder"), "sentinel not a placeholder")
            else:
                rr.ok("sentinel %s = %s" % (mtxt, norm(d) if d is not None else "?"))
        else:
            raise AnalysisError("sentinel %s does not resolve to a module-level object" % mtxt)
    return rr


def run(ctx):
    batching.missing_fresh_rule(ctx, "C09.R9", only_if_reaper_uses=True)
    rr1, f = batching.sower_machine_rule(ctx, "C09.R0")
    rr1.title = "(prerequisite, = C07.R1) Sower state machine from which the id relation is derived"
    batching.extra_predicate_rule(ctx, "C09.R1", f, with_reaper=True)
    sentinel_rule(ctx, "C09.R2")
    shared.gate_rule(ctx, "C09.R3")
    shared.decision_table_rule(ctx, "C09.R4")
    c12.delete_rule(ctx, "C09.R5", title="with allow_incomplete the crop can be deleted iff clean_up is explicitly true (default deletes nothing)", floor=20, only_table_for_partial=True)
    shared.load_errors_propagate_rule(ctx, "C09.R6")
    from . import sweep
    sweep.nan_placeholder_rule(ctx, "C09.R7")
    from . import c04
    c04.persist_replay_rule(ctx, "C09.R8")
    prog = ctx.prog
    init = prog.need_func(CROP + ".Reaper.__init__")
    crop = prog.need_cls(CROP + ".Crop")
    sl = [init] + list(init.nested.values()) + list(prog.need_cls(CROP + ".Reaper").methods.values()) + [crop.methods[n] for n in ("reap_combos", "reap_combos_to_ds", "all_nan_result") if n in crop.methods]
    sl += [prog.need_func(CROP + ".calc_clean_up_default_res"), prog.need_func(CROP + ".check_ready_to_reap"), prog.need_func("xyzpy.gen.combo_runner.nan_like_result")]
    base_rules.run_link_rules(ctx, "C09", sl)
