"""C20 -- a number formatted with its error reads back as that number and that error.

Decided clause: place-value consistency.  The function is interpreted over an
abstraction in which each float is its decimal exponent (plus the
non-deterministic rounding carries of the two format specs it is printed
with) and every int / str is tracked exactly; the finite window of abstract
inputs is enumerated completely.  Nothing is executed: the interpreter below
works on the syntax tree and understands only the idioms listed in it; any
other construct ends the run as ANALYSIS-ERROR.
"""
import ast
import itertools

from ..loader import AnalysisError, norm
from ..util import need
from .. import base_rules

U = "xyzpy.utils"
LEVEL = "other"
CLAIM = {
    "text": ("Decides the place-value clause of C20 for all inputs up to the abstraction: each float is represented by its decimal exponent L (or 'zero'), the exponent printed by '{:e}' / '{:.1e}' is L or L+1 (rounding carry, the 6-digit carry implying the "
             "1-digit one), scaling by 10**k shifts L by k, comparisons of floats are decided by exponents or left open; ints and strings are tracked exactly. Over the complete window L(x) in {zero} U [-24, 8], L(err) within 12 decades of it "
             "(any for zero), all carry / tie bits, every path of format_number_with_error is evaluated and at the final format these obligations are checked: the number of decimals equals 1 - e (e = exponent of the two-digit bracket), so the last shown digit "
             "of the value is the unit of the bracket; value and error were divided by the same power of ten and the suffix prints exactly that power; the bracket has exactly two digits of the (scaled) error. The window is closed under the function's only "
             "absolute tests (exponent in {-1, 0, 1}); beyond it behaviour is translation invariant. A value rebuilt from a '{:e}' / '{:.1e}' string carries only that many significant digits; printing more of them is reported (digits-lost). Not decided: digit-level correctness of CPython's rounding; nan / inf / err <= 0."),
    "note": "Trusted base: CPython's format rounds correctly and prints floor(log10|v|) or that plus one; the idiom table of xyzsa/props/c20.py. Unknown syntax ends as exit 2.",
    "technique": "static analysis: abstract interpretation of the syntax tree over a decimal-exponent domain with exhaustive enumeration of the finite abstract input window (no solver, no execution)",
}
EXPLANATION = "Exponent-abstraction interpreter over format_number_with_error; exhaustive enumeration of abstract inputs; place-value obligations at the return."
ASSUMPTIONS = ["format(v, 'e') / format(v, '.1e') print exponent floor(log10|v|) or +1 after rounding; format(0.0, 'e') prints exponent 0",
               "err > 0 finite, x finite"]
NOT_DECIDED = ["(L) digit-level correctness of CPython's rounding", "inputs outside the quantifier (nan, inf, err <= 0)"]

ZERO = "zero"


class F:
    """abstract float: exponent L (or ZERO), total power of ten divided out,
    and which original variable's mantissa it carries."""
    __slots__ = ("L", "div", "src", "prec")

    def __init__(self, L, div, src, prec=None):
        # prec: number of significant digits the value still carries (None = all of the float's)
        self.L, self.div, self.src, self.prec = L, div, src, prec

    def scaled(self, k):
        return F(self.L if self.L == ZERO else self.L - k, self.div + k, self.src, self.prec)


class Unknown(Exception):
    pass


class Interp:
    def __init__(self, fn, bits, prog=None, depth=0):
        self.fn = fn
        self.bits = bits      # carries: ('c6', src) ('c1', src), tie bit 'lt'
        self.results = []
        self.prog = prog
        self.depth = depth

    # ---------------------------------------------------------------- exprs
    def ev(self, e, st):
        if isinstance(e, ast.Constant):
            if isinstance(e.value, float):
                # a float literal: its exponent is known, and it carries no argument's mantissa
                import math
                return F(ZERO if e.value == 0 else int(math.floor(math.log10(abs(e.value)))), 0, "const")
            return e.value
        if isinstance(e, ast.Name):
            if e.id not in st:
                raise AnalysisError("C20 interpreter: unknown name %s" % e.id)
            return st[e.id]
        if isinstance(e, ast.UnaryOp):
            v = self.ev(e.operand, st)
            if isinstance(e.op, ast.USub) and isinstance(v, int):
                return -v
            if isinstance(e.op, ast.UAdd) and isinstance(v, int):
                return v
            if isinstance(e.op, ast.Not):
                return None if v is None else (not v)
            raise AnalysisError("C20 interpreter: unary %s" % norm(e))
        if isinstance(e, ast.BinOp):
            if isinstance(e.op, ast.Pow):
                b, x = self.ev(e.left, st), self.ev(e.right, st)
                if b == 10 and isinstance(x, int):
                    return ("pow10", x)
                raise AnalysisError("C20 interpreter: power %s" % norm(e))
            a, b = self.ev(e.left, st), self.ev(e.right, st)
            if isinstance(a, bool) or isinstance(b, bool):
                raise AnalysisError("C20 interpreter: arithmetic on bool %s" % norm(e))
            if isinstance(a, int) and isinstance(b, int):
                if isinstance(e.op, ast.Add):
                    return a + b
                if isinstance(e.op, ast.Sub):
                    return a - b
                if isinstance(e.op, ast.Mult):
                    return a * b
            if isinstance(a, F) and isinstance(e.op, ast.Div):
                if isinstance(b, tuple) and b[0] == "pow10":
                    return a.scaled(b[1])
                if b == 10:
                    return a.scaled(1)
                if b == 100:
                    return a.scaled(2)
            if isinstance(a, F) and isinstance(e.op, ast.Mult):
                if isinstance(b, tuple) and b[0] == "pow10":
                    return a.scaled(-b[1])
                if b == 10:
                    return a.scaled(-1)
            if isinstance(a, str) and isinstance(b, str) and isinstance(e.op, ast.Add):
                return a + b
            raise AnalysisError("C20 interpreter: arithmetic %s" % norm(e))
        if isinstance(e, ast.Tuple):
            return tuple(self.ev(x, st) for x in e.elts)
        if isinstance(e, ast.JoinedStr):
            return self.fstring(e, st)
        if isinstance(e, ast.Subscript):
            v = self.ev(e.value, st)
            i = self.ev(e.slice, st)
            if isinstance(v, tuple) and v and v[0] == "split" and i in (0, 1):
                return v[1 + i]
            if isinstance(v, tuple) and v and v[0] == "split3" and i in (0, 1, 2, -1, -3):
                return v[1 + (i % 3)]
            raise AnalysisError("C20 interpreter: subscript %s" % norm(e))
        if isinstance(e, ast.Call):
            return self.call(e, st)
        if isinstance(e, ast.Compare):
            return self.compare(e, st)
        if isinstance(e, ast.BoolOp):
            vals = [self.ev(x, st) for x in e.values]
            if isinstance(e.op, ast.And):
                if any(v is False or (v is not None and not isinstance(v, (F, tuple)) and not v) for v in vals):
                    return False
                if any(v is None for v in vals):
                    return None
                return True
            if any(v is True or (v is not None and not isinstance(v, (F, tuple)) and v not in (False, "", 0)) for v in vals if v is not None):
                return True
            if any(v is None for v in vals):
                return None
            return False
        raise AnalysisError("C20 interpreter: expression %s" % norm(e))

    def fstring(self, e, st):
        parts = []
        for v in e.values:
            if isinstance(v, ast.Constant):
                parts.append(("lit", v.value))
            else:
                val = self.ev(v.value, st)
                spec = self.spec(v.format_spec, st) if v.format_spec is not None else ""
                parts.append(("fmt", val, spec))
        return self.finish(parts)

    def finish(self, parts):
        if len(parts) == 1 and parts[0][0] == "fmt" and isinstance(parts[0][1], F):
            val, spec = parts[0][1], parts[0][2]
            if spec in ("e", ".6e"):
                return ("sci", val, 6)
            if spec == ".1e":
                return ("sci", val, 1)
            if isinstance(spec, tuple) and spec[0] == "fixed":
                return ("fixed", val, spec[1])
            raise AnalysisError("C20 interpreter: float format spec %r" % (spec,))
        parts = [p for p in parts if not (p[0] == "lit" and p[1] == "")]
        if all(p[0] == "lit" for p in parts):
            return "".join(p[1] for p in parts)
        if len(parts) == 2 and parts[0] == ("lit", "e") and parts[1][0] == "fmt" and isinstance(parts[1][1], int) and parts[1][2] in ("+03d", "+d", "+03", "+"):
            return ("suffix", parts[1][1])
        return ("concat", tuple(parts))

    def spec_text(self, text, nested):
        """format spec given as text with `{}` place-holders already replaced by the values in `nested`"""
        import re
        if "{" not in text:
            return text
        m = re.fullmatch(r"\.\{\}f", text)
        if m and len(nested) == 1 and isinstance(nested[0], int) and not isinstance(nested[0], bool):
            return ("fixed", nested[0])
        raise AnalysisError("C20 interpreter: format spec %r" % text)

    def str_format(self, fmt, args, kwargs):
        import string
        parts = []
        auto = 0
        def take(name):
            nonlocal auto
            if name == "":
                v = args[auto] if auto < len(args) else None
                if auto >= len(args):
                    raise AnalysisError("C20 interpreter: str.format has too few arguments")
                auto += 1
                return v
            if name.isdigit():
                if auto:
                    raise AnalysisError("C20 interpreter: mixed automatic / manual field numbering")
                return args[int(name)]
            if name in kwargs:
                return kwargs[name]
            raise AnalysisError("C20 interpreter: str.format field %r" % name)
        for lit, field, spec, conv in string.Formatter().parse(fmt):
            if lit:
                parts.append(("lit", lit))
            if field is None:
                continue
            if conv:
                raise AnalysisError("C20 interpreter: conversion !%s" % conv)
            val = take(field)
            nested = []
            spec = spec or ""
            if "{" in spec:
                names = [f for _, f, _, _ in string.Formatter().parse(spec) if f is not None]
                nested = [take(n) for n in names]
                import re
                spec = re.sub(r"\{[^}]*\}", "{}", spec)
            parts.append(("fmt", val, self.spec_text(spec, nested)))
        return self.finish(parts)

    def call_helper(self, fi, args, kwargs):
        if self.depth > 3:
            raise AnalysisError("C20 interpreter: helper nesting too deep")
        params = list(fi.positional)
        if len(args) > len(params) or fi.node.args.vararg or fi.node.args.kwarg:
            raise AnalysisError("C20 interpreter: helper signature %s" % fi.qualname)
        st = dict(zip(params, args))
        for k, v in kwargs.items():
            if k not in params or k in st:
                raise AnalysisError("C20 interpreter: helper keyword %s" % k)
            st[k] = v
        if set(st) != set(params):
            raise AnalysisError("C20 interpreter: helper %s called without all arguments" % fi.qualname)
        sub = Interp(fi, self.bits, self.prog, self.depth + 1)
        outs = [o for o in sub.run(fi.node.body, st)]
        if len(outs) != 1 or "<return>" not in outs[0]:
            raise AnalysisError("C20 interpreter: helper %s has %d feasible paths" % (fi.qualname, len(outs)))
        self.helpers = getattr(self, "helpers", set()) | {fi.qualname} | getattr(sub, "helpers", set())
        return outs[0]["<return>"]

    def spec(self, s, st):
        # ".{P}f" | "e" | ".1e" | "+03d"
        if all(isinstance(v, ast.Constant) for v in s.values):
            return "".join(v.value for v in s.values)
        vals = s.values
        if len(vals) == 3 and isinstance(vals[0], ast.Constant) and vals[0].value == "." and isinstance(vals[2], ast.Constant) and vals[2].value == "f":
            p = self.ev(vals[1].value, st)
            if isinstance(p, int) and not isinstance(p, bool):
                return ("fixed", p)
        raise AnalysisError("C20 interpreter: format spec %s" % norm(s))

    def call(self, e, st):
        f = e.func
        if isinstance(f, ast.Name):
            args = [self.ev(a, st) for a in e.args]
            if f.id == "int" and len(args) == 1:
                a = args[0]
                if isinstance(a, tuple) and a[0] == "expstr":
                    return a[1]
                if isinstance(a, int):
                    return a
            if f.id in ("max", "min") and all(isinstance(a, int) and not isinstance(a, bool) for a in args) and args:
                return max(args) if f.id == "max" else min(args)
            if f.id == "abs" and len(args) == 1:
                if isinstance(args[0], int):
                    return abs(args[0])
                if isinstance(args[0], F):
                    return args[0]
                if isinstance(args[0], tuple) and args[0] and args[0][0] == "reread":
                    return args[0]
            if f.id == "float" and len(args) == 1 and isinstance(args[0], tuple) and args[0][0] == "concat":
                # float(f"{mantissa}e{k}") with mantissa taken from a '{:e}' / '{:.1e}' print: the value rounded to that many significant digits, times 10**(k - printed exponent)
                parts = [p for p in args[0][1] if not (p[0] == "lit" and p[1] == "")]
                if len(parts) == 3 and parts[0][0] == "fmt" and isinstance(parts[0][1], tuple) and parts[0][1][0] == "mant" and parts[0][2] == "" and parts[1] == ("lit", "e") \
                        and parts[2][0] == "fmt" and isinstance(parts[2][1], int) and not isinstance(parts[2][1], bool) and parts[2][2] == "":
                    _, val, digits = parts[0][1]
                    carry = self.bits.get(("c6" if digits == 6 else "c1", val.src), 0)
                    printed = 0 if val.L == ZERO else val.L + carry
                    shift = printed - parts[2][1]
                    out = val.scaled(shift)
                    if val.L != ZERO and carry:
                        out = F(out.L + 1, out.div, out.src, out.prec)      # the rounding carried into the next decade
                    keep = digits + 1
                    out.prec = keep if out.prec is None else min(out.prec, keep)
                    return out
                raise AnalysisError("C20 interpreter: call %s" % norm(e))
            if f.id == "float" and len(args) == 1 and isinstance(args[0], tuple) and args[0][0] == "fixed":
                # value re-read from its fixed-point print: magnitude may have carried into the next decade
                return ("reread", args[0][1])
            if f.id == "format" and len(args) == 2 and isinstance(args[1], str):
                return self.finish([("fmt", args[0], self.spec_text(args[1], []))])
            if f.id == "str" and len(args) == 1 and isinstance(args[0], (str, tuple)):
                return args[0]
            if f.id == "len":
                raise AnalysisError("C20 interpreter: len()")
            if self.prog is not None and not e.keywords or self.prog is not None and all(k.arg for k in e.keywords):
                fi = self.prog.func("%s.%s" % (self.fn.module.name, f.id))
                if fi is not None:
                    return self.call_helper(fi, args, {k.arg: self.ev(k.value, st) for k in e.keywords})
            raise AnalysisError("C20 interpreter: call %s" % norm(e))
        if isinstance(f, ast.Attribute):
            recv = self.ev(f.value, st)
            args = [self.ev(a, st) for a in e.args]
            if f.attr == "format" and isinstance(recv, str):
                return self.str_format(recv, args, {k.arg: self.ev(k.value, st) for k in e.keywords if k.arg})
            if f.attr == "split" and args == ["e"] and isinstance(recv, tuple) and recv[0] == "sci":
                val, digits = recv[1], recv[2]
                carry = self.bits.get(("c6" if digits == 6 else "c1", val.src), 0)
                expo = 0 if val.L == ZERO else val.L + carry
                return ("split", ("mant", val, digits), ("expstr", expo))
            if f.attr in ("partition", "rpartition") and args == ["e"] and isinstance(recv, tuple) and recv[0] == "sci":
                # a scientific print holds exactly one "e": both directions cut at the same place
                val, digits = recv[1], recv[2]
                carry = self.bits.get(("c6" if digits == 6 else "c1", val.src), 0)
                expo = 0 if val.L == ZERO else val.L + carry
                return ("split3", ("mant", val, digits), "e", ("expstr", expo))
            if f.attr == "replace" and args == [".", ""] and isinstance(recv, tuple) and recv[0] == "mant":
                return ("digits", recv[1], recv[2] + 1)
            if f.attr in ("lstrip", "strip") and args in (["-"], ["+-"], ["-+"]) and isinstance(recv, tuple) and recv[0] == "fixed":
                # the sign removed: a string that can only be asked about its leading digits
                return ("probe", recv)
            if f.attr == "startswith" and len(args) == 1 and isinstance(args[0], str) and isinstance(recv, tuple) and recv[0] in ("probe", "fixed"):
                import re
                fx = recv[1] if recv[0] == "probe" else recv
                m = re.fullmatch(r"(\d+)\.?", args[0])
                if m and not (recv[0] == "fixed" and False):
                    n = len(m.group(1)) if args[0].endswith(".") else None
                    val = fx[1]
                    if n is not None and isinstance(val, F):
                        # the integer part of a fixed-point print of v has max(1, L+1) digits, or one more when the rounding carries
                        if val.L == ZERO:
                            return None if (n == 1 and m.group(1) == "0") else False
                        digits = max(1, val.L + 1)
                        return None if n in (digits, digits + 1) else False
                    return None
            raise AnalysisError("C20 interpreter: method %s" % norm(e))
        raise AnalysisError("C20 interpreter: call %s" % norm(e))

    def compare(self, e, st):
        if len(e.ops) != 1:
            res = []
            terms = [e.left] + list(e.comparators)
            for l, op, r in zip(terms, e.ops, terms[1:]):
                res.append(self.compare(ast.Compare(left=l, ops=[op], comparators=[r]), st))
            if any(r is False for r in res):
                return False
            return None if any(r is None for r in res) else True
        a, b = self.ev(e.left, st), self.ev(e.comparators[0], st)
        op = e.ops[0]
        if isinstance(op, (ast.In, ast.NotIn)) and isinstance(b, tuple) and all(isinstance(x, int) for x in b) and isinstance(a, int):
            r = a in b
            return r if isinstance(op, ast.In) else not r
        if isinstance(a, int) and isinstance(b, int) and not isinstance(a, bool):
            return {ast.Eq: a == b, ast.NotEq: a != b, ast.Lt: a < b, ast.LtE: a <= b, ast.Gt: a > b, ast.GtE: a >= b}[type(op)]
        if isinstance(a, F) and isinstance(b, F) and isinstance(op, (ast.Lt, ast.LtE, ast.Gt, ast.GtE)):
            if isinstance(op, (ast.Gt, ast.GtE)):
                a, b = b, a
            # a < b ?
            if a.L == ZERO and b.L == ZERO:
                return False
            if a.L == ZERO:
                return True
            if b.L == ZERO:
                return False
            if a.L < b.L:
                return True
            if a.L > b.L:
                return False
            return bool(self.bits["lt"])
        if (isinstance(a, tuple) and a and a[0] == "reread") or (isinstance(b, tuple) and b and b[0] == "reread"):
            return None       # decided by digits: both outcomes explored
        raise AnalysisError("C20 interpreter: comparison %s" % norm(e))

    # ---------------------------------------------------------------- stmts
    def run(self, stmts, st):
        """Generator of final states (dict with '<return>') along all paths."""
        if not stmts:
            yield st
            return
        s, rest = stmts[0], stmts[1:]
        if isinstance(s, ast.Expr) and isinstance(s.value, ast.Constant):
            yield from self.run(rest, st)
            return
        if isinstance(s, ast.Assign):
            v = self.ev(s.value, st)
            st = dict(st)
            for t in s.targets:
                self.bind(t, v, st)
            yield from self.run(rest, st)
            return
        if isinstance(s, ast.AugAssign) and isinstance(s.target, ast.Name):
            cur, v = st.get(s.target.id), self.ev(s.value, st)
            st = dict(st)
            if isinstance(cur, int) and isinstance(v, int):
                st[s.target.id] = cur + v if isinstance(s.op, ast.Add) else cur - v if isinstance(s.op, ast.Sub) else None
                if st[s.target.id] is None:
                    raise AnalysisError("C20 interpreter: augmented op")
            elif isinstance(cur, F) and isinstance(s.op, ast.Div) and isinstance(v, tuple) and v[0] == "pow10":
                st[s.target.id] = cur.scaled(v[1])
            else:
                raise AnalysisError("C20 interpreter: augmented assignment %s" % norm(s))
            yield from self.run(rest, st)
            return
        if isinstance(s, ast.If):
            t = self.ev(s.test, st)
            if isinstance(t, str):
                t = bool(t)
            if isinstance(t, tuple) and t and t[0] == "suffix":
                t = True
            outs = [True, False] if t is None else [bool(t)]
            for o in outs:
                yield from self.run((s.body if o else s.orelse) + rest, st)
            return
        if isinstance(s, ast.Assert):
            t = self.ev(s.test, st)
            if t is False:
                raise AnalysisError("C20 interpreter: assertion %s fails on an abstract input" % norm(s.test))
            yield from self.run(rest, st)
            return
        if isinstance(s, ast.Return):
            st = dict(st)
            st["<return>"] = self.ev(s.value, st)
            st["<return-node>"] = s
            yield st
            return
        raise AnalysisError("C20 interpreter: statement %s" % norm(s)[:60])

    def bind(self, t, v, st):
        if isinstance(t, ast.Name):
            st[t.id] = v
        elif isinstance(t, ast.Tuple):
            if isinstance(v, tuple) and v and v[0] == "split":
                v = v[1:]
            if not isinstance(v, tuple) or len(v) != len(t.elts):
                raise AnalysisError("C20 interpreter: unpacking %s" % norm(t))
            for tt, vv in zip(t.elts, v):
                self.bind(tt, vv, st)
        else:
            raise AnalysisError("C20 interpreter: target %s" % norm(t))


def flatten(v):
    """final string -> list of parts"""
    if isinstance(v, str):
        return [("lit", v)] if v else []
    if isinstance(v, tuple) and v and v[0] == "concat":
        out = []
        for p in v[1]:
            if p[0] == "lit":
                if p[1]:
                    out.append(p)
            else:
                val, spec = p[1], p[2]
                if isinstance(val, F):
                    if isinstance(spec, tuple) and spec[0] == "fixed":
                        out.append(("fixed", val, spec[1]))
                    else:
                        raise AnalysisError("C20: float printed with spec %r in the result" % (spec,))
                elif spec == "":
                    out += flatten(val) if isinstance(val, (str, tuple)) and not (isinstance(val, tuple) and val and val[0] in ("digits", "suffix", "fixed")) else [val if isinstance(val, tuple) else ("lit", str(val))]
                else:
                    raise AnalysisError("C20: result part %r" % (p,))
        return out
    if isinstance(v, tuple) and v and v[0] in ("fixed", "digits", "suffix"):
        return [v]
    raise AnalysisError("C20: result shape %r" % (v,))


def run(ctx):
    rr = ctx.rule("C20.R1", "place-value consistency of value, bracketed error and exponent suffix on every path, over the whole abstract input window", floor=1000)
    fn = ctx.prog.need_func(U + ".format_number_with_error")
    ctx.touch(fn)
    need(fn.positional == ["x", "err"], "idiom changed: format_number_with_error signature")
    body = fn.node.body
    n_states = 0
    n_paths = 0
    bad = {}
    samples = []
    helpers_seen = set()
    lx_range = [ZERO] + list(range(-24, 9))
    for Lx in lx_range:
        le_range = range(-24, 9) if Lx == ZERO else range(max(-30, Lx - 12), min(12, Lx + 12) + 1)
        for Le in le_range:
            for c6x, c6e, c1e, lt in itertools.product((0, 1), repeat=4):
                if c6e and not c1e:
                    continue      # a 7-significant-digit carry implies the 2-digit carry
                if Lx == ZERO and c6x:
                    continue
                bits = {("c6", "x"): c6x, ("c1", "x"): c6x, ("c6", "err"): c6e, ("c1", "err"): c1e, "lt": lt}
                n_states += 1
                it = Interp(fn, bits, ctx.prog)
                st0 = {"x": F(Lx, 0, "x"), "err": F(Le, 0, "err")}
                for st in it.run(body, st0):
                    n_paths += 1
                    for h in getattr(it, "helpers", ()):
                        if h not in helpers_seen:
                            helpers_seen.add(h)
                            ctx.touch(ctx.prog.func(h))
                    parts = flatten(st["<return>"])
                    kinds = [p[0] for p in parts]
                    desc = "L(x)=%s L(err)=%s carries(x6=%d,err6=%d,err1=%d) tie=%d" % (Lx, Le, c6x, c6e, c1e, lt)
                    if kinds not in (["fixed", "lit", "digits", "lit"], ["fixed", "lit", "digits", "lit", "suffix"]) or parts[1] != ("lit", "(") or parts[3] != ("lit", ")"):
                        raise AnalysisError("C20: result is not <value>(<digits>)[suffix]: %r" % (kinds,))
                    val, P = parts[0][1], parts[0][2]
                    dg = parts[2]
                    suffix = parts[4][1] if len(parts) == 5 else 0
                    errv, ndig = dg[1], dg[2]
                    problems = []
                    same_zero = val.src == "const" and val.L == ZERO and Lx == ZERO      # 0.0 written for an x that is zero: the same number
                    if (val.src != "x" and not same_zero) or errv.src != "err":
                        problems.append(("roles", "the value / bracket printed are not the arguments x / err (the value comes from %s, the bracket from %s)" % (
                            "a literal" if val.src == "const" else val.src, "a literal" if errv.src == "const" else errv.src)))
                    if ndig != 2:
                        problems.append(("digits", "the bracket shows %d digit(s) of the error, not two" % ndig))
                    e = errv.L + bits[("c1", "err")]
                    if P != 1 - e:
                        if 1 - e < 0:
                            problems.append(("precision", "the error's two digits start at 10^%d but no exponent is shown: the bracket cannot express it" % e))
                        else:
                            problems.append(("precision", "the value is printed with %d decimals but the two-digit bracket's last digit is the 10^%d place (needs %d decimals): the bracket reads as an error %s than intended"
                                             % (P, e - 1, 1 - e, "10^%d times smaller" % (P - (1 - e)) if P > 1 - e else "10^%d times larger" % ((1 - e) - P))))
                    if val.prec is not None and val.L != ZERO and val.L + P + 1 > val.prec:
                        problems.append(("digits-lost", "the value went through a string with %d significant digits but is printed with %d: its lower digits are lost (printed as zeros) although the error says they are significant" % (val.prec, val.L + P + 1)))
                    if val.div != errv.div:
                        problems.append(("scaling", "value and error are divided by different powers of ten (10^%d vs 10^%d)" % (val.div, errv.div)))
                    if val.div != suffix:
                        problems.append(("suffix", "the printed power of ten (e%+d) is not the power the value was divided by (10^%d): value and error read 10^%d times off" % (suffix, val.div, val.div - suffix)))
                    for kind, msg in problems:
                        bad.setdefault(kind, (msg, desc, st["<return-node>"]))
                    if not problems and len(samples) < 4 and (Lx, Le) in ((1, 0), (ZERO, -20), (5, 2), (-3, -5)):
                        samples.append("%s -> %d decimals, bracket exponent %d, suffix e%+d" % (desc, P, e, suffix))
    for kind, (msg, desc, node) in bad.items():
        rr.bad(ctx.finding("C20.R1", fn, node, "%s [abstract input: %s]" % (msg, desc), construct=kind, path=desc), "place value: %s" % kind)
    rr.instances += n_paths
    rr.obligations.append("ok: %d abstract input states, %d paths evaluated, obligations: decimals = 1 - e, same scaling, suffix = scaling, two bracket digits" % (n_states, n_paths))
    rr.obligations += ["ok: " + s for s in samples]
    rr.nontrivial.update({"state-%d" % i for i in range(min(n_states, 50))})
    ctx.extra["abstract_states"] = n_states
    ctx.extra["paths_evaluated"] = n_paths
    ctx.extra["exhaustive"] = True
    base_rules.run_link_rules(ctx, "C20", [fn])
