"""C03 -- labelled outputs name every number correctly (Dataset and DataFrame)."""
from .. import base_rules
from . import sweep
from .sweep import CR, PREP

LEVEL = "other"
CLAIM = {
    "text": ("Decides the structural clauses of C03: (R1/R2) the order/alignment abstract interpretation run through combo_runner_to_ds -> combo_runner_core -> results_to_df for every configuration "
             "(to_df x cases x shuffle x parse x executor, enumerated) shows each DataFrame row pairing a setting with its own outputs, and the info side channel is defined wherever it is read; "
             "(R3) Dataset variables get dims fn_args + var_dims[name] with data paired to its own name and coordinates from the same combos; constants become coordinate-if-dimension-else-attribute; "
             "(R4) resources reach only the function's kwargs and are popped from every row, constants are recorded; (R5) every description field is forwarded to the like-named parameter at all 7 forwarding sites; "
             "(R6) the description mappings passed in are not mutated; (R7) settings are built by lock-step appends with case values looked up by name; (R8) sibling cross-check: the DataFrame labeller pairs names with a result only after the 'one declared output = the result itself' convention was normalised, as the Dataset labeller does (an iterable single output must not be split); (R9) the xarray concat / merge calls assembling the results use no label- or value-destroying option (join in inner/left/right/override, compat='override'; library option table); (R10) Runner.run_cases binds tuple cases with the caller's fn_args if given, else the runner's declared order. Not decided: xarray / pandas construction semantics and label-based selection, concat alignment options."),
    "note": "Trusted base as C01, plus: Dataset.attrs setter copies its argument (xarray); field names are the repository's public parameter names.",
    "technique": "static analysis: interprocedural D-ORDER abstract interpretation with out-parameter summaries, forwarding-table cross-check, taint (resources) and no-mutation rules",
}
EXPLANATION = "Interprocedural D-ORDER through the to_ds/to_df entry; syntactic construction rules for results_to_ds; keyword forwarding tables; resources taint; input no-mutation."
ASSUMPTIONS = ["xarray.Dataset(coords=..., data_vars={name: (dims, data)}) labels data by the given dims in order", "Dataset.attrs setter copies"]
NOT_DECIDED = ["(L) xarray / pandas construction semantics, .sel by label, xr.concat alignment options (e.g. join/compat overrides)", "(V) the numbers themselves"]


def run(ctx):
    sweep.row_pairing_rule(ctx, "C03.R1")
    sweep.dims_rule(ctx, "C03.R3")
    sweep.row_labels_rule(ctx, "C03.R11")
    sweep.resources_rule(ctx, "C03.R4")
    sweep.forwarding_rule(ctx, "C03.R5")
    sweep.no_input_mutation_rule(ctx, "C03.R6")
    sweep.settings_construction_rule(ctx, "C03.R7")
    sweep.df_single_output_rule(ctx, "C03.R8")
    sweep.combine_options_rule(ctx, "C03.R9")
    sweep.case_binding_rule(ctx, "C03.R10")
    prog = ctx.prog
    names = [CR + "." + n for n in ("combo_runner_to_ds", "results_to_ds", "results_to_df", "multi_concat", "get_ndim_first", "combo_runner_core")]
    names += [PREP + "." + n for n in ("parse_var_names", "parse_var_dims", "parse_combo_results", "dictify", "_str_2_tuple")]
    names += ["xyzpy.gen.case_runner.case_runner_to_ds", "xyzpy.gen.farming.Runner.run_combos", "xyzpy.gen.farming.Runner.run_cases", "xyzpy.gen.farming.Runner.__init__", "xyzpy.gen.farming.label"]
    sl = [prog.need_func(q) for q in names]
    sl += list(prog.need_func("xyzpy.gen.farming.label").nested.values())
    base_rules.run_link_rules(ctx, "C03", sl)
