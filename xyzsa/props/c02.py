"""C02 -- sparse cases run only what was asked and leave every other slot missing."""
from .. import base_rules
from . import sweep
from .sweep import CR, PREP

LEVEL = "other"
CLAIM = {
    "text": ("Decides the structural clauses of C02: (R1) the case/combo overlap check dominates every evaluation and the enumeration; (R2) with cases the order/alignment abstract interpretation shows every pairing aligned in "
             "all configurations, the function is evaluated at exactly one site once per setting and never by the core or while building the placeholder; settings are exactly cases x product(combos) with case values looked up by name; "
             "(R3) the nested layout uses the per-argument union (every case value added unconditionally, sorted with fallback) and a placeholder derived from an existing result, and the exported labels are the layout's own values; "
             "(R4) str/bool are handled before generic iterable branches in parse_cases, nan_like_result, infer_shape; (R5) every value nan_like_result can return is None or NaN in a float / object container -- a fill that keeps the result's dtype (np.full_like(res, nan) on integer / bool results) is reported; (R7) parse_cases hands dict-spelled cases on with all their keys and values (a rebuild that iterates another key source or filters keys is reported); (R6) the flat / table output of a cases run pairs row k with the k-th requested setting in every configuration. (R9) _unflatten interpreted on the same window of grids with four patterns of absent locations each (156 instances): an absent location's slot holds the placeholder that was passed in, every present one its own result. Not decided: the placeholder's shape for every result kind (numpy/xarray semantics)."),
    "note": "Trusted base as C01; role names of the core's locals (case_args, combo_args, ...) are the repository's own; a renamed local ends as exit 2.",
    "technique": "static analysis: CFG dominance rules, D-ORDER abstract interpretation restricted to cases configurations, syntactic dispatch-order rules",
}
EXPLANATION = "CFG dominance of the overlap gate; D-ORDER interpretation of the cases configurations; layout/placeholder data-flow rules in process_results; dispatch-order rules."
ASSUMPTIONS = ["itertools.product enumerates row-major", "xr.full_like / np.broadcast_to build the placeholder's shape (library)"]
NOT_DECIDED = ["(L/V) the placeholder has the right shape and NaN semantics for every result kind"]


def run(ctx):
    sweep.disjoint_gate_rule(ctx, "C02.R1")
    sweep.order_rule(ctx, "C02.R2a", check_info=False, only_cases=True)
    sweep.exactly_once_rule(ctx, "C02.R2b")
    sweep.settings_construction_rule(ctx, "C02.R2c")
    sweep.placeholder_rule(ctx, "C02.R3")
    sweep.nan_placeholder_rule(ctx, "C02.R5")
    sweep.dispatch_rule(ctx, "C02.R4")
    sweep.case_normalisation_rule(ctx, "C02.R7")
    sweep.case_binding_rule(ctx, "C02.R8")
    sweep.nested_placement_rule(ctx, "C02.R9", missing=True)
    sweep.row_pairing_rule(ctx, "C02.R6", title="flat / table output of a cases run: row k pairs the k-th requested setting with its own result, in every configuration")
    prog = ctx.prog
    names = [CR + "." + n for n in ("combo_runner_core", "_unflatten", "nan_like_result", "infer_shape")]
    names += [PREP + "." + n for n in ("parse_cases",)] + ["xyzpy.gen.case_runner.case_runner"]
    sl = [prog.need_func(q) for q in names] + list(prog.need_func(CR + ".combo_runner_core").nested.values())
    base_rules.run_link_rules(ctx, "C02", sl)
