"""C11 -- concurrent growers and a waiting reaper agree under every interleaving.

Decided clauses (structural; with POSIX rename atomicity as trusted base they
discharge the schedule quantifier, see DESIGN.md section 4 / C11):

R1  atomic publication: the single writer of crop files writes a private
    temporary file in the same directory, closes it, and only then renames it
    onto the final name; temporary names never match a reader pattern.
R2  single writer: nothing else writes into the crop directory.
R3  the waiting reaper polls for existence of the *final* name before loading.
"""
import ast
import fnmatch
import os

from ..loader import AnalysisError, norm, walk_shallow
from ..cfg import build_cfg, node_calls
from ..util import (ConstFold, call_site_envs, LOCATION_STANDIN, callee_name, calls_named, all_calls, arg, names_in, single_def,
                    open_mode, is_write_mode, with_exit_nodes, enclosing_with, need)
from .. import base_rules

LEVEL = "other"
CLAIM = {
    "text": ("Decides the structural clauses of C11 on every path of the analysed functions: (R1) the single writer of crop files publishes "
             "atomically (private process-unique temporary in the same directory; dump and close complete before os.replace onto the final name; "
             "every normal exit passes the rename) and no directory listing used by progress queries / check_bad / all_nan_result accepts a temporary name; "
             "(R2) nothing else writes into the crop directory; (R3) the wait-mode load is dominated by an exists() poll of the same final name; "
             "(R4) nothing reachable from a grower, a poller or the Reaper's load path removes files. With rename atomicity as trusted base these make every "
             "observation 'absent or complete' under every interleaving, so the schedule quantifier is discharged by structure rather than sampled. "
             "Also: the unique component of the temporary must be computed per write (a memoised helper is inherited by forked workers), and for wait=True the poll loop has no feasible exit by exception (isinstance on the constant True is decided: bool is an int). Not decided: file-system atomicity itself, determinism of the user function."),
    "note": "Trusted base: POSIX rename atomicity within a directory; CPython executes the parsed ast; idiom tables (unique-name sources, listing filters) in xyzsa/props/c11.py. Unknown idioms end as exit 2.",
    "technique": "static analysis: CFG must-complete-before (path) rules, who-may-write / who-may-remove call-graph rules, constant folding of name templates against reader patterns",
}
EXPLANATION = (
    "Static path rules over the CFGs of the crop file writer, its callers and the Reaper: "
    "C11.R1 atomic publication (private same-directory temporary, dump+close complete before os.replace onto the final name on every path, "
    "temporary names evaluated on representative literals never match a reader glob), C11.R2 who-may-write (every write-open / dump / copy in "
    "the cropping module is the single writer or the listed private exemption), C11.R3 the wait-mode load is dominated by the exit of a poll loop on "
    "os.path.exists of the final name. Together with rename atomicity these make every observation of a result file 'absent or complete' for every interleaving.")
ASSUMPTIONS = [
    "POSIX rename/os.replace within one directory is atomic and readers opening the final name see either the old or the new complete file",
    "the ast of the working tree is what CPython executes",
    "process-unique components recognised: os.getpid, uuid.uuid1/uuid4, tempfile.mkstemp/NamedTemporaryFile, secrets.token_hex, threading.get_ident",
    "the user's function is deterministic (a batch grown twice yields equal files)",
]
NOT_DECIDED = [
    "(L) atomicity of rename on exotic network file systems",
    "(L) determinism of the user's function when one batch is grown twice",
]

ENTRY_WRITERS = [
    "xyzpy.gen.cropping.Crop.sow_combos", "xyzpy.gen.cropping.Crop.sow_cases",
    "xyzpy.gen.cropping.Crop.sow_samples", "xyzpy.gen.cropping.grow",
    "xyzpy.gen.cropping.Crop.grow", "xyzpy.gen.cropping.Crop.grow_missing",
    "xyzpy.gen.cropping.Crop.prepare", "xyzpy.gen.cropping.Sower.save_batch",
    "xyzpy.gen.cropping.Sower.__exit__", "xyzpy.gen.cropping.Sower.__call__",
]
UNIQUE_SOURCES = {"os.getpid", "uuid.uuid4", "uuid.uuid1", "tempfile.mkstemp", "tempfile.NamedTemporaryFile",
                  "secrets.token_hex", "threading.get_ident", "tempfile.mktemp"}
RENAMES = {"os.replace", "os.rename"}
WRITE_CALLS = {"pickle.dump", "joblib.dump", "shutil.copy", "shutil.copyfile", "shutil.copy2", "shutil.move"}
# one private, non-shared file: the submission script grow_cluster writes,
# submits and removes itself; no grower or reaper ever reads it.
R2_EXEMPT = {"xyzpy.gen.cropping.grow_cluster": "private submission script __qsub_script__.sh, removed by the same call"}


def find_writers(ctx, funcs):
    """Functions that open a file for writing (role search)."""
    out = []
    for fi in funcs:
        cfg = build_cfg(fi.node)
        for n, c, name in all_calls(ctx, fi, cfg):
            if name == "builtins.open" and is_write_mode(open_mode(c)):
                out.append((fi, cfg, n, c))
            elif name == "os.fdopen" and len(c.args) >= 2 and isinstance(c.args[1], ast.Constant) and is_write_mode(c.args[1].value):
                out.append((fi, cfg, n, c))
    return out


LISTING_CALLS = {"glob.glob", "glob.iglob", "os.listdir", "os.scandir", "os.walk", "?.glob", "?.iterdir", "?.rglob"}


def reader_listings(ctx):
    """Every directory listing in the cropping module that looks at the crop's
    ``results`` / ``batches`` directories, with a decision procedure telling
    whether a given file name would be *counted* by it.  A listing inside a
    helper whose parameters select the directory / pattern is evaluated once
    per call site.

    -> [(fi, call, subdir, accepts(basename) -> bool, description)]"""
    m = ctx.prog.modules.get("xyzpy.gen.cropping")
    need(m is not None, "anchor lost: module xyzpy.gen.cropping")
    out = []
    for fi in m.all_funcs:
        for n, c, name in all_calls(ctx, fi):
            if name not in LISTING_CALLS:
                continue
            a = arg(c, 0)
            if a is None:
                continue
            for env, site in call_site_envs(ctx, fi):
                try:
                    folded = ConstFold(ctx, fi, env).ev(a)
                except AnalysisError:
                    if "location" in norm(a):
                        raise AnalysisError("listing path did not fold: %s in %s" % (norm(a), fi.qualname))
                    continue       # not the crop directory (slurm outputs, parent-directory walk)
                if not (isinstance(folded, str) and folded.startswith(LOCATION_STANDIN)):
                    continue
                rel = folded[len(LOCATION_STANDIN):].strip("/").split("/")
                sub = rel[0] if rel and rel[0] in ("results", "batches") else None
                if sub is None:
                    continue
                if name in ("glob.glob", "glob.iglob"):
                    need(len(rel) == 2, "glob pattern shape not recognised: %s" % folded)
                    pat = rel[1]
                    out.append((fi, c, sub, (lambda b, pat=pat: fnmatch.fnmatchcase(b, pat)), "glob %s/%s" % (sub, pat)))
                else:
                    preds = _listing_predicates(ctx, fi, env)
                    out.append((fi, c, sub, (lambda b, preds=preds: all(p(b) for p, _ in preds)),
                                "%s(%s) filtered by [%s]" % (name, sub, "; ".join(d for _, d in preds) or "nothing")))
    return out


def _listing_predicates(ctx, fi, env):
    """Recognised name filters applied in ``fi`` (assumed conjunctive: if a
    name passes every recognised filter it is counted)."""
    import re as _re
    preds = []
    for n in walk_shallow(fi.node):
        if not isinstance(n, ast.Call):
            continue
        nm = callee_name(ctx, fi, n)
        if isinstance(n.func, ast.Attribute) and n.func.attr in ("startswith", "endswith") and n.args:
            s = ConstFold(ctx, fi, env).ev(n.args[0])
            if n.func.attr == "startswith":
                preds.append(((lambda b, s=s: b.startswith(s)), "startswith(%r)" % (s,)))
            else:
                preds.append(((lambda b, s=s: b.endswith(s)), "endswith(%r)" % (s,)))
        elif nm in ("fnmatch.fnmatch", "fnmatch.fnmatchcase") and len(n.args) == 2:
            s = ConstFold(ctx, fi, env).ev(n.args[1])
            preds.append(((lambda b, s=s: fnmatch.fnmatchcase(b, s)), "fnmatch(%r)" % s))
        elif (nm in ("re.match", "re.fullmatch", "re.search") and len(n.args) >= 2) or \
                (isinstance(n.func, ast.Attribute) and n.func.attr in ("match", "fullmatch", "search") and len(n.args) == 1
                 and nm.startswith("?.")):
            if nm.startswith("re."):
                s = ConstFold(ctx, fi, env).ev(n.args[0])
                kind = nm[3:]
            else:
                # compiled pattern: rgx = re.compile(P); rgx.match(name)
                recv = n.func.value
                d = single_def(fi, recv.id) if isinstance(recv, ast.Name) else None
                if d is None or not (isinstance(d[1], ast.Call) and callee_name(ctx, fi, d[1]) == "re.compile"):
                    continue
                s = ConstFold(ctx, fi, env).ev(d[1].args[0])
                kind = n.func.attr
            fn = {"match": _re.match, "fullmatch": _re.fullmatch, "search": _re.search}[kind]
            preds.append(((lambda b, s=s, fn=fn: fn(s, b) is not None), "re.%s(%r)" % (kind, s)))
    return preds


def writer_tmp_expr(ctx, fi, cfg, open_call):
    """Expression of the temporary file name a writer opens (None when it
    opens one of its parameters, i.e. the final name itself)."""
    pa = arg(open_call, 0, "file")
    if norm(open_call.func) == "os.fdopen":
        for st in walk_shallow(fi.node):
            if isinstance(st, ast.Assign) and isinstance(st.targets[0], ast.Tuple) and len(st.targets[0].elts) == 2 and isinstance(pa, ast.Name) and norm(st.targets[0].elts[0]) == pa.id \
                    and isinstance(st.value, ast.Call) and callee_name(ctx, fi, st.value) == "tempfile.mkstemp":
                e = ast.Subscript(value=st.value, slice=ast.Constant(1), ctx=ast.Load())
                ast.fix_missing_locations(ast.copy_location(e, st.value))
                return e
        raise AnalysisError("idiom changed: descriptor opened by %s does not come from tempfile.mkstemp" % fi.qualname)
    if isinstance(pa, ast.Name) and pa.id in fi.params:
        return None
    if isinstance(pa, ast.Name):
        d = single_def(fi, pa.id, cfg)
        if d is not None:
            return d[1]
    raise AnalysisError("idiom changed: the temporary opened by %s (`%s`) has no single definition" % (fi.qualname, norm(pa) if pa is not None else None))


def check_writer(ctx, rr, fi, cfg, open_node, open_call):
    """R1 on one writer function."""
    q = fi.qualname
    params = fi.positional
    path_arg = arg(open_call, 0, "file")
    need(path_arg is not None, "open() without a path in %s" % q)
    mk = None
    if norm(open_call.func) == "os.fdopen":
        # fd, name = tempfile.mkstemp(...): the file behind the descriptor is `name`
        need(isinstance(path_arg, ast.Name), "idiom changed: os.fdopen on %s" % norm(path_arg))
        for st in walk_shallow(fi.node):
            if isinstance(st, ast.Assign) and isinstance(st.targets[0], ast.Tuple) and len(st.targets[0].elts) == 2 and norm(st.targets[0].elts[0]) == path_arg.id \
                    and isinstance(st.value, ast.Call) and callee_name(ctx, fi, st.value) == "tempfile.mkstemp" and isinstance(st.targets[0].elts[1], ast.Name):
                mk = (st.targets[0].elts[1].id, st.value)
        need(mk is not None, "idiom changed: descriptor %s in %s does not come from tempfile.mkstemp" % (path_arg.id, q))
        path_arg = ast.Name(id=mk[0], ctx=ast.Load())

    # which parameter is the final name: the one passed to os.replace as dst,
    # or else the one opened directly
    renames = calls_named(ctx, fi, RENAMES, cfg)
    if isinstance(path_arg, ast.Name) and path_arg.id in params:
        rr.bad(ctx.finding(rr.rule, fi, open_call,
                           "the writer opens the final file name %r for writing: a concurrent reader, poller or progress query can observe a partly written file (no temporary + rename)" % path_arg.id,
                           construct="open-final " + norm(open_call)),
               "R1a %s opens a temporary, not the final name" % q)
        return
    if not renames:
        rr.bad(ctx.finding(rr.rule, fi, open_call, "the writer never renames its temporary onto a final name (no os.replace / os.rename)",
                           construct="no-rename"), "R1c %s renames temp onto final" % q)
        return
    rr.ok("R1a %s: open() target %s is not a parameter (not the final name)" % (q, norm(path_arg)))

    need(isinstance(path_arg, ast.Name), "temporary path is not a simple local in %s: %s" % (q, norm(path_arg)))
    tmp = path_arg.id
    if mk is not None:
        tmp_expr = ast.Subscript(value=mk[1], slice=ast.Constant(1), ctx=ast.Load())
        ast.fix_missing_locations(ast.copy_location(tmp_expr, mk[1]))
    else:
        d = single_def(fi, tmp, cfg)
        need(d is not None, "temporary %r in %s has no single definition" % (tmp, q))
        tmp_node, tmp_expr = d

    for rn_node, rn in renames:
        src, dst = arg(rn, 0, "src"), arg(rn, 1, "dst")
        if not (isinstance(src, ast.Name) and src.id == tmp and isinstance(dst, ast.Name) and dst.id in params):
            rr.bad(ctx.finding(rr.rule, fi, rn, "rename does not move the temporary %r onto the final-name parameter: %s" % (tmp, norm(rn))),
                   "R1c rename(%s -> final)" % tmp)
            continue
        final = dst.id
        rr.ok("R1c %s: %s moves the temporary onto parameter %r" % (q, norm(rn), final))

        # (b) same directory + process-unique component
        from ..util import calls_transitive
        uniq_any = [u for u in calls_transitive(ctx, fi, tmp_expr) if u in UNIQUE_SOURCES]
        uniq = [u for u in calls_transitive(ctx, fi, tmp_expr, skip_memoised=True) if u in UNIQUE_SOURCES]
        if uniq_any and not uniq:
            rr.bad(ctx.finding(rr.rule, fi, tmp_expr, "the unique component of the temporary name %s comes from a memoised helper: it is computed once per process and inherited by every worker the process forks, so two forked growers of one batch write the same temporary "
                               "(one truncates the other's finished file, which is then renamed into place)" % norm(tmp_expr), construct="tmp-unique-memoised " + norm(tmp_expr)), "R1b unique temporary")
        elif uniq and not (set(uniq) - {"os.getpid", "threading.get_ident"}) and not {"os.getpid", "threading.get_ident"} <= set(uniq):
            rr.bad(ctx.finding(rr.rule, fi, tmp_expr, "the only unique component of the temporary name %s that is computed per write is %s: two growers of the same batch inside one process (threads of a pool, a reaper thread and a grower) write the same temporary, "
                               "one truncates the other's finished file, which is then renamed into place" % (norm(tmp_expr), ", ".join(sorted(set(uniq)))), construct="tmp-unique-per-process-only " + norm(tmp_expr)), "R1b unique temporary")
        elif not uniq:
            rr.bad(ctx.finding(rr.rule, fi, tmp_expr, "temporary name %s has no process-unique component: two growers of the same batch (or of any batch, if the name is constant) write the same temporary" % norm(tmp_expr),
                               construct="tmp-not-unique " + norm(tmp_expr)), "R1b unique temporary")
        else:
            rr.ok("R1b %s: temporary %s is process-unique via %s" % (q, norm(tmp_expr), ",".join(sorted(set(uniq)))))
        samples = ["/scratch/.xyz-f/results/xyz-result-7.jbdmp", "/scratch/.xyz-f/batches/xyz-batch-12.jbdmp",
                   "/scratch/.xyz-f/xyz-settings.jbdmp", "/scratch/.xyz-f/xyz-function.clpkl"]
        listings = reader_listings(ctx)
        need(len(listings) >= 2, "anchor lost: expected >= 2 directory listings of results/batches in the cropping module, found %d" % len(listings))
        for s in samples:
            t = ConstFold(ctx, fi, {final: s}).ev(tmp_expr)
            need(isinstance(t, str), "temporary name did not fold to a string")
            if os.path.dirname(t) != os.path.dirname(s):
                rr.bad(ctx.finding(rr.rule, fi, tmp_expr, "temporary %r is not created in the directory of the final name %r: the rename is not atomic across file systems" % (t, s),
                                   construct="tmp-other-dir " + norm(tmp_expr)), "R1b same directory")
            elif t == s:
                rr.bad(ctx.finding(rr.rule, fi, tmp_expr, "temporary name equals the final name", construct="tmp-equals-final"), "R1b distinct")
            else:
                rr.ok("R1b temporary for %s is %s (same directory, distinct)" % (os.path.basename(s), os.path.basename(t)))
            for (lfi, lcall, sub, accepts, desc) in listings:
                if os.path.basename(os.path.dirname(t)) != sub:
                    continue
                if accepts(os.path.basename(t)):
                    rr.bad(ctx.finding(rr.rule, lfi, lcall, "a result still being written is counted / read as finished: the temporary name %r passes the listing %s" % (os.path.basename(t), desc),
                                       construct="listing-accepts-temporary " + desc), "R1d temp vs %s in %s" % (desc, lfi.qualname))
                elif not accepts(os.path.basename(s)):
                    rr.bad(ctx.finding(rr.rule, lfi, lcall, "the listing %s does not see finished files such as %r" % (desc, os.path.basename(s)),
                                       construct="listing-misses-final " + desc), "R1d final vs %s" % desc)
                else:
                    rr.ok("R1d %s: %s sees %s but not %s" % (lfi.qualname, desc, os.path.basename(s), os.path.basename(t)))
            # the reaper / missing_results address final names exactly
        # (c) dump + close complete before the rename, rename before exit
        w = enclosing_with(open_call)
        if w is not None and any(open_call in [x for x in ast.walk(i.context_expr)] for i in w.items):
            exits = with_exit_nodes(cfg, w, "normal")
            need(len(exits) == 1, "with-exit node of the writer not found")
            close_node = exits[0]
            if not cfg.completes_before(close_node.id, rn_node.id):
                rr.bad(ctx.finding(rr.rule, fi, rn, "os.replace can run before the temporary file is closed (it is inside the with block, or on a path that skips the close): the published file may lack buffered data",
                                   construct="replace-before-close " + norm(rn)), "R1c close before rename")
            else:
                rr.ok("R1c %s: the with-block closing %s completes before %s on every path" % (q, tmp, norm(rn)))
        else:
            closes = [(n, c) for n, c, nm in all_calls(ctx, fi, cfg) if nm == "?.close"]
            okc = any(cfg.completes_before(n.id, rn_node.id) for n, c in closes)
            if not okc:
                rr.bad(ctx.finding(rr.rule, fi, rn, "the temporary is not closed (no with block, no close() completing) before the rename",
                                   construct="no-close-before-rename"), "R1c close before rename")
            else:
                rr.ok("R1c %s: explicit close() completes before the rename" % q)
        dumps = [(n, c) for n, c, nm in all_calls(ctx, fi, cfg) if nm in ("pickle.dump", "joblib.dump", "?.write", "cloudpickle.dump")]
        if not dumps:
            rr.bad(ctx.finding(rr.rule, fi, open_call, "no dump / write found in the writer", construct="no-dump"), "R1c dump present")
        for dn, dc in dumps:
            if not cfg.completes_before(dn.id, rn_node.id):
                rr.bad(ctx.finding(rr.rule, fi, dc, "the data is not (completely) dumped before the rename publishes the file", construct="dump-after-rename " + norm(dc)),
                       "R1c dump before rename")
            else:
                rr.ok("R1c %s: %s completes before the rename" % (q, norm(dc)))
            # the dump must go to the handle of the temporary
        # rename on every normal path
        if not cfg.completes_before(rn_node.id, cfg.exit.id):
            rr.bad(ctx.finding(rr.rule, fi, rn, "a normal exit of the writer is reachable without the rename: the final file is not published on that path",
                               construct="exit-without-rename"), "R1c rename before exit")
        else:
            rr.ok("R1c %s: every normal exit passes through the rename" % q)


def crop_slice(ctx):
    prog = ctx.prog
    entries = [prog.need_func(q) for q in ENTRY_WRITERS]
    sl = ctx.res.slice(entries)
    m = prog.modules["xyzpy.gen.cropping"]
    return [f for f in sl if f.module is m]


def publication_rule(ctx, rid, title="atomic publication with a private same-directory temporary", floor=8):
    """R1 as a reusable rule: -> (rule result, writers, writer qualnames)."""
    prog = ctx.prog
    crop_funcs = crop_slice(ctx)
    for f in crop_funcs:
        ctx.touch(f, build_cfg(f.node))
    r1 = ctx.rule(rid, title, floor=floor)
    writers = find_writers(ctx, crop_funcs)
    need(len(writers) >= 1, "anchor lost: no function reachable from sow_*/grow opens a file for writing")
    wf = {w[0].qualname for w in writers}
    for fi, cfg, n, c in writers:
        check_writer(ctx, r1, fi, cfg, n, c)
    callers = []
    for wq in wf:
        callers += ctx.res.callers_of(prog.func(wq))
    ctx.extra["writer_functions"] = sorted(wf)
    ctx.extra["writer_call_sites"] = len(callers)
    need(len(callers) >= 4, "anchor lost: expected >= 4 call sites of the single writer, found %d" % len(callers))
    return r1, writers, wf


ACTORS_ALL = ["xyzpy.gen.cropping.grow", "xyzpy.gen.cropping.Crop.grow", "xyzpy.gen.cropping.Crop.grow_missing",
              "xyzpy.gen.cropping.Crop.calc_progress", "xyzpy.gen.cropping.Crop.is_ready_to_reap",
              "xyzpy.gen.cropping.Crop.missing_results", "xyzpy.gen.cropping.Reaper.__init__",
              "xyzpy.gen.cropping.Reaper.__call__", "xyzpy.gen.cropping.write_to_disk", "xyzpy.gen.cropping.read_from_disk"]
ACTORS_LOAD = ["xyzpy.gen.cropping.Reaper.__init__", "xyzpy.gen.cropping.Reaper.__call__", "xyzpy.gen.cropping.read_from_disk",
               "xyzpy.gen.cropping.Crop.calc_progress", "xyzpy.gen.cropping.Crop.is_ready_to_reap", "xyzpy.gen.cropping.Crop.missing_results"]


def no_removal_rule(ctx, rid, writers=None, wf=None, actors=None, title=None, floor=5):
    """Nothing a grower, a progress query or the Reaper's load path runs
    removes files (C11.R4; C12.R5 restricted to the load path: a failing or
    partial reap must not destroy grown results)."""
    prog = ctx.prog
    m = prog.modules["xyzpy.gen.cropping"]
    if writers is None:
        writers = find_writers(ctx, crop_slice(ctx))
        wf = {w[0].qualname for w in writers}
    r4 = ctx.rule(rid, title or "no file removal reachable from a grower, a progress query or the Reaper's load path", floor=floor)
    actors = actors or ACTORS_ALL
    asl = ctx.res.slice([prog.need_func(q) for q in actors], stop={"xyzpy.gen.combo_runner.combo_runner_core"})
    asl = [f for f in asl if f.module is m]
    REMOVERS = {"os.remove", "os.unlink", "shutil.rmtree", "os.rmdir", "os.removedirs", "?.unlink", "?.rmdir", "shutil.move", "os.truncate", "?.truncate"}
    for fi in asl:
        ctx.touch(fi)
        bad = [(n, c, nm) for n, c, nm in all_calls(ctx, fi) if nm in REMOVERS]
        if fi.qualname in wf:
            # a writer may clean up its *own* temporary (never a parameter,
            # i.e. never a final name)
            own_tmp = {norm(arg(oc, 0, "file")) for (wfi, _, _, oc) in writers if wfi is fi and isinstance(arg(oc, 0, "file"), ast.Name)
                       and arg(oc, 0, "file").id not in fi.params}
            bad = [(n, c, nm) for n, c, nm in bad if not (c.args and norm(c.args[0]) in own_tmp and nm in ("os.remove", "os.unlink"))]
        for n, c, nm in bad:
            r4.bad(ctx.finding(r4.rule, fi, c, "%s removes a file while growers / a waiting reaper may be using the crop, or while results are being loaded: a published result can disappear between the reaper's existence poll and its load, and a reap that fails destroys grown results (a batch grown twice must only ever *replace* its result)" % norm(c)[:80]),
                   "%s: %s" % (fi.qualname, norm(c)[:60]))
        if not bad:
            r4.ok("%s removes nothing" % fi.qualname)
    return r4


def run(ctx):
    prog = ctx.prog
    m = prog.modules["xyzpy.gen.cropping"]
    crop_funcs = crop_slice(ctx)
    r1, writers, wf = publication_rule(ctx, "C11.R1")

    # ---- R2 who may write
    r2 = ctx.rule("C11.R2", "single writer: no other raw write into the crop directory", floor=2)
    for fi in m.all_funcs:
        cfg = build_cfg(fi.node)
        for n, c, name in all_calls(ctx, fi, cfg):
            is_w = (name == "builtins.open" and is_write_mode(open_mode(c))) or name in WRITE_CALLS or name in ("?.to_pickle", "pathlib.Path.write_text", "?.write_text", "?.write_bytes")
            if not is_w:
                continue
            if fi.qualname in wf:
                r2.ok("%s: %s is the single writer" % (fi.qualname, norm(c)[:60]))
            elif fi.qualname in R2_EXEMPT:
                r2.ok("%s: %s exempt (%s)" % (fi.qualname, norm(c)[:60], R2_EXEMPT[fi.qualname]))
            else:
                r2.bad(ctx.finding(r2.rule, fi, c, "%s writes a file in the cropping module without going through the atomic writer %s" % (norm(c)[:80], "/".join(sorted(wf)))),
                       "%s raw write" % fi.qualname)

    # ---- R3 waiting reaper polls the final name, then loads
    r3 = ctx.rule("C11.R3", "wait mode: load dominated by the exit of an exists() poll on the final name", floor=3)
    from .shared import reaper_loaders
    ld, wl, init = reaper_loaders(ctx)
    need(wl is not None, "anchor lost: the Reaper's polling loader")
    ctx.touch(wl, build_cfg(wl.node))
    ctx.touch(ld, build_cfg(ld.node))
    g = build_cfg(wl.node)
    xs = [p_ for p_ in wl.positional if p_ not in ("self",)]
    need(xs, "idiom changed: the polling loader takes no file name")
    x = xs[0]
    loads = [(n, c) for n, c, nm in all_calls(ctx, wl, g) if nm == ld.qualname]
    need(len(loads) >= 1, "anchor lost: the polling loader does not call the loader")

    def poll_tests(fn, gg, pname):
        out = []
        for n in gg.nodes:
            if n.kind == "test" and isinstance(n.stmt, ast.While):
                t = n.ast
                neg = isinstance(t, ast.UnaryOp) and isinstance(t.op, ast.Not)
                inner = t.operand if neg else t
                if isinstance(inner, ast.Call) and callee_name(ctx, fn, inner) in ("os.path.exists", "os.path.isfile") and \
                        isinstance(arg(inner, 0), ast.Name) and arg(inner, 0).id == pname and neg:
                    out.append(n)
        return out
    from ..util import callee_func
    polls = [(p, "inline") for p in poll_tests(wl, g, x)]
    for n, c, nm in all_calls(ctx, wl, g):
        cf = callee_func(ctx, wl, c)
        if cf is not None and cf is not ld and c.args and isinstance(c.args[0], ast.Name) and c.args[0].id == x:
            hg = build_cfg(cf.node)
            hp = poll_tests(cf, hg, cf.positional[0]) if cf.positional else []
            if hp:
                ctx.touch(cf, hg)
                # the helper returns normally only through the loop's exit
                okh = all(not [b for b in ast.walk(q.stmt) if isinstance(b, (ast.Break, ast.Return))] for q in hp) and \
                    hg.exit.id not in hg.reachable(blocked_nodes=[q.id for q in hp])
                if okh:
                    polls.append((n, "helper %s" % cf.name))
                else:
                    r3.bad(ctx.finding(r3.rule, cf, cf.node, "the polling helper %s can return without the file existing" % cf.name, construct="poll-helper-early-exit"), "poll helper")
    if not polls:
        for n, c in loads:
            r3.bad(ctx.finding(r3.rule, wl, c, "in wait mode the result is loaded without first polling os.path.exists on its name: a waiting reaper fails on a result that is not there yet",
                               construct="no-poll"), "poll before load")
    for p, how in polls:
        if how == "inline":
            body_breaks = [b for b in ast.walk(p.stmt) if isinstance(b, (ast.Break, ast.Return))]
            if body_breaks:
                r3.bad(ctx.finding(r3.rule, wl, body_breaks[0], "the poll loop can be left without the file existing (break / return inside it)", construct="poll-loop-break"),
                       "poll loop exits only when the file exists")
                continue
        r3.ok("existence poll on %r (%s) exits only when the file exists" % (x, how))
        for n, c in loads:
            a0 = arg(c, 0)
            same = isinstance(a0, ast.Name) and a0.id == x
            dom = g.dominates(p.id, n.id) if how == "inline" else g.completes_before(p.id, n.id)
            if not (dom and same):
                r3.bad(ctx.finding(r3.rule, wl, c, "the load is not preceded on every path by the existence poll of the same name", construct="load-not-dominated"), "load after poll")
            else:
                r3.ok("%s is preceded by the poll on %r" % (norm(c), x))
    # wait=True means: wait until the result exists -- no exit of the poll loop by an exception for that value
    from ..flow import Flow, TRUE
    gi = build_cfg(init.node)
    fli = Flow(gi, {"wait": TRUE}).run()
    env_i = None
    for nd in gi.nodes:
        if nd.kind == "def" and getattr(nd.ast, "name", None) == wl.name and nd.id in fli.IN:
            env_i = fli.IN[nd.id]
    closure = {}
    if env_i is not None:
        free = {x.id for x in ast.walk(wl.node) if isinstance(x, ast.Name)} - set(wl.params)
        for nm_ in free:
            v = env_i.get(nm_) if hasattr(env_i, "get") else None
            if v is not None:
                closure[nm_] = v
    closure.setdefault("wait", TRUE)
    flw = Flow(g, closure).run()
    for p, how in polls:
        if how != "inline":
            continue
        raises = [r for r in g.nodes if r.kind == "stmt" and isinstance(r.ast, ast.Raise) and any(r.ast is x for x in ast.walk(p.stmt))]
        live = [r for r in raises if r.id in flw.visited]
        if live:
            r3.bad(ctx.finding(r3.rule, wl, live[0].ast, "with wait=True the poll loop can be left by `%s` while the result does not exist yet: a waiting reaper fails instead of returning the results once the growers finish" % norm(live[0].ast)[:70],
                               construct="poll-loop-raise"), "poll loop has no failing exit for wait=True")
        else:
            r3.ok("wait=True: the poll loop has no exit by exception (%d raise statement(s), none feasible)" % len(raises))
    # the Reaper picks the polling loader in wait mode
    sel = [n for n in walk_shallow(init.node) if isinstance(n, ast.IfExp) and "wait" in norm(n.test)]
    oksel = False
    for s_ in sel:
        rb, ro = ctx.res.resolve_expr(init, s_.body), ctx.res.resolve_expr(init, s_.orelse)
        if norm(s_.test).split(".")[-1].lstrip("_") == "wait" and rb is wl and ro is ld:
            oksel = True
        elif norm(s_.test).split(".")[-1].lstrip("_") == "wait" and rb is ld and ro is wl:
            r3.bad(ctx.finding(r3.rule, init, s_, "with wait set the Reaper selects the non-polling loader: %s" % norm(s_), construct="wait-selects-loader"), "wait selects the polling loader")
            oksel = True
    if oksel:
        r3.ok("in wait mode the Reaper maps the polling loader over the final result names")
    elif not r3.findings:
        raise AnalysisError("idiom changed: loader selection in Reaper.__init__ not recognised")
    # final names: the Reaper's file list is built from the result template
    from .batching import as_comprehension, reaper_files_expr
    fx = reaper_files_expr(ctx, init)
    need(fx is not None, "anchor lost: Reaper.__init__ 'files'")
    txt = norm(as_comprehension(ctx, init, fx))
    if "RSLT_NM.format(" in txt and "'results'" in txt:
        r3.ok("the reaper addresses final result names: %s" % txt[:90])
    else:
        raise AnalysisError("idiom changed: Reaper file list %s" % txt)

    no_removal_rule(ctx, "C11.R4", writers, wf)

    base_rules.run_link_rules(ctx, "C11", [f for f in crop_funcs if f.qualname in wf or f.name in ("grow",)] + [wl, ld, init], externals=True)
