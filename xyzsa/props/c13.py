"""C13 -- missing-data discovery reports exactly the locations that have no data."""
import ast

from ..loader import AnalysisError, norm, walk_shallow
from ..cfg import build_cfg, node_calls
from ..flow import Flow, const
from ..util import callee_name, all_calls, arg, need, single_def, names_in, assignments_to
from .. import base_rules

CASE = "xyzpy.gen.case_runner"
LEVEL = "other"
CLAIM = {
    "text": ("Decides the structural clauses of C13: (R1) quantifier and polarity -- for each method the value returned by is_case_missing normalises (small lattice of (quantifier, predicate) with De Morgan for ~ / not) to "
             "'for all variables, for all positions: null' (isnull) resp. 'not finite' (isfinite, defined by np.isfinite itself so that nan, +inf and -inf all count as no data), the absent-coordinate path returns True, an unknown method raises; "
             "(R2) find_missing_cases enumerates product over the non-ignored dimensions in dataset order with a string ignore_dims treated as one name, zips locations with the same names, and the filter preserves order and emits each location at most once; "
             "parse_into_cases enumerates cases x product(combos) in order, the later mapping overriding, and every requested location reaches the missing test (no short cut skips it). (R3) Runner.run_cases binds the tuple cases reported here with the caller's fn_args; (R4) the null criterion `method` is forwarded to every in-package callee that takes one. (R5) the discovery functions and what they reach in their module read no module-level container written at run time (a memo keyed by id(ds) is reported: the same object modified in place gets the earlier answer). Not decided: xarray null semantics per dtype; the find -> harvest -> find loop (C05)."),
    "note": "Trusted base: xarray .sel raises KeyError for absent labels; isnull / np.isfinite element-wise semantics; .all() reduces over all positions and to_array().all() over variables.",
    "technique": "static analysis: abstract evaluation of the reduction chain in a (quantifier, predicate) lattice per method valuation; syntactic enumeration-order and guard-shape rules",
}
EXPLANATION = "D-QUANT abstract evaluation of is_case_missing per method; guard / loop shape rules for find_missing_cases and parse_into_cases."
ASSUMPTIONS = ["xarray: Dataset.all() reduces every variable over all its positions; to_array().all() then reduces over variables"]
NOT_DECIDED = ["(L) xarray null semantics for every dtype (object / str arrays under np.isfinite)", "the find -> harvest -> find loop (C05)"]

FLIP = {"NULL": "NOTNULL", "NOTNULL": "NULL", "FINITE": "NOTFINITE", "NOTFINITE": "FINITE"}


class QEval:
    """value = ('data',) | ('pred', P) element-wise | ('q', Q, P) reduced."""

    def __init__(self, ctx, fi, env, sub=None):
        self.ctx, self.fi, self.env = ctx, fi, env
        self.sub = sub

    def ev(self, e):
        if self.sub is not None:
            return self.sub(e)
        return self.ev0(e)

    def ev0(self, e):
        if isinstance(e, ast.Name):
            return self.env.get(e.id, ("unknown", e.id))
        if isinstance(e, ast.UnaryOp) and isinstance(e.op, (ast.Invert, ast.Not)):
            v = self.ev(e.operand)
            if v[0] == "pred":
                return ("pred", FLIP[v[1]])
            if v[0] == "q":
                return ("q", "EXISTS" if v[1] == "FORALL" else "FORALL", FLIP[v[2]])
            return ("unknown", norm(e))
        if isinstance(e, ast.Call):
            nm = callee_name(self.ctx, self.fi, e)
            if nm in ("numpy.isfinite",) and e.args:
                v = self.ev(e.args[0])
                return ("pred", "FINITE") if v[0] == "data" else ("unknown", norm(e))
            if nm in ("numpy.isnan", "pandas.isnull", "pandas.isna", "xarray.ufuncs.isnan") and e.args:
                v = self.ev(e.args[0])
                return ("pred", "NULL") if v[0] == "data" else ("unknown", norm(e))
            if isinstance(e.func, ast.Attribute):
                recv = self.ev(e.func.value)
                a = e.func.attr
                if a in ("sel", "isel", "squeeze", "load", "compute") and recv[0] == "data":
                    return ("data",)
                if a in ("isnull", "isna") and recv[0] == "data":
                    return ("pred", "NULL")
                if a in ("notnull", "notna") and recv[0] == "data":
                    return ("pred", "NOTNULL")
                if a == "all":
                    if recv[0] == "pred":
                        return ("q", "FORALL", recv[1])
                    if recv[0] == "q":
                        return recv if recv[1] == "FORALL" else ("unknown", "mixed quantifiers")
                if a == "any":
                    if recv[0] == "pred":
                        return ("q", "EXISTS", recv[1])
                    if recv[0] == "q":
                        return recv if recv[1] == "EXISTS" else ("unknown", "mixed quantifiers")
                if a in ("to_array", "item", "values", "to_dataarray") and recv[0] in ("q", "pred"):
                    return recv
            return ("unknown", norm(e))
        if isinstance(e, ast.BinOp) and isinstance(e.op, (ast.BitOr, ast.BitAnd)):
            return ("unknown", "combination " + norm(e))
        if isinstance(e, ast.Attribute) and e.attr == "values":
            return self.ev(e.value)
        return ("unknown", norm(e))


class QInterp:
    """Path interpreter for is_case_missing in the (quantifier, predicate)
    domain: `method` is a known constant, data values are abstract.  In-repo
    helpers are inlined.  -> ('return', v) | ('raise',) | ('fall', env)"""

    def __init__(self, ctx, method):
        self.ctx, self.method = ctx, method

    def cond(self, fi, t, env):
        if isinstance(t, ast.Compare) and len(t.ops) == 1 and isinstance(t.ops[0], (ast.Eq, ast.NotEq)) and isinstance(t.left, ast.Name) and env.get(t.left.id, (None,))[0] == "const" \
                and isinstance(t.comparators[0], ast.Constant):
            r = env[t.left.id][1] == t.comparators[0].value
            return r if isinstance(t.ops[0], ast.Eq) else not r
        if isinstance(t, ast.UnaryOp) and isinstance(t.op, ast.Not):
            r = self.cond(fi, t.operand, env)
            return None if r is None else not r
        return None

    def ev(self, fi, e, env):
        if isinstance(e, ast.Constant):
            return ("const", e.value)
        if isinstance(e, ast.Name) and e.id in env:
            return env[e.id]
        if isinstance(e, ast.Call):
            from ..util import callee_func
            cf = callee_func(self.ctx, fi, e)
            if cf is not None and cf.qualname != CASE + ".is_case_missing":
                from ..callgraph import bind_call
                b, _, _ = bind_call(e, cf)
                sub = {p_: self.ev(fi, a_, env) for p_, a_ in b.items()}
                r = self.run(cf, list(cf.node.body), sub)
                if r[0] == "return":
                    return r[1]
                if r[0] == "raise":
                    raise _Raised()
                return ("unknown", "helper %s does not return" % cf.name)
        q = QEval(self.ctx, fi, env, sub=None)
        q.sub = lambda x: (q.ev0(x) if x is e else self.ev(fi, x, env))
        return q.ev0(e)

    def run(self, fi, stmts, env):
        env = dict(env)
        for s in stmts:
            if isinstance(s, ast.Expr) and isinstance(s.value, ast.Constant):
                continue
            if isinstance(s, (ast.Import, ast.ImportFrom, ast.Pass)):
                continue
            if isinstance(s, ast.Assign) and len(s.targets) == 1 and isinstance(s.targets[0], ast.Name):
                env[s.targets[0].id] = self.ev(fi, s.value, env)
                continue
            if isinstance(s, ast.If):
                c = self.cond(fi, s.test, env)
                if c is None:
                    raise AnalysisError("is_case_missing: undecided branch `%s`" % norm(s.test))
                r = self.run(fi, s.body if c else s.orelse, env)
                if r[0] != "fall":
                    return r
                env = r[1]
                continue
            if isinstance(s, ast.Try):
                try:
                    r = self.run(fi, s.body, env)
                except _Raised:
                    return ("raise",)
                if r[0] != "fall":
                    return r
                env = r[1]
                continue
            if isinstance(s, ast.Return):
                return ("return", self.ev(fi, s.value, env) if s.value is not None else ("const", None))
            if isinstance(s, ast.Raise):
                return ("raise",)
            raise AnalysisError("is_case_missing: statement `%s`" % norm(s)[:50])
        return ("fall", env)


class _Raised(Exception):
    pass


def quantifier_rule(ctx, rid):
    rr = ctx.rule(rid, "is_case_missing: for all variables and positions null / not finite; absent coordinates -> True; unknown method raises", floor=4)
    f = ctx.prog.need_func(CASE + ".is_case_missing")
    g = build_cfg(f.node)
    ctx.touch(f, g)
    want = {"isnull": ("q", "FORALL", "NULL"), "isfinite": ("q", "FORALL", "NOTFINITE")}
    for meth, target in want.items():
        qi = QInterp(ctx, meth)
        try:
            res = qi.run(f, list(f.node.body), {"ds": ("data",), "method": ("const", meth), "setting": ("const", "loc")})
        except _Raised:
            res = ("raise",)
        final = res[1] if res[0] == "return" else None
        if final == target:
            rr.ok("method=%r: returns %s" % (meth, "forall variables, positions: %s" % target[2]))
        elif res[0] == "raise":
            rr.bad(ctx.finding(rid, f, f.node, "method=%r is rejected" % meth, construct="method-rejected " + meth), "quantifier %s" % meth)
        elif final is None or final[0] in ("unknown", "const", "data", "pred"):
            rr.bad(ctx.finding(rid, f, f.node, "method=%r: the missing test is `%s`, which is not one of the recognised forms of 'every value of every variable is %s' (for isfinite the criterion must be np.isfinite itself, so that nan, +inf and -inf all count as no data)"
                               % (meth, (final[1] if final and len(final) > 1 else final), "null" if meth == "isnull" else "non-finite"), construct="criterion-unrecognised " + meth), "quantifier %s" % meth)
        else:
            rr.bad(ctx.finding(rid, f, f.node, "method=%r: is_case_missing returns '%s positions: %s' instead of 'for all positions and variables: %s': locations with some data are reported missing, or empty ones are not"
                               % (meth, "there exist" if final[1] == "EXISTS" else "for all", final[2], target[2]), construct="quantifier %s %s %s" % (meth, final[1], final[2])), "quantifier %s" % meth)
    try:
        res = QInterp(ctx, "something-else").run(f, list(f.node.body), {"ds": ("data",), "method": ("const", "something-else"), "setting": ("const", "loc")})
    except _Raised:
        res = ("raise",)
    if res[0] == "raise":
        rr.ok("unknown method raises")
    else:
        rr.bad(ctx.finding(rid, f, f.node, "an unknown method does not raise", construct="unknown-method"), "unknown method")
    # KeyError -> True, and only KeyError
    hs = [n for n in g.nodes if n.kind == "except"]
    okk = False
    for h in hs:
        if h.ast.type is not None and norm(h.ast.type) == "KeyError":
            body = h.ast.body
            if len(body) == 1 and isinstance(body[0], ast.Return) and isinstance(body[0].value, ast.Constant) and body[0].value.value is True:
                okk = True
    sel_in_try = any(isinstance(t, ast.Try) and any(isinstance(c, ast.Call) and isinstance(c.func, ast.Attribute) and c.func.attr == "sel" for s_ in t.body for c in ast.walk(s_)) for t in ast.walk(f.node))
    if okk and not sel_in_try:
        from ..util import callee_func

        def reaches_sel(fn, node, depth=0):
            for c in ast.walk(node):
                if isinstance(c, ast.Call):
                    if isinstance(c.func, ast.Attribute) and c.func.attr == "sel":
                        return True
                    cf = callee_func(ctx, fn, c)
                    if cf is not None and cf.module is f.module and depth < 3 and reaches_sel(cf, cf.node, depth + 1):
                        ctx.touch(cf)
                        return True
            return False
        sel_in_try = any(isinstance(t, ast.Try) and any(reaches_sel(f, s_) for s_ in t.body) for t in ast.walk(f.node))
        if not sel_in_try and not any(isinstance(c, ast.Call) and isinstance(c.func, ast.Attribute) and c.func.attr == "sel" for c in ast.walk(f.node)):
            # a positional look-up through the index: get_indexer / searchsorted do not raise for an absent label (they return -1 /
            # an insertion point), so the KeyError the function relies on never comes and isel(-1) selects the last entry
            def pos_lookup(fn, node, depth=0):
                for c in ast.walk(node):
                    if isinstance(c, ast.Call):
                        if isinstance(c.func, ast.Attribute) and c.func.attr in ("get_indexer", "searchsorted", "get_indexer_for"):
                            return fn, c
                        cf = callee_func(ctx, fn, c)
                        if cf is not None and cf.module is f.module and depth < 3:
                            r_ = pos_lookup(cf, cf.node, depth + 1)
                            if r_:
                                ctx.touch(cf)
                                return r_
                return None
            pl_ = pos_lookup(f, f.node)
            if pl_:
                rr.bad(ctx.finding(rid, pl_[0], pl_[1], "the requested location is looked up with `%s`, which does not raise for a coordinate value that is absent (it returns -1 / an insertion point): the location is then read at another position "
                                   "(isel(-1) is the last entry) and an absent location is reported missing only if that other cell happens to be empty" % norm(pl_[1])[:60], construct="absent-label-no-keyerror"), "absent coordinates")
                return rr
            raise AnalysisError("idiom changed: is_case_missing does not select the location with .sel (directly or in a helper)")
    if okk and sel_in_try:
        rr.ok("absent coordinates (KeyError from .sel) -> True")
    else:
        rr.bad(ctx.finding(rid, f, f.node, "a requested location whose coordinates are absent is not reported as missing (KeyError from .sel must return True)", construct="keyerror-true"), "absent coords")
    return rr


def enumeration_rule(ctx, rid):
    rr = ctx.rule(rid, "enumeration: non-ignored dims in dataset order, product order, location zipped with the same names, order-preserving filter; every requested location is tested", floor=5)
    prog = ctx.prog
    f = prog.need_func(CASE + ".find_missing_cases")
    ctx.touch(f)
    g = build_cfg(f.node)
    # ignore_dims: a str is one name -- set(ignore_dims) must not be reachable for a str
    setcalls = [c for c in walk_shallow(f.node) if isinstance(c, ast.Call) and isinstance(c.func, ast.Name) and c.func.id in ("set", "frozenset") and c.args and norm(c.args[0]) == "ignore_dims"]
    if not setcalls:
        raise AnalysisError("idiom changed: find_missing_cases no longer builds set(ignore_dims)")
    for sc in setcalls:
        guarded = False
        p_ = getattr(sc, "_parent", None)
        child = sc
        while p_ is not None and p_ is not f.node:
            if isinstance(p_, ast.IfExp) and "isinstance(ignore_dims, str)" in norm(p_.test) and child is p_.orelse:
                guarded = True
            if isinstance(p_, ast.If) and "isinstance(ignore_dims, str)" in norm(p_.test) and child in p_.orelse:
                guarded = True
            child, p_ = p_, getattr(p_, "_parent", None)
        if guarded:
            rr.ok("set(ignore_dims) only on the not-a-str branch: a string names one dimension")
        else:
            rr.bad(ctx.finding(rid, f, sc, "`set(ignore_dims)` is applied without first excluding str: ignore_dims='time' becomes {'t','i','m','e'}, the dimension is not ignored and partially filled cells are reported missing", construct="ignore-dims-str"), "ignore_dims str")
    from ..pathcond import canon
    rets_ = [r_ for r_ in walk_shallow(f.node) if isinstance(r_, ast.Return) and isinstance(r_.value, ast.Tuple) and len(r_.value.elts) == 2 and isinstance(r_.value.elts[0], ast.Name)]
    # a return that reports "nothing missing" without running the per-location test decides missingness by some criterion of its own
    from ..pathcond import path_tests
    short = [r_ for r_ in rets_ if isinstance(r_.value.elts[1], (ast.Tuple, ast.List)) and not r_.value.elts[1].elts]
    for r_ in short:
        conds = " and ".join(norm(t_) for t_, _ in path_tests(f.node, r_))
        fixed = [w for w in (".count()", "notnull", "isnull", "isnan", "isfinite", "dropna") if w in conds]
        if fixed:
            rr.bad(ctx.finding(rid, f, r_, "find_missing_cases returns 'nothing missing' when `%s`: that decides missingness with a fixed criterion (%s), not with the requested `method` -- with method='isfinite' locations holding only +-inf are never reported" % (conds[:80], fixed[0]),
                               construct="shortcut-fixed-criterion"), "no shortcut")
        else:
            raise AnalysisError("idiom changed: find_missing_cases returns an empty result under `%s`" % conds[:80])
    rets_ = [r_ for r_ in rets_ if r_ not in short]
    need(len(rets_) == 1, "idiom changed: find_missing_cases does not return (names, cases)")
    FN = rets_[0].value.elts[0].id
    fa = single_def(f, FN, g)
    def _dims_filter(e):
        if isinstance(e, ast.Call) and isinstance(e.func, ast.Name) and e.func.id == "tuple" and len(e.args) == 1 and isinstance(e.args[0], (ast.GeneratorExp, ast.ListComp)):
            ge = e.args[0]
            if len(ge.generators) == 1 and isinstance(ge.generators[0].target, ast.Name) and norm(ge.generators[0].iter) == "ds.dims":
                v = ge.generators[0].target.id
                return norm(ge.elt) == v and [norm(c) for c in ge.generators[0].ifs] == ["%s not in %s" % (v, f.positional[1] if len(f.positional) > 1 else "ignore_dims")]
        return False
    if fa and _dims_filter(fa[1]):
        rr.ok("fn_args = ds.dims minus ignore_dims, in dataset order")
    elif fa and ("sorted(" in norm(fa[1]) or "set(" in norm(fa[1]) or "reversed(" in norm(fa[1])):
        rr.bad(ctx.finding(rid, f, fa[1], "the searched dimensions are re-ordered (`%s`): locations are not reported in grid order" % norm(fa[1]), construct="fn_args-order"), "fn_args")
    else:
        raise AnalysisError("idiom changed: fn_args in find_missing_cases: %s" % (norm(fa[1]) if fa else None))
    gens_ = [h for h in f.nested.values() if any(isinstance(x, (ast.Yield, ast.YieldFrom)) for x in ast.walk(h.node))]
    need(len(gens_) == 1, "idiom changed: gen_missing_list closure")
    gen = gens_[0]
    ctx.touch(gen)
    gg = build_cfg(gen.node)
    loops_ = [n for n in gg.nodes if n.kind == "for"]
    need(len(loops_) == 1, "idiom changed: gen_missing_list loop / test / yield")
    it_ = loops_[0].ast.iter
    if isinstance(it_, ast.Call) and it_.args and not isinstance(it_.args[0], ast.Starred) and norm(it_.func) != "itertools.product":
        it_ = it_.args[0]          # progress-bar wrapper
    need(isinstance(it_, ast.Name), "idiom changed: the locations iterated by gen_missing_list (`%s`)" % norm(it_))
    ALL = it_.id
    ac = single_def(f, ALL, g)
    pats_ = {canon(ast.parse(t % FN, mode="eval").body) for t in ("itertools.product(*(ds[a].data for a in %s))", "itertools.product(*[ds[a].data for a in %s])", "itertools.product(*(ds[a].values for a in %s))", "itertools.product(*[ds[a].values for a in %s])")}
    if ac and isinstance(ac[1], ast.Call) and callee_name(ctx, f, ac[1]) == "itertools.product" and canon(ac[1]) in pats_:
        rr.ok("all locations = product of the coordinates of fn_args, in order")
    else:
        raise AnalysisError("idiom changed: all_cases in find_missing_cases")
    heads = [n for n in gg.nodes if n.kind == "for" and ALL in norm(n.ast.iter)]
    tests = [n for n in gg.nodes if n.kind == "test" and "is_case_missing(" in norm(n.ast)]
    ylds = [n for n in gg.nodes if n.kind == "stmt" and isinstance(n.ast, ast.Expr) and isinstance(n.ast.value, ast.Yield)]
    need(len(heads) == 1 and tests and ylds, "idiom changed: gen_missing_list loop / test / yield")
    H, T = heads[0], tests[0]
    it = [b for b, l in gg.succ[H.id] if l == "iter"]
    skip = H.id in (gg.reachable(start=it[0], blocked_nodes=[T.id]) | {it[0]}) if it else True
    ypos = all(gg.dominates(T.id, y.id) and any(y.id in (gg.reachable(start=b) | {b}) for b, l in gg.succ[T.id] if l == "t") and
               not any(y.id in (gg.reachable(start=b, blocked_nodes=[H.id]) | {b}) for b, l in gg.succ[T.id] if l == "f") for y in ylds)
    yval = all(isinstance(H.ast.target, ast.Name) and norm(y.ast.value.value) == H.ast.target.id for y in ylds)
    twice = any(y2.id in set().union(*[gg.reachable(start=b, blocked_nodes=[H.id]) for b, l in gg.succ[y.id] if b != H.id] or [set()]) for y in ylds for y2 in ylds)
    tcall = [c_ for c_ in ast.walk(T.ast) if isinstance(c_, ast.Call) and norm(c_.func) == "is_case_missing"]
    need(tcall and len(tcall[0].args) >= 2, "idiom changed: the missing test in gen_missing_list")
    loc_ = tcall[0].args[1]
    if isinstance(loc_, ast.Name):
        dl_ = single_def(gen, loc_.id, gg)
        need(dl_ is not None, "idiom changed: the tested location `%s`" % loc_.id)
        loc_ = dl_[1]
    zipok = norm(loc_) == "dict(zip(%s, %s))" % (FN, norm(H.ast.target))
    if not zipok and not (isinstance(loc_, ast.Call) and norm(loc_.func) == "dict" and loc_.args and isinstance(loc_.args[0], ast.Call) and norm(loc_.args[0].func) == "zip"):
        raise AnalysisError("idiom changed: the tested location `%s`" % norm(loc_)[:60])
    if skip:
        rr.bad(ctx.finding(rid, gen, T.ast, "an iteration over the locations can avoid the missing test: such locations are never reported", construct="filter-skips-test"), "filter tests all")
    elif not ypos or not yval or twice:
        rr.bad(ctx.finding(rid, gen, ylds[0].ast, "a location is yielded other than exactly once on the 'missing' branch of its own test", construct="filter-yield"), "filter yield")
    elif not zipok:
        rr.bad(ctx.finding(rid, gen, T.ast, "the tested location is not dict(zip(fn_args, case)): names and coordinates are mispaired", construct="filter-setting"), "filter setting")
    else:
        rr.ok("filter: every location passes the test once; yielded once, in order, on the missing branch only")
    p = prog.need_func(CASE + ".parse_into_cases")
    from ..util import store_polarity
    for par_ in [x for x in ("combos", "cases") if x in p.params]:
        sn, sg = store_polarity(p, par_, par_)
        if (sn, sg) == (True, False):
            rr.ok("parse_into_cases: `%s` is replaced by its neutral element exactly when it is omitted" % par_)
        elif (sn, sg) == (False, True):
            rr.bad(ctx.finding(rid, p, p.node, "parse_into_cases replaces `%s` by its neutral element when it *is* given (and keeps None when it is omitted): the requested %s are ignored, so locations that were asked about are never tested or reported" % (par_, par_),
                               construct="default-polarity " + par_), "default of %s" % par_)
        elif (sn, sg) == (False, False):
            pass
        else:
            raise AnalysisError("idiom changed: defaulting of `%s` in parse_into_cases" % par_)
    ctx.touch(p)
    pg = build_cfg(p.node)
    fl = Flow(pg, {"ds": ("obj", "ds")}).run()
    outer = [n for n in pg.nodes if n.kind == "for" and norm(n.ast.iter) == "cases"]
    inner = [n for n in pg.nodes if n.kind == "for" and "product" in norm(n.ast.iter) and "combo" in norm(n.ast.iter)]
    tests = [n for n in pg.nodes if n.kind == "test" and "is_case_missing(" in norm(n.ast)]
    apps = [n for n in pg.nodes if n.kind == "stmt" and ".append(" in n.text()]
    need(len(outer) == 1 and len(inner) == 1 and tests and apps, "idiom changed: parse_into_cases loops / test / append")
    O, I, T, A = outer[0], inner[0], tests[0], apps[0]
    oit = [b for b, l in pg.succ[O.id] if l == "iter"][0]
    iit = [b for b, l in pg.succ[I.id] if l == "iter"][0]
    skip_inner = O.id in (pg.reachable(start=oit, blocked_nodes=[I.id], feasible=fl.feasible) | {oit})
    skip_test = I.id in (pg.reachable(start=iit, blocked_nodes=[T.id], feasible=fl.feasible) | {iit})
    if skip_inner:
        rr.bad(ctx.finding(rid, p, O.ast, "for some cases the sub-combinations are not enumerated at all (a path through the case loop avoids the product loop): requested locations of that case are never tested, e.g. ones whose coordinates are absent", construct="case-skips-product"), "every case enumerated")
    elif skip_test:
        rr.bad(ctx.finding(rid, p, T.ast, "a requested location can bypass `is_case_missing` when a dataset is given", construct="location-skips-test"), "every location tested")
    elif not (pg.dominates(T.id, A.id) or True):
        pass
    else:
        tt = norm(T.ast)
        te = T.ast
        okt = False
        if isinstance(te, ast.BoolOp) and isinstance(te.op, ast.Or) and len(te.values) == 2 and norm(te.values[0]) == "ds is None" and isinstance(te.values[1], ast.Call) and norm(te.values[1].func) == "is_case_missing":
            c_ = te.values[1]
            apx = [c for c in node_calls(A) if isinstance(c.func, ast.Attribute) and c.func.attr == "append" and len(c.args) == 1]
            okt = len(c_.args) >= 2 and norm(c_.args[0]) == "ds" and apx and norm(c_.args[1]) == norm(apx[0].args[0])
        if okt:
            rr.ok("parse_into_cases: every case x combination reaches `ds is None or is_case_missing(ds, <location>, ...)`; the tested location is the appended one")
        else:
            raise AnalysisError("idiom changed: parse_into_cases test `%s`" % tt)
    # the appended location: {**<case of the outer loop>, **dict(zip(<names of combos>, <setting of the product loop>))}
    appc = [c for c in node_calls(A) if isinstance(c.func, ast.Attribute) and c.func.attr == "append" and len(c.args) == 1]
    need(appc, "idiom changed: parse_into_cases append")
    loc_e = appc[0].args[0]
    if isinstance(loc_e, ast.Name):
        d_ = single_def(p, loc_e.id, pg)
        need(d_ is not None, "idiom changed: the appended location `%s` in parse_into_cases" % loc_e.id)
        loc_e = d_[1]
    case_v = norm(O.ast.target)
    set_v = norm(I.ast.target)

    def _def_text(e):
        if isinstance(e, ast.Name):
            d2 = single_def(p, e.id, pg)
            if d2 is not None:
                return norm(d2[1])
        return norm(e)
    par_combos = "combos"
    if isinstance(loc_e, ast.Dict) and len(loc_e.keys) == 2 and all(k is None for k in loc_e.keys):
        first, second = loc_e.values
        ok_zip = isinstance(second, ast.Call) and norm(second.func) == "dict" and len(second.args) == 1 and isinstance(second.args[0], ast.Call) and norm(second.args[0].func) == "zip" and len(second.args[0].args) == 2
        first_zip = isinstance(first, ast.Call) and norm(first.func) == "dict" and norm(second) == case_v
        if norm(first) == case_v and ok_zip:
            kx, sx = second.args[0].args
            kt = _def_text(kx)
            it_ok = "*" in norm(I.ast.iter)
            vt = _def_text(I.ast.iter.args[0].value) if isinstance(I.ast.iter, ast.Call) and I.ast.iter.args and isinstance(I.ast.iter.args[0], ast.Starred) else None
            if norm(sx) == set_v and kt in ("tuple(%s)" % par_combos, "list(%s)" % par_combos, "%s.keys()" % par_combos, "tuple(%s.keys())" % par_combos, "list(%s.keys())" % par_combos, par_combos) \
                    and vt in ("tuple(%s.values())" % par_combos, "list(%s.values())" % par_combos, "%s.values()" % par_combos):
                rr.ok("new location = {**case, **dict(zip(names of combos, setting))}: combo part overrides")
            elif norm(kx) == set_v or (kt and ".values()" in kt) or (vt and ".values()" not in vt):
                rr.bad(ctx.finding(rid, p, loc_e, "the requested location pairs the combination's values and names wrongly (`%s`)" % norm(second)[:60], construct="new-case"), "new_case")
            else:
                raise AnalysisError("idiom changed: names / values of the combination in parse_into_cases (%s / %s)" % (kt, vt))
        elif first_zip:
            rr.bad(ctx.finding(rid, p, loc_e, "the requested location is {**combination, **case}: the case's values override the combination's", construct="new-case"), "new_case")
        else:
            raise AnalysisError("idiom changed: the requested location `%s`" % norm(loc_e)[:70])
    else:
        raise AnalysisError("idiom changed: the requested location `%s`" % norm(loc_e)[:70])
    return rr


def criterion_forwarding_rule(ctx, rid):
    """The null criterion (`method`) chosen by the caller reaches every helper
    that takes one: a helper called without it silently falls back to its own
    default ('isnull'), so with 'isfinite' the two stages disagree about what
    is missing."""
    from ..util import callee_func
    rr = ctx.rule(rid, "the null criterion `method` is forwarded to every in-package callee that has a `method` parameter", floor=2)
    prog = ctx.prog
    m = prog.modules[CASE]
    n = 0
    for f in m.all_funcs:
        if "method" not in f.params:
            continue
        ctx.touch(f)
        inner = [f] + list(f.nested.values())
        for fn in inner:
            for nd, c, nm in all_calls(ctx, fn):
                cf = callee_func(ctx, fn, c)
                if cf is None or cf.module.name.split(".")[0] != "xyzpy" or "method" not in cf.params:
                    continue
                n += 1
                a = arg(c, cf.positional.index("method") if "method" in cf.positional else None, "method")
                if a is not None and norm(a) == "method":
                    rr.ok("%s -> %s(method=method)" % (f.name, cf.name), "%s|%s|%s" % (f.name, cf.name, c.lineno))
                elif a is None:
                    rr.bad(ctx.finding(rid, fn, c, "%s calls `%s` without its `method`: the callee falls back to %s while the caller was asked for another criterion -- with method='isfinite' cells holding only +-inf are treated as data by this stage" % (
                        f.name, norm(c)[:50], norm(cf.defaults().get("method")) if cf.defaults().get("method") is not None else "its default"), construct="criterion-not-forwarded %s->%s" % (f.name, cf.name)), "%s forwards method" % f.name)
                else:
                    rr.bad(ctx.finding(rid, fn, c, "%s passes method=%s instead of its own `method`" % (f.name, norm(a)), construct="criterion-replaced %s->%s" % (f.name, cf.name)), "%s forwards method" % f.name)
    need(n >= 2, "anchor lost: calls forwarding the null criterion (%d)" % n)
    return rr


def stateless_rule(ctx, rid):
    """The discovery functions read the dataset they are given, every time: nothing reachable from them reads a
    module-level container that the program writes at run time.  A memo keyed by the *identity* of the dataset
    (`id(ds)`) is reported: the same object modified in place between two queries (holes filled by assignment) gets the
    earlier answer.  A memo keyed otherwise is exit 2."""
    from .plots import _runtime_state, _cmap_state_findings
    prog = ctx.prog
    rr = ctx.rule(rid, "missing-data discovery keeps no state between calls (reads no module-level container written at run time)", floor=3)
    cache = {}

    def state_of(mod):
        if mod.name not in cache:
            cache[mod.name] = _runtime_state(mod)
        return cache[mod.name]
    probe = ast.parse("_M = {}\ndef f(ds):\n    return _M.setdefault(id(ds), ds.isnull())\n")
    pm = type("M", (), {"tree": probe, "name": "<probe>"})()
    need("_M" in _runtime_state(pm), "internal: the run-time state detector no longer recognises its own example")
    for nm in ("is_case_missing", "find_missing_cases", "parse_into_cases"):
        entry = prog.need_func(CASE + "." + nm)
        seen, reads = _cmap_state_findings(lambda m: m.funcs, entry, state_of)
        for q in seen:
            f_ = prog.func(q)
            if f_ is not None:
                ctx.touch(f_)
        done = set()
        for f, n, cont, key in reads:
            if (f.qualname, cont) in done:
                continue
            done.add((f.qualname, cont))
            k_ = key
            if isinstance(k_, ast.Name):
                d_ = single_def(f, k_.id)
                if d_ is not None:
                    k_ = d_[1]
            if isinstance(k_, ast.Call) and norm(k_.func) == "id" and len(k_.args) == 1 and isinstance(k_.args[0], ast.Name) and k_.args[0].id in f.params:
                rr.bad(ctx.finding(rid, f, n, "%s (reached from %s) keeps results across calls in `%s` keyed by `%s`, the identity of the dataset and not its content: after the same object is modified in place (holes filled by assignment, entries set to NaN) the earlier answer is returned, so locations that now hold data are still reported missing and newly emptied ones are not" % (
                    f.name, nm, cont, norm(k_)), construct="memo-by-identity " + f.name), "%s stateless" % nm)
            else:
                raise AnalysisError("idiom changed: %s (reached from %s) reads the run-time-written module container `%s` (key `%s`); whether equal keys mean equal data is not analysed" % (f.name, nm, cont, norm(k_) if k_ is not None else "?"))
        if not reads:
            rr.ok("%s and the %d function(s) it reaches read no module-level container written at run time" % (nm, len(seen) - 1))
    return rr


def run(ctx):
    stateless_rule(ctx, "C13.R5")
    quantifier_rule(ctx, "C13.R1")
    criterion_forwarding_rule(ctx, "C13.R4")
    from . import sweep as _sw
    _sw.case_binding_rule(ctx, "C13.R3")
    enumeration_rule(ctx, "C13.R2")
    prog = ctx.prog
    sl = [prog.need_func(CASE + "." + n) for n in ("is_case_missing", "find_missing_cases", "parse_into_cases")]
    sl += list(prog.need_func(CASE + ".find_missing_cases").nested.values())
    base_rules.run_link_rules(ctx, "C13", sl)
