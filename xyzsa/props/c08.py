"""C08 -- reported progress always matches the batches that really finished."""
import ast

from ..loader import AnalysisError, norm, walk_shallow
from ..cfg import build_cfg, node_calls
from ..flow import Flow, NONE, NOTNONE, FALSE
from ..util import callee_name, all_calls, arg, need, single_def, names_in, ConstFold
from .. import base_rules
from . import shared, batching, c11
from .shared import CROP

LEVEL = "other"
CLAIM = {
    "text": ("Decides the structural clauses of C08 on every path: (R1) in grow() the result write is reachable only through the normal exhaustion of the loop that consumes every case, never from an exception edge, no handler "
             "swallows a failure of the evaluation, and the user function is invoked where a StopIteration it raises cannot pass for exhaustion (generator expression / comprehension / statement, not map+lambda); "
             "(R2) result files are written only by grow(), under a name that is a function of its batch_number alone; sowing writes only batches/, the settings and the function file; nothing but delete_all and check_bad removes crop files; "
             "(R3) every progress query recomputes from disk before answering (each return is dominated by calc_progress), all queries and grow use the writer's directory+template, directory listings count final names but no leftover temporary, "
             "missing_results ranges over [1, num_batches], is_ready_to_reap is 'results > 0 and results == sown batches', grow_missing grows exactly missing_results() with crop=self; (R7) the persisted batch numbers (batchsize, num_batches, remainder) are chosen before anything is written and restored unconditionally from the like-named keys, so progress queries of a re-created Crop range over the batches actually sown. "
             "(R9) missing_results consults the result files on every path to a return: an answer remembered from an earlier call and guarded by in-memory state only (counts, attributes) is reported -- the set of finished batches can change while every count stays the same; a guard that consults the file system is exit 2. Not decided: that glob counts equal settings counts on arbitrary foreign files in the crop directory."),
    "note": "Trusted base: file-system listing / existence semantics; PEP 479 (StopIteration inside a generator becomes RuntimeError); CPython semantics of the parsed ast.",
    "technique": "static analysis: CFG reachability / dominance rules with exception edges, who-may-write and who-may-remove call-graph rules, constant folding of path templates and listing filters",
}
EXPLANATION = "CFG rules over grow() and the progress queries; who-may-write/remove tables over the cropping module; folded path templates and directory-listing filters evaluated on representative final / temporary names."
ASSUMPTIONS = ["only xyzpy writes into the crop directory", "PEP 479 semantics for generator expressions"]
NOT_DECIDED = ["(V) that glob counts equal settings counts on arbitrary histories involving foreign files"]


def grow_write_rule(ctx, rid):
    rr = ctx.rule(rid, "grow(): the result is written only after every case returned; failures are never swallowed or mistaken for exhaustion", floor=3)
    grow = ctx.prog.need_func(CROP + ".grow")
    g = build_cfg(grow.node)
    ctx.touch(grow, g)
    wr = [(n, c) for n, c, nm in all_calls(ctx, grow, g) if nm == CROP + ".write_to_disk"]
    need(len(wr) == 1, "anchor lost: grow() result write")
    wn, wc = wr[0]
    # the loop that fills what is written
    data_names = names_in(wc.args[0])
    loops = [n for n in g.nodes if n.kind == "for" and any(isinstance(s, ast.Expr) and isinstance(s.value, ast.Call) and isinstance(s.value.func, ast.Attribute)
                                                          and s.value.func.attr == "append" and norm(s.value.func.value) in data_names for s in ast.walk(n.ast))]
    if not loops:
        # comprehension form: results = tuple(gen) / list(gen)
        d = None
        for nm in data_names:
            d = d or single_def(grow, nm, g)
        need(d is not None, "idiom changed: grow() result collection")
        if g.completes_before(d[0].id, wn.id):
            rr.ok("grow(): results collected by `%s`, which completes before the write" % norm(d[0].ast)[:60])
        else:
            rr.bad(ctx.finding(rid, grow, wc, "the result can be written before the results were collected", construct="write-before-collect"), "write after collect")
    for lp in loops:
        done = [(lp.id, b, l) for b, l in g.succ[lp.id] if l == "done"]
        body_entries = [b for b, l in g.succ[lp.id] if l == "iter"]
        r = set()
        for be in body_entries:
            r |= g.reachable(start=be, blocked_edges=done) | {be}
        if wn.id in r:
            rr.bad(ctx.finding(rid, grow, wc, "the result file can be written without the loop over all cases having finished normally (write reachable from inside the loop, a break, or a handler): a batch whose evaluation is incomplete is recorded as finished",
                               construct="write-not-after-loop"), "write only after loop exhaustion")
        else:
            rr.ok("grow(): `%s` is reachable only through the normal exhaustion of `%s`" % (norm(wc)[:40], lp.text()))
        if any(isinstance(b, ast.Break) for b in ast.walk(lp.ast)):
            rr.bad(ctx.finding(rid, grow, lp.ast, "the loop consuming the cases can be left early with `break` and the (short) result is then written", construct="loop-break"), "no break")
    # failures propagate: from any exception edge between loading the cases and the write, no normal continuation
    swallowed = None
    for n in g.nodes:
        for b, l in g.succ[n.id]:
            if l == "exc" and b not in (g.raise_exit.id,):
                reach = g.reachable(start=b) | {b}
                if wn.id in reach or g.exit.id in reach:
                    swallowed = (n, g.nodes[b])
    if swallowed:
        rr.bad(ctx.finding(rid, grow, swallowed[0].stmt, "an exception raised by `%s` can be caught inside grow() and execution continues to the result write / a normal return: a batch whose function raised is recorded as finished" % swallowed[0].text()[:50],
                           construct="exception-swallowed"), "failures propagate")
    else:
        rr.ok("grow(): every exception propagates to the caller (no handler leads on to the write or a normal return)")
    # PEP 479: where the user's function is invoked
    fnp = "fn"
    need(fnp in grow.params, "idiom changed: grow() has no `fn` parameter")
    sites = []
    for c in ast.walk(grow.node):
        if isinstance(c, ast.Call):
            if isinstance(c.func, ast.Name) and c.func.id == fnp:
                sites.append(("call", c))
            elif any(isinstance(a, ast.Name) and a.id == fnp for a in c.args) and not (isinstance(c.func, ast.Attribute) and c.func.attr in ("submit", "apply_async")) \
                    and callee_name(ctx, grow, c) not in (CROP + ".from_pickle",):
                sites.append(("passed", c))
    need(sites, "anchor lost: grow() never invokes fn")
    for kind, c in sites:
        p = getattr(c, "_parent", None)
        in_lambda = False
        while p is not None and p is not grow.node:
            if isinstance(p, ast.Lambda):
                in_lambda = True
            p = getattr(p, "_parent", None)
        nm = callee_name(ctx, grow, c)
        if kind == "passed" and nm in ("builtins.map", "builtins.filter", "itertools.starmap", "itertools.imap"):
            rr.bad(ctx.finding(rid, grow, c, "the user function is applied through `%s`: a StopIteration raised by it ends the consuming loop as if the batch were exhausted, and a truncated result is written" % nm.split(".")[-1], construct="fn-via-map"), "fn not via map")
        elif in_lambda:
            rr.bad(ctx.finding(rid, grow, c, "the user function is called inside a lambda handed to a lazy iterator: a StopIteration raised by it is taken for normal exhaustion (no PEP 479 protection), a truncated result is written and the failed batch counts as finished",
                               construct="fn-in-lambda"), "fn not in lambda")
        else:
            rr.ok("grow(): `%s` runs inside a generator expression / comprehension / statement (PEP 479 protects against a leaking StopIteration)" % norm(c)[:40])
    return rr


def writers_rule(ctx, rid):
    rr = ctx.rule(rid, "who writes / removes what: results only by grow() under its own batch number; sow confined; removals only in delete_all / check_bad", floor=6)
    prog = ctx.prog
    m = prog.modules[CROP]
    t = shared.templates(ctx)
    res_t, bat_t = t["RSLT_NM"].format("@"), t["BTCH_NM"].format("@")
    allowed = {
        CROP + ".grow": {("results", res_t)},
        CROP + ".Sower.save_batch": {("batches", bat_t)},
        CROP + ".Crop.save_info": {(t["INFO_NM"],)},
        CROP + ".Crop.save_function_to_disk": {(t["FNCT_NM"],)},
    }
    from ..util import LOCATION_STANDIN
    for fi in m.all_funcs:
        for n, c, nm in all_calls(ctx, fi):
            if nm != CROP + ".write_to_disk":
                continue
            ctx.touch(fi)
            pa = arg(c, 1, "fname")
            need(pa is not None, "write_to_disk call without a path")
            v = ConstFold(ctx, fi, {"crop_location": LOCATION_STANDIN}, lenient=True).ev(pa)
            rel = tuple(v[len(LOCATION_STANDIN) + 1:].split("/")) if isinstance(v, str) and v.startswith(LOCATION_STANDIN + "/") else ("?",)
            if rel in allowed.get(fi.qualname, set()):
                rr.ok("%s writes %s" % (fi.qualname, "/".join(rel)))
            elif rel[0] == "results":
                rr.bad(ctx.finding(rid, fi, c, "%s writes a result file (%s): only grow() may record a batch as finished" % (fi.qualname, "/".join(rel)), construct="foreign-result-writer"), "%s writes results" % fi.qualname)
            else:
                rr.bad(ctx.finding(rid, fi, c, "%s writes %s, which is not in the reviewed writer table" % (fi.qualname, "/".join(rel)), construct="unlisted-writer " + "/".join(rel)), "%s writes" % fi.qualname)
    # the result name is a function of batch_number alone
    grow = prog.need_func(CROP + ".grow")
    wr = [c for n, c, nm in all_calls(ctx, grow) if nm == CROP + ".write_to_disk"]
    need(len(wr) == 1, "anchor lost: grow() result write")
    from ..util import assignments_to
    ok_name = False
    try:
        v7 = ConstFold(ctx, grow, {"batch_number": 7, "crop_location": LOCATION_STANDIN, "crop.location": LOCATION_STANDIN}, lenient=True).ev(arg(wr[0], 1, "fname"))
        v9 = ConstFold(ctx, grow, {"batch_number": 9, "crop_location": LOCATION_STANDIN, "crop.location": LOCATION_STANDIN}, lenient=True).ev(arg(wr[0], 1, "fname"))
        ok_name = isinstance(v7, str) and v7.endswith("/results/" + t["RSLT_NM"].format(7)) and v9.endswith("/results/" + t["RSLT_NM"].format(9))
    except AnalysisError:
        ok_name = None
    if ok_name is None:
        raise AnalysisError("idiom changed: grow() result file name does not fold")
    if ok_name and not assignments_to(grow, "batch_number"):
        rr.ok("grow(): the result name is results/RSLT_NM.format(batch_number), the batch's own id")
    else:
        rr.bad(ctx.finding(rid, grow, wr[0], "grow() does not name its result file after its own batch_number: it overwrites / records another batch's result", construct="result-name-id"), "own result name")
    # removals
    REMOVERS = {"os.remove", "os.unlink", "shutil.rmtree", "os.rmdir", "os.removedirs", "?.unlink", "?.rmdir", "shutil.move", "os.truncate"}
    ok_removers = {CROP + ".Crop.delete_all": "removes the whole crop after a reap", CROP + ".Crop.check_bad": "removes results it found unreadable / of the wrong length",
                   CROP + ".grow_cluster": "its own private submission script", CROP + ".clean_slurm_outputs": "slurm-*.out files outside the crop",
                   CROP + ".write_to_disk": "its own private temporary"}
    for fi in m.all_funcs:
        for n, c, nm in all_calls(ctx, fi):
            if nm in REMOVERS:
                if fi.qualname in ok_removers:
                    rr.ok("%s: %s (%s)" % (fi.qualname, norm(c)[:40], ok_removers[fi.qualname]))
                else:
                    rr.bad(ctx.finding(rid, fi, c, "%s removes a file (`%s`): outside delete_all / check_bad a removal makes a batch that was successfully grown count as unfinished (or a sown batch disappear)" % (fi.qualname, norm(c)[:60]), construct="foreign-remover"), "%s removes" % fi.qualname)
    return rr


def progress_rule(ctx, rid):
    rr = ctx.rule(rid, "progress queries are recomputed from disk and agree with grow on what a finished batch is", floor=7)
    prog = ctx.prog
    crop = prog.need_cls(CROP + ".Crop")
    # freshness
    for name in ("is_ready_to_reap", "missing_results", "num_sown_batches", "num_results"):
        f = crop.methods.get(name)
        need(f is not None, "anchor lost: Crop." + name)
        g = build_cfg(f.node)
        ctx.touch(f, g)
        cp = [(n, c) for n, c, nm in all_calls(ctx, f, g) if nm == CROP + ".Crop.calc_progress"]
        rets = [n for n in g.nodes if n.kind == "stmt" and isinstance(n.ast, ast.Return)]
        stale = [r for r in rets if not any(g.completes_before(n.id, r.id) for n, _ in cp)]
        if stale or not cp:
            rr.bad(ctx.finding(rid, f, stale[0].ast if stale else f.node, "%s can answer without recounting the files (`%s` is not preceded by calc_progress()): the answer goes stale when results are deleted, regrown or written by another process"
                               % (name, norm(stale[0].ast) if stale else "return"), construct="stale-progress " + name), "%s fresh" % name)
        else:
            rr.ok("%s: every return is preceded by calc_progress()" % name)
    # ready formula: evaluated on a window of (results counted, batches sown)
    from ..util import IntEval
    f = crop.methods["is_ready_to_reap"]
    bad_pt = None
    for r_ in range(-1, 5):
        for s_ in range(-1, 5):
            sym = {"self._num_results": r_, "self._num_sown_batches": s_, "self.num_sown_batches": s_, "self.num_results": r_, "self.num_batches": s_}

            def on_call(c, ev, st):
                if norm(c.func) in ("self.calc_progress",):
                    return None
                return NotImplemented
            res = IntEval(sym, on_call).run([x for x in f.node.body])
            if res[0] != "return":
                raise AnalysisError("is_ready_to_reap does not return a value on every path")
            want = (r_ > 0 and r_ == s_)
            if bool(res[1]) != want and bad_pt is None:
                bad_pt = (r_, s_, res[1], want)
    if bad_pt is None:
        rr.ok("is_ready_to_reap == (results > 0 and results == sown batches) on the window -1..4 x -1..4")
    else:
        rr.bad(ctx.finding(rid, f, f.node, "is_ready_to_reap answers %s with %d finished results and %d sown batches (expected %s): ready-to-reap must be true exactly when at least one batch exists and none is missing" % bad_pt[2:3] + bad_pt[:2] + bad_pt[3:] if False else
                           "is_ready_to_reap answers %s with %d finished results and %d sown batches (expected %s): ready-to-reap must be true exactly when at least one batch exists and none is missing" % (bad_pt[2], bad_pt[0], bad_pt[1], bad_pt[3]),
                           construct="ready-formula"), "ready formula")
    # calc_progress itself re-reads the persisted batch numbers (a Crop created before another process sowed must not answer from stale numbers)
    cp_ = crop.methods.get("calc_progress")
    need(cp_ is not None, "anchor lost: Crop.calc_progress")
    gcp = build_cfg(cp_.node)
    ctx.touch(cp_, gcp)
    syncs = [n for n, c, nm in all_calls(ctx, cp_, gcp) if nm == CROP + ".Crop._sync_info_from_disk"]
    counts = [n for n in gcp.nodes if n.kind == "stmt" and isinstance(n.ast, ast.Assign) and norm(n.ast.targets[0]) in ("self._num_results", "self._num_sown_batches") and not isinstance(n.ast.value, (ast.Constant, ast.UnaryOp))]
    need(counts, "idiom changed: calc_progress does not count results / batches")
    if syncs and all(any(gcp.completes_before(s_.id, c_.id) for s_ in syncs) for c_ in counts):
        rr.ok("calc_progress syncs the persisted batch numbers from disk before it counts")
    elif not syncs:
        rr.bad(ctx.finding(rid, cp_, cp_.node, "calc_progress no longer re-reads the crop's settings (_sync_info_from_disk): a Crop object created before the crop was (re)sown answers progress queries with stale num_batches / batchsize, e.g. missing_results() over the wrong range",
                           construct="progress-no-sync"), "progress syncs")
    else:
        raise AnalysisError("idiom changed: order of sync and counting in calc_progress")
    # grow_missing grows exactly the missing ones, with this crop
    gm = crop.methods.get("grow_missing")
    gr = crop.methods.get("grow")
    need(gm and gr, "anchor lost: Crop.grow / grow_missing")
    ctx.touch(gm), ctx.touch(gr)
    okm = False
    for n, c, nm in all_calls(ctx, gm):
        if nm == CROP + ".Crop.grow":
            v = arg(c, 0, "batch_ids")
            vx = v
            if isinstance(v, ast.Name):
                d_ = single_def(gm, v.id)
                vx = d_[1] if d_ and d_[1] is not None else v
            if vx is not None and norm(vx) == "self.missing_results()":
                okm = True
            seen_v = norm(vx) if vx is not None else None
    if okm:
        rr.ok("grow_missing grows exactly self.missing_results()")
    elif not [1 for n, c, nm in all_calls(ctx, gm) if nm == CROP + ".Crop.grow"]:
        raise AnalysisError("idiom changed: grow_missing does not call Crop.grow")
    else:
        rr.bad(ctx.finding(rid, gm, gm.node, "grow_missing does not pass exactly self.missing_results() to grow", construct="grow-missing-arg"), "grow_missing")
    okg = None
    for n, c, nm in all_calls(ctx, gr):
        if nm == "xyzpy.gen.combo_runner.combo_runner_core":
            fnarg = arg(c, 0, "fn")
            cb = arg(c, None, "combos")
            cs = arg(c, None, "constants")
            for nm_ in ("cb", "cs"):
                e_ = cb if nm_ == "cb" else cs
                if isinstance(e_, ast.Name):
                    d_ = single_def(gr, e_.id)
                    if d_ and d_[1] is not None:
                        if nm_ == "cb":
                            cb = d_[1]
                        else:
                            cs = d_[1]
            def _derives(e, depth=0):
                if "batch_ids" in names_in(e):
                    return True
                if depth < 3:
                    from ..util import assignments_to as _at
                    return any(v_ is not None and _derives(v_, depth + 1) for nm2 in names_in(e) for _, v_ in _at(gr, nm2))
                return False
            shape_ok = fnarg is not None and norm(fnarg) == "grow" and cb is not None and isinstance(cb, ast.Tuple) and len(cb.elts) == 1 and isinstance(cb.elts[0], ast.Tuple) and len(cb.elts[0].elts) == 2 \
                and isinstance(cb.elts[0].elts[0], ast.Constant) and cb.elts[0].elts[0].value == "batch_number" and cs is not None and "'crop': self" in norm(cs).replace('"', "'")
            if shape_ok and _derives(cb.elts[0].elts[1]):
                okg = True
            elif shape_ok:
                okg = False
            else:
                okg = None
    if okg:
        rr.ok("Crop.grow sweeps grow(batch_number) over exactly batch_ids with crop=self")
    elif okg is False:
        rr.bad(ctx.finding(rid, gr, gr.node, "Crop.grow no longer sweeps the module-level grow over ('batch_number', batch_ids) with crop=self", construct="crop-grow-binding"), "Crop.grow binding")
    else:
        raise AnalysisError("idiom changed: how Crop.grow hands the batch ids and itself to the enumerator")
    return rr


def listing_rule(ctx, rid):
    """Directory listings count final names and never a leftover temporary."""
    import os
    rr = ctx.rule(rid, "directory listings used for progress see finished files but no leftover temporary of the writer", floor=2)
    prog = ctx.prog
    crop_funcs = c11.crop_slice(ctx)
    writers = c11.find_writers(ctx, crop_funcs)
    need(writers, "anchor lost: crop file writer")
    listings = c11.reader_listings(ctx)
    need(len(listings) >= 2, "anchor lost: expected >= 2 directory listings of results/batches, found %d" % len(listings))
    samples = ["/scratch/.xyz-f/results/xyz-result-7.jbdmp", "/scratch/.xyz-f/batches/xyz-batch-12.jbdmp"]
    for fi, cfg, n, oc in writers:
        tmps = []
        texpr = c11.writer_tmp_expr(ctx, fi, cfg, oc)
        if texpr is not None:
            for s in samples:
                env = {p: s for p in fi.positional[1:]}
                t = ConstFold(ctx, fi, env).ev(texpr)
                need(isinstance(t, str), "the writer's temporary name did not fold to a string")
                tmps.append((s, t))
        for s in samples:
            for (lfi, lcall, sub, accepts, desc) in listings:
                if os.path.basename(os.path.dirname(s)) != sub:
                    continue
                if not accepts(os.path.basename(s)):
                    rr.bad(ctx.finding(rid, lfi, lcall, "the listing %s does not see finished files such as %r" % (desc, os.path.basename(s)), construct="listing-misses-final " + desc), "%s sees finals" % lfi.qualname)
                else:
                    rr.ok("%s: %s sees %s" % (lfi.qualname, desc, os.path.basename(s)))
        for s, t in tmps:
            for (lfi, lcall, sub, accepts, desc) in listings:
                if os.path.basename(os.path.dirname(t)) != sub:
                    continue
                if accepts(os.path.basename(t)):
                    rr.bad(ctx.finding(rid, lfi, lcall, "the listing %s counts the writer's leftover temporary %r (left behind when a grow fails while writing, e.g. an unpicklable result) as a finished file" % (desc, os.path.basename(t)),
                                       construct="listing-accepts-temporary " + desc), "%s ignores temporaries" % lfi.qualname)
                else:
                    rr.ok("%s: %s ignores %s" % (lfi.qualname, desc, os.path.basename(t)))
    return rr


def glob_escape_rule(ctx, rid):
    """Progress is counted with glob patterns built from the crop's folder: a folder name is data, not a pattern -- `[`, `]`,
    `*`, `?` in it must be escaped, or the listing finds nothing and the crop is never reported sown / grown / ready."""
    rr = ctx.rule(rid, "glob patterns over the crop's files escape the crop's own location (a folder named `run[1]` is not a character class)", floor=1)
    m = ctx.prog.modules["xyzpy.gen.cropping"]
    for fi in m.all_funcs:
        for n, c, nm in all_calls(ctx, fi):
            if nm not in ("glob.glob", "glob.iglob") or not c.args:
                continue
            locs = [x for x in ast.walk(c.args[0]) if isinstance(x, ast.Attribute) and x.attr == "location"]
            # follow a local name holding the pattern
            if not locs and isinstance(c.args[0], ast.Name):
                d = single_def(fi, c.args[0].id)
                if d is not None:
                    locs = [x for x in ast.walk(d[1]) if isinstance(x, ast.Attribute) and x.attr == "location"]
            if not locs:
                continue
            ctx.touch(fi)
            raw = [x for x in locs if not (isinstance(getattr(x, "_parent", None), ast.Call) and norm(getattr(x, "_parent").func) == "glob.escape")]
            if raw:
                rr.bad(ctx.finding(rid, fi, c, "`%s` puts the crop's folder into a glob pattern unescaped: for a crop whose path contains `[`, `]`, `*` or `?` (e.g. parent_dir='run[1]') the listing matches nothing, so sown batches and finished results are "
                                   "counted as 0 and the crop is never ready to reap although every result exists" % norm(c)[:70], construct="glob-unescaped " + fi.name), "%s escapes" % fi.name)
            else:
                rr.ok("%s: the location is escaped in `%s`" % (fi.qualname, norm(c)[:60]))
    return rr


def run(ctx):
    grow_write_rule(ctx, "C08.R1")
    writers_rule(ctx, "C08.R2")
    progress_rule(ctx, "C08.R3")
    shared.naming_rule(ctx, "C08.R4")
    listing_rule(ctx, "C08.R5")
    batching.id_universe_rule(ctx, "C08.R6")
    from . import c07
    r7 = c07.order_rule(ctx, "C08.R7")
    glob_escape_rule(ctx, "C08.R8")
    batching.missing_fresh_rule(ctx, "C08.R9")
    prog = ctx.prog
    crop = prog.need_cls(CROP + ".Crop")
    sl = [crop.methods[n] for n in ("calc_progress", "is_ready_to_reap", "missing_results", "num_sown_batches", "num_results", "grow", "grow_missing", "check_bad", "delete_all", "is_prepared", "_sync_info_from_disk", "load_info", "__str__") if n in crop.methods]
    sl += [prog.need_func(CROP + ".grow"), prog.need_func(CROP + ".write_to_disk"), prog.need_func(CROP + ".read_from_disk")]
    sl += list(crop.methods["missing_results"].nested.values())
    base_rules.run_link_rules(ctx, "C08", sl)
