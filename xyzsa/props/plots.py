"""Rules over the plotting code (C17: plot/core.py + plotter_matplotlib.py,
C18: plot/infiniplot.py)."""
import ast

from ..loader import AnalysisError, norm, walk_shallow
from ..cfg import build_cfg, node_calls
from ..flow import Flow, NONE, NOTNONE, TRUE, FALSE, TRUTHY, FALSY, TOP, const, is_const, valuations, path_key
from ..inter import Inter, InterFlow
from ..util import callee_name, all_calls, arg, need, single_def, names_in, assignments_to, sym_expand

CORE = "xyzpy.plot.core"
MPL = "xyzpy.plot.plotter_matplotlib"
INF = "xyzpy.plot.infiniplot"


# ------------------------------------------------------------------ provenance
def roles_of(expr, fi, role_words, depth=0, seen=None):
    """Which role attributes (self.x_coo, self.y, data['x'] ...) the *values*
    of an expression derive from.  Index / mask expressions do not count;
    local definitions (all of them) and zip-unpacking loop targets are
    followed."""
    seen = seen or frozenset()
    if expr is None or depth > 10:
        return set()
    e = expr
    if isinstance(e, ast.Attribute):
        if isinstance(e.value, ast.Name) and e.value.id == "self" and e.attr in role_words:
            return {e.attr}
        return roles_of(e.value, fi, role_words, depth + 1, seen)
    if isinstance(e, ast.Subscript):
        s = e.slice
        if isinstance(s, ast.Attribute) and isinstance(s.value, ast.Name) and s.value.id == "self" and s.attr in role_words:
            return {s.attr}
        if isinstance(s, ast.Constant) and isinstance(s.value, str) and s.value in role_words:
            return {s.value}
        if isinstance(s, ast.Name):
            r = roles_of(s, fi, role_words, depth + 1, seen)
            # ds[z] with z a loop variable over names: selection by a (dynamic) variable name
            if isinstance(e.value, ast.Attribute) and norm(e.value) in ("self._ds", "self.ds") and not r:
                return {None}
        return roles_of(e.value, fi, role_words, depth + 1, seen)
    if isinstance(e, ast.Call):
        f = e.func
        if isinstance(f, ast.Attribute) and f.attr == "get" and e.args and isinstance(e.args[0], ast.Constant) and e.args[0].value in role_words:
            return {e.args[0].value}
        out = set()
        if isinstance(f, ast.Attribute):
            out |= roles_of(f.value, fi, role_words, depth + 1, seen)
            if norm(f.value) in ("np", "numpy", "ma", "np.ma", "xr"):
                for a in e.args[:1]:
                    out |= roles_of(a, fi, role_words, depth + 1, seen)
        elif isinstance(f, ast.Name) and f.id in ("abs", "list", "tuple", "iter", "float"):
            for a in e.args[:1]:
                out |= roles_of(a, fi, role_words, depth + 1, seen)
        elif isinstance(f, ast.Name) and f.id in getattr(fi.module, "funcs", {}):
            # a module-level helper of the same file: its result derives from its arguments
            for a in e.args:
                out |= roles_of(a, fi, role_words, depth + 1, seen)
        return out
    if isinstance(e, ast.BinOp):
        return roles_of(e.left, fi, role_words, depth + 1, seen) | roles_of(e.right, fi, role_words, depth + 1, seen)
    if isinstance(e, ast.UnaryOp):
        return roles_of(e.operand, fi, role_words, depth + 1, seen)
    if isinstance(e, (ast.List, ast.Tuple)):
        out = set()
        for x in e.elts:
            out |= roles_of(x, fi, role_words, depth + 1, seen)
        return out
    if isinstance(e, ast.Name):
        if e.id in seen:
            return set()
        seen2 = seen | {e.id}
        f = fi
        while f is not None:
            out = set()
            found = False
            for n in walk_shallow(f.node):
                if isinstance(n, ast.Assign):
                    for t in n.targets:
                        if isinstance(t, ast.Name) and t.id == e.id:
                            found = True
                            out |= roles_of(n.value, f, role_words, depth + 1, seen2)
                        elif isinstance(t, (ast.Tuple, ast.List)):
                            for i, el in enumerate(t.elts):
                                if isinstance(el, ast.Name) and el.id == e.id:
                                    found = True
                                    v = n.value
                                    if isinstance(v, (ast.Tuple, ast.List)) and len(v.elts) == len(t.elts):
                                        out |= roles_of(v.elts[i], f, role_words, depth + 1, seen2)
                                    elif isinstance(v, ast.Call) and isinstance(v.func, ast.Name) and v.func.id == "zip" and len(v.args) == 1 and isinstance(v.args[0], ast.Starred):
                                        # xs, ... = zip(*gen()) : i-th component of what the generator yields
                                        gen_call = v.args[0].value
                                        gfi = None
                                        if isinstance(gen_call, ast.Call) and isinstance(gen_call.func, ast.Name) and gen_call.func.id in f.nested:
                                            gfi = f.nested[gen_call.func.id]
                                        elif isinstance(gen_call, ast.Call) and isinstance(gen_call.func, ast.Attribute) and norm(gen_call.func.value) == "self" and f.cls is not None:
                                            gfi = _method_of(f, gen_call.func.attr)
                                        if gfi is None:
                                            raise AnalysisError("idiom changed: `%s` unpacks what `%s` generates, which the analysis cannot follow" % (norm(n)[:50], norm(gen_call)[:40]))
                                        for y in ast.walk(gfi.node):
                                            if not isinstance(y, ast.Yield):
                                                continue
                                            comp = _yield_component(gfi, y.value, i)
                                            out |= roles_of(comp, gfi, role_words, depth + 1, seen2)
                elif isinstance(n, ast.AugAssign) and isinstance(n.target, ast.Name) and n.target.id == e.id:
                    pass      # masks / accumulations do not change provenance of the values
                elif isinstance(n, (ast.For, ast.comprehension)):
                    tg = n.target
                    it = n.iter
                    if isinstance(tg, ast.Name) and tg.id == e.id:
                        found = True
                        out |= roles_of(it, f, role_words, depth + 1, seen2)
                    elif isinstance(tg, (ast.Tuple, ast.List)):
                        for i, el in enumerate(tg.elts):
                            if isinstance(el, ast.Name) and el.id == e.id:
                                found = True
                                if isinstance(it, ast.Call) and isinstance(it.func, ast.Name) and it.func.id == "zip" and i < len(it.args):
                                    out |= roles_of(it.args[i], f, role_words, depth + 1, seen2)
                                elif isinstance(it, ast.Call) and isinstance(it.func, ast.Name) and it.func.id == "enumerate" and i == 1:
                                    out |= roles_of(it.args[0], f, role_words, depth + 1, seen2)
            if found:
                return out
            f = f.parent
        return set()
    if isinstance(e, ast.IfExp):
        return roles_of(e.body, fi, role_words, depth + 1, seen) | roles_of(e.orelse, fi, role_words, depth + 1, seen)
    return set()


def _method_of(f, name):
    """The method `name` of f's class or of one of its bases in the analysed program."""
    return f.cls.find_method(name) if f.cls is not None else None


def _yield_component(gfi, yv, i):
    """The i-th component of a yielded record: a tuple display, or a call of a namedtuple defined at module
    level (positional or by field name)."""
    if isinstance(yv, ast.Tuple):
        if i < len(yv.elts) and not any(isinstance(x, ast.Starred) for x in yv.elts):
            return yv.elts[i]
        raise AnalysisError("idiom changed: yielded record `%s` has no component %d" % (norm(yv)[:50], i))
    if isinstance(yv, ast.Call) and isinstance(yv.func, ast.Name):
        fields = None
        for st in gfi.module.tree.body:
            if isinstance(st, ast.Assign) and len(st.targets) == 1 and norm(st.targets[0]) == yv.func.id and isinstance(st.value, ast.Call) \
                    and norm(st.value.func) in ("collections.namedtuple", "namedtuple") and len(st.value.args) == 2:
                fa = st.value.args[1]
                if isinstance(fa, (ast.Tuple, ast.List)) and all(isinstance(x, ast.Constant) and isinstance(x.value, str) for x in fa.elts):
                    fields = [x.value for x in fa.elts]
                elif isinstance(fa, ast.Constant) and isinstance(fa.value, str):
                    fields = fa.value.replace(",", " ").split()
        if fields is not None and i < len(fields) and not any(isinstance(a, ast.Starred) for a in yv.args) and not any(k.arg is None for k in yv.keywords):
            if i < len(yv.args):
                return yv.args[i]
            for k in yv.keywords:
                if k.arg == fields[i]:
                    return k.value
    raise AnalysisError("idiom changed: yielded record `%s` is neither a tuple display nor a module-level namedtuple" % norm(yv)[:60])


# ------------------------------------------------------------------ taint
VIEW_ATTRS = {"values", "data", "T", "real", "imag"}
VIEW_CALLS = {"squeeze", "transpose", "reshape", "ravel", "view", "swapaxes", "asarray", "asanyarray", "broadcast", "broadcast_to", "atleast_1d", "atleast_2d", "load", "compute"}
FRESH_CALLS = {"copy", "flatten", "astype", "isnull", "notnull", "isfinite", "isnan", "array", "empty", "zeros", "ones", "full", "stack", "concatenate", "append",
               "mean", "std", "sum", "min", "max", "median", "quantile", "sel", "isel", "drop_vars", "drop_dims", "dropna", "to_dataset", "to_array", "masked_invalid",
               "linspace", "arange", "histogram", "abs", "sqrt", "where", "stack", "unstack", "expand_dims", "rename", "assign_coords", "apply_ufunc", "interp", "fillna",
               "tolist", "item", "unique", "sorted", "list", "tuple", "dict", "len", "str", "float", "int", "bool", "normal", "random", "rand", "choice"}
MUTATORS = {"sort", "fill", "resize", "partition", "put", "itemset", "setflags", "byteswap", "update", "clear", "pop", "popitem", "setdefault", "drop", "__setitem__", "assign_attrs"}


def tainted_names(fi, sources):
    """Names in fi that may alias (a view of) the caller's dataset."""
    tainted = set(s for s in sources if "." not in s)

    def is_tainted(e):
        if isinstance(e, ast.Name):
            return e.id in tainted
        k = path_key(e)
        if k is not None and any(k == s or k.startswith(s + ".") for s in sources):
            # self._ds.<attr>: views only through VIEW_ATTRS / plain alias
            return True
        if isinstance(e, ast.Attribute):
            return e.attr in VIEW_ATTRS | {"loc", "iloc", "coords", "attrs", "data_vars", "variables"} and is_tainted(e.value) or (is_tainted(e.value) and e.attr not in FRESH_CALLS)
        if isinstance(e, ast.Subscript):
            if not is_tainted(e.value):
                return False
            # boolean / fancy indexing copies; basic indexing (names, ints, slices, dict of labels) is a view
            s = e.slice
            if isinstance(s, ast.Name) and ("mask" in s.id or "null" in s.id or s.id.startswith("is")):
                return False
            if isinstance(s, ast.Call):
                return False
            return True
        if isinstance(e, ast.Call):
            f = e.func
            if isinstance(f, ast.Attribute):
                if f.attr in VIEW_CALLS:
                    return is_tainted(f.value) or any(is_tainted(a) for a in e.args)
                return False
            if isinstance(f, ast.Name) and f.id in ("iter", "zip", "enumerate", "reversed"):
                return any(is_tainted(a) for a in e.args)
            return False
        if isinstance(e, ast.IfExp):
            return is_tainted(e.body) or is_tainted(e.orelse)
        if isinstance(e, (ast.Tuple, ast.List)):
            return any(is_tainted(x) for x in e.elts)
        return False
    changed = True
    rounds = 0
    while changed and rounds < 10:
        changed = False
        rounds += 1
        for n in walk_shallow(fi.node):
            if isinstance(n, ast.Assign) and len(n.targets) == 1 and isinstance(n.targets[0], ast.Name):
                if n.targets[0].id not in tainted and is_tainted(n.value):
                    tainted.add(n.targets[0].id)
                    changed = True
            elif isinstance(n, ast.For):
                if is_tainted(n.iter):
                    for nm in names_in(n.target):
                        if nm not in tainted:
                            tainted.add(nm)
                            changed = True
            elif isinstance(n, ast.withitem) and n.optional_vars is not None and is_tainted(n.context_expr):
                for nm in names_in(n.optional_vars):
                    if nm not in tainted:
                        tainted.add(nm)
                        changed = True
    return tainted, is_tainted


def no_mutation_rule(ctx, rid, funcs, sources_for):
    rr = ctx.rule(rid, "the dataset passed in (and views of its arrays) is never modified", floor=1)
    for fi in funcs:
        src = sources_for(fi)
        if not src:
            continue
        ctx.touch(fi)
        tainted, is_t = tainted_names(fi, src)
        hits = []
        for n in walk_shallow(fi.node):
            if isinstance(n, (ast.Assign, ast.AugAssign, ast.Delete)):
                tgts = n.targets if isinstance(n, (ast.Assign, ast.Delete)) else [n.target]
                for t in tgts:
                    for tt in (t.elts if isinstance(t, (ast.Tuple, ast.List)) else [t]):
                        if isinstance(tt, ast.Subscript) and is_t(tt.value):
                            hits.append((n, "stores into `%s`" % norm(tt.value)))
                        elif isinstance(tt, ast.Attribute) and is_t(tt.value) and not (isinstance(tt.value, ast.Name) and tt.value.id == "self"):
                            hits.append((n, "sets `%s`" % norm(tt)))
                        elif isinstance(n, ast.AugAssign) and isinstance(tt, ast.Name) and tt.id in tainted:
                            hits.append((n, "updates `%s` in place" % tt.id))
            elif isinstance(n, ast.Call):
                f = n.func
                if isinstance(f, ast.Attribute) and f.attr in MUTATORS and is_t(f.value):
                    hits.append((n, "calls the in-place method `%s` on `%s`" % (f.attr, norm(f.value))))
                for k in n.keywords:
                    if k.arg == "inplace" and isinstance(k.value, ast.Constant) and k.value.value is True and isinstance(f, ast.Attribute) and is_t(f.value):
                        hits.append((n, "uses inplace=True on `%s`" % norm(f.value)))
                    if k.arg == "out" and is_t(k.value):
                        hits.append((n, "writes its result into `%s`" % norm(k.value)))
        if hits:
            for n, why in hits:
                rr.bad(ctx.finding(rid, fi, n, "`%s` %s, which may be (a view of) the dataset handed in by the caller: plotting modifies the user's data" % (norm(n)[:70], why), construct="mutates-input " + norm(n)[:60]), "%s no mutation" % fi.qualname)
        else:
            rr.ok("%s: no store / in-place operation on %s or views of it" % (fi.qualname, sorted(src)))
    return rr


# ------------------------------------------------------------------ definite keys (colorbar contract)
class KeyFlow(InterFlow):
    def test_compare(self, e, env):
        if len(e.ops) == 1 and isinstance(e.ops[0], (ast.In, ast.NotIn)):
            l = self.eval(e.left, env)
            r = self.eval(e.comparators[0], env)
            if is_const(l) and isinstance(r, tuple) and r and r[0] == "dictlit":
                res = l[1] in dict(r[1])
                return res if isinstance(e.ops[0], ast.In) else not res
        return super().test_compare(e, env)


def _dl_join(a, b):
    from ..inter import join_any
    if isinstance(a, tuple) and isinstance(b, tuple) and a and b and a[0] == "dictlit" and b[0] == "dictlit":
        da, db = dict(a[1]), dict(b[1])
        return ("dictlit", tuple((k, da[k] if da[k] == db[k] else TOP) for k in da if k in db))
    return join_any(a, b)


KeyFlow.join = staticmethod(_dl_join)


class KeyInter(Inter):
    def flow(self, fi, val):
        fl = KeyFlow(self, fi, val)
        fl.run()
        self.ctx.touch(fi, fl.cfg)
        return fl

    def resolve(self, fi, call):
        return None


def colorbar_contract_rule(ctx, rid):
    """Figure.colorbar(mappable) with a ScalarMappable that is attached to no
    axes needs ax= or cax= (matplotlib raises ValueError otherwise)."""
    rr = ctx.rule(rid, "every Figure.colorbar call for a free-standing ScalarMappable definitely passes ax or cax", floor=4)
    f = ctx.prog.need_func(MPL + ".PlotterMatplotlib.plot_colorbar")
    sm = ctx.prog.need_func(MPL + ".PlotterMatplotlib.set_mappable")
    free = "ScalarMappable(" in " ".join(norm(s) for s in sm.node.body)
    need(free, "idiom changed: set_mappable no longer builds a free-standing ScalarMappable")
    for val in valuations({"grid": [TRUE, FALSE], "self.colorbar_relative_position": [TRUTHY, FALSY], "self._use_colorbar": [TRUTHY]}):
        inter = KeyInter(ctx, None, track=None)
        fl = inter.flow(f, val)
        vt = "grid=%s, colorbar_relative_position %s" % (val["grid"][1], "given" if val["self.colorbar_relative_position"] == TRUTHY else "not given")
        calls = [(n, c) for n in fl.cfg.nodes if n.id in fl.visited for c in node_calls(n) if isinstance(c.func, ast.Attribute) and c.func.attr == "colorbar"]
        need(calls, "anchor lost: plot_colorbar no longer calls colorbar (%s)" % vt)
        for n, c in calls:
            env = fl.IN[n.id]
            keys = {k.arg for k in c.keywords if k.arg}
            for k in c.keywords:
                if k.arg is None:
                    v = fl.eval(k.value, env.copy())
                    if isinstance(v, tuple) and v and v[0] == "dictlit":
                        keys |= set(dict(v[1]))
            if keys & {"ax", "cax"}:
                rr.ok("colorbar(%s): definitely passes %s" % (vt, sorted(keys & {"ax", "cax"})))
            else:
                rr.bad(ctx.finding(rid, f, c, "with %s, Figure.colorbar is called for the free-standing ScalarMappable without `ax` or `cax` (definite keys: %s): matplotlib raises ValueError, so every plot that shows a colour bar on this path fails" % (vt, sorted(keys)),
                                   construct="colorbar-no-axes", path=vt), "colorbar %s" % vt)
    return rr


# ------------------------------------------------------------------ C17 data rules
def _once_per_iteration(g, H, nodes):
    """'once' | 'never' | 'skippable' | 'repeated': how often the loop body
    headed by H passes through one of `nodes` per iteration (exception edges
    are not followed)."""
    if not nodes:
        return "never"
    it = [b for b, l in g.succ[H.id] if l == "iter"][0]
    ids = {n.id for n in nodes}
    if it not in ids and H.id in (g.reachable(start=it, blocked_nodes=list(ids), skip_labels=("exc",)) | {it}):
        return "skippable"
    for a in nodes:
        for b, l in g.succ[a.id]:
            if l == "exc":
                continue
            r = g.reachable(start=b, blocked_nodes=[H.id], skip_labels=("exc",)) | {b}
            if any(x in r for x in ids):
                return "repeated"
    return "once"


def _family(method, gen):
    """gen plus the sibling closures (defined in the same method) that gen calls by name"""
    fam = [gen]
    for c in walk_shallow(gen.node):
        if isinstance(c, ast.Call) and isinstance(c.func, ast.Name) and c.func.id in method.nested and method.nested[c.func.id] not in fam:
            fam.append(method.nested[c.func.id])
    return fam


def _rvals_name(cl):
    """the local of calc_line_colors that holds the normalised values: what the colour map is applied to, element by element"""
    out = set()
    for n in walk_shallow(cl.node):
        if isinstance(n, (ast.GeneratorExp, ast.ListComp)) and len(n.generators) == 1 and isinstance(n.elt, ast.Call) and norm(n.elt.func) == "self.cmap" and isinstance(n.generators[0].iter, ast.Name):
            out.add(n.generators[0].iter.id)
    need(len(out) == 1, "anchor lost: the normalised values the colour map is applied to in calc_line_colors")
    return out.pop()


def _mask_terms(fi, stmts, container):
    """A point mask built as a conjunction of np.isfinite(<container>[k]) terms, possibly over several statements
    (`m = ...`, `m &= ...`).  -> (set of keys k, None) or (None, (node, why)) when a recognised-wrong term is met;
    AnalysisError for anything else."""
    keys = set()

    def key_of(e):
        if isinstance(e, ast.Name):
            d = single_def(fi, e.id)
            if d is not None and isinstance(d[1], ast.Subscript) and norm(d[1].value) == container:
                return key_of(d[1])
        if isinstance(e, ast.Subscript) and norm(e.value) == container and isinstance(e.slice, ast.Constant):
            return e.slice.value
        if isinstance(e, ast.Subscript) and norm(e.value) == container and isinstance(e.slice, ast.Name):
            # a key variable looping over a literal tuple of keys
            for p_ in _parents(e):
                if isinstance(p_, ast.For) and norm(p_.target) == e.slice.id and isinstance(p_.iter, (ast.Tuple, ast.List)) and all(isinstance(x, ast.Constant) for x in p_.iter.elts):
                    return tuple(x.value for x in p_.iter.elts)
        if isinstance(e, ast.Name):
            return e.id
        raise AnalysisError("idiom changed: mask term over `%s`" % norm(e)[:50])

    def conj(e):
        if isinstance(e, ast.BinOp) and isinstance(e.op, ast.BitAnd):
            return conj(e.left) or conj(e.right)
        if isinstance(e, ast.BinOp) and isinstance(e.op, ast.BitOr):
            return (e, "`|` keeps points with one finite coordinate")
        if isinstance(e, ast.Call) and norm(e.func) in ("np.logical_and", "numpy.logical_and") and len(e.args) == 2:
            return conj(e.args[0]) or conj(e.args[1])
        if isinstance(e, ast.Call) and norm(e.func) in ("np.logical_or", "numpy.logical_or"):
            return (e, "logical_or keeps points with one finite coordinate")
        if isinstance(e, ast.Call) and norm(e.func) in ("np.isfinite", "numpy.isfinite") and len(e.args) == 1:
            a_ = e.args[0]
            if isinstance(a_, ast.BinOp) and isinstance(a_.op, (ast.Add, ast.Sub, ast.Mult)) and all(
                    isinstance(x_, ast.Subscript) and norm(x_.value) == container for x_ in (a_.left, a_.right)):
                # finite operands can overflow their dtype (float16 > 65504, float32 ~ 3e38, float64 ~ 1e308): such genuine pairs are dropped
                return (e, "isfinite of `%s` drops pairs whose members are finite but whose combination overflows the dtype" % norm(a_)[:40])
            k_ = key_of(e.args[0])
            keys.update(k_ if isinstance(k_, tuple) else (k_,))
            return None
        if isinstance(e, ast.UnaryOp) and isinstance(e.op, ast.Invert) and isinstance(e.operand, ast.Call):
            fn = norm(e.operand.func)
            if fn in ("np.isnan", "numpy.isnan", "pd.isnull", "pd.isna"):
                return (e, "~isnan keeps infinite values")
            if fn in ("np.isfinite", "numpy.isfinite"):
                return (e, "the mask selects the NON-finite points")
        if isinstance(e, ast.Call) and norm(e.func) in ("np.isnan", "numpy.isnan", "np.isinf"):
            return (e, "the mask selects the non-finite points")
        raise AnalysisError("idiom changed: mask term `%s`" % norm(e)[:60])
    for st in stmts:
        if isinstance(st, ast.Assign):
            keys.clear()
            w = conj(st.value)
        elif isinstance(st, ast.AugAssign) and isinstance(st.op, ast.BitAnd):
            w = conj(st.value)
        elif isinstance(st, ast.AugAssign) and isinstance(st.op, ast.BitOr):
            w = (st, "`|=` keeps points with one finite coordinate")
        else:
            raise AnalysisError("idiom changed: mask statement `%s`" % norm(st)[:60])
        if w:
            return None, w
    return set(keys), None


def c17_data_rules(ctx, rid_roles, rid_mask, rid_lock, rid_color):
    prog = ctx.prog
    P = prog.need_cls(CORE + ".Plotter")
    # ---- roles: das[...] slots and draw sinks
    rr = ctx.rule(rid_roles, "role agreement: x / y / error / colour names reach the matching slot of the draw calls; heat map transposed by name", floor=8)
    pl = P.methods.get("prepare_xy_vals_lineplot")
    need(pl is not None, "anchor lost: prepare_xy_vals_lineplot")
    gen = pl.nested.get("gen_xy")
    need(gen is not None, "anchor lost: gen_xy")
    ctx.touch(gen)
    # canonical role names: the yielded mapping is `data`, the mapping handed to xr.broadcast is `das`
    ylds_ = [n.value.value for n in walk_shallow(gen.node) if isinstance(n, ast.Expr) and isinstance(n.value, ast.Yield) and isinstance(n.value.value, ast.Name)]
    if len({y.id for y in ylds_}) == 1:
        _role_rename(gen, ylds_[0].id, "data")
    bc_ = {x.args[0].value.func.value.id for x in ast.walk(gen.node) if isinstance(x, ast.Call) and norm(x.func).endswith("broadcast") and len(x.args) == 1 and isinstance(x.args[0], ast.Starred)
           and isinstance(x.args[0].value, ast.Call) and isinstance(x.args[0].value.func, ast.Attribute) and x.args[0].value.func.attr == "values" and isinstance(x.args[0].value.func.value, ast.Name)}
    if len(bc_) == 1:
        _role_rename(gen, bc_.pop(), "das")
    slot = {"x": {"x_coo"}, "y": {"y_coo", None}, "c": {"c_coo"}, "ye": {"y_err"}, "xe": {"x_err"}}
    fam = _family(pl, gen)
    for h_ in fam:
        ctx.touch(h_)
    zvar = None
    for lp0 in walk_shallow(gen.node):
        if isinstance(lp0, ast.For) and "self._z_vals" in norm(lp0.iter):
            tg0 = lp0.target
            zvar = (tg0.elts[-1] if isinstance(tg0, ast.Tuple) else tg0).id
    need(zvar is not None, "anchor lost: series loop in gen_xy")
    seen_slots = set()
    for h_ in fam:
        pairs = []
        for n in walk_shallow(h_.node):
            if isinstance(n, ast.Assign) and isinstance(n.targets[0], ast.Subscript) and isinstance(n.targets[0].value, ast.Name) and isinstance(n.targets[0].slice, ast.Constant) \
                    and (n.targets[0].value.id == "das" or (h_ is not gen and n.targets[0].value.id in h_.params)):
                pairs.append((n, n.targets[0].slice.value, n.value))
            elif isinstance(n, ast.Assign) and isinstance(n.targets[0], ast.Name) and isinstance(n.value, ast.Dict) and n.value.keys and all(isinstance(k, ast.Constant) and k.value in slot for k in n.value.keys) \
                    and all(isinstance(v_, ast.Subscript) for v_ in n.value.values):
                for k, v_ in zip(n.value.keys, n.value.values):
                    pairs.append((n, k.value, v_))
        for n, k, v in pairs:
            sel = "?"
            if isinstance(v, ast.Subscript):
                sl = v.slice
                sel = sl.attr if isinstance(sl, ast.Attribute) and norm(sl.value) == "self" else (None if isinstance(sl, ast.Name) and sl.id == zvar else "?")
            if k in slot and sel in slot[k] and not (sel is None and k != "y"):
                seen_slots.add(k)
                rr.ok("%s[%r] <- %s" % (norm(n.targets[0].value) if isinstance(n.targets[0], ast.Subscript) else norm(n.targets[0]), k, norm(v)), "das|%s|%s" % (k, norm(v)))
            elif k in slot and sel != "?":
                rr.bad(ctx.finding(rid_roles, h_, n, "the %r series is taken from `%s`: the drawn %s values are another variable's" % (k, norm(v), k), construct="slot %s <- %s" % (k, norm(v))), "slot %s" % k)
            elif k in slot:
                raise AnalysisError("idiom changed: the %r series is `%s`" % (k, norm(v)[:50]))
    if not rr.findings:
        need(seen_slots == set(slot), "anchor lost: series slots found %s" % sorted(seen_slots))
    sinks = [
        (MPL + ".LinePlot.plot_lines", "plot", {0: "x", 1: "y"}, {}),
        (MPL + ".LinePlot.plot_lines", "errorbar", {0: "x", 1: "y"}, {"yerr": "ye", "xerr": "xe"}),
        (MPL + ".Scatter.plot_scatter", "scatter", {0: "x", 1: "y"}, {}),
        (MPL + ".Histogram.plot_histogram", "hist", {0: "x"}, {}),
    ]
    slot_words = set(slot)
    for q, meth, pos, kw in sinks:
        f = prog.func(q)
        if f is None:
            raise AnalysisError("anchor lost: %s" % q)
        ctx.touch(f)
        calls = [c for c in walk_shallow(f.node) if isinstance(c, ast.Call) and isinstance(c.func, ast.Attribute) and c.func.attr == meth and norm(c.func.value) in ("self._axes", "ax")]
        need(calls, "anchor lost: %s.%s call" % (q, meth))
        for c in calls:
            okc = True
            for i, role in pos.items():
                got = roles_of(c.args[i], f, slot_words) if i < len(c.args) else set()
                if got != {role}:
                    rr.bad(ctx.finding(rid_roles, f, c, "%s(...) receives %s data in its %s slot" % (meth, sorted(got) or "no tracked", role), construct="sink %s arg%d" % (meth, i)), "%s slot %d" % (meth, i))
                    okc = False
            for kname, role in kw.items():
                v = arg(c, None, kname)
                if v is None:
                    v = _splat_value(f, c, kname)
                if v is None and any(k_.arg is None for k_ in c.keywords) and not any(k_.arg == kname for k_ in c.keywords):
                    raise AnalysisError("idiom changed: %s(%s=...) is passed through a keyword mapping that is not a local dict literal" % (meth, kname))
                got = roles_of(v, f, slot_words) if v is not None else set()
                if got != {role}:
                    rr.bad(ctx.finding(rid_roles, f, c, "%s(%s=...) receives %s data" % (meth, kname, sorted(got) or "no tracked"), construct="sink %s %s" % (meth, kname)), "%s %s" % (meth, kname))
                    okc = False
            if okc:
                rr.ok("%s: %s(%s)" % (f.name, meth, ", ".join("%s<-%s" % (i, r) for i, r in list(pos.items()) + list(kw.items()))))
    # heat map: (y, x) orientation by *name*
    hm = P.methods.get("prepare_heatmap_data")
    need(hm is not None, "anchor lost: prepare_heatmap_data")
    ctx.touch(hm)
    g = build_cfg(hm.node)
    fl = Flow(g, {"grid": FALSE}).run()
    st = [n for n in g.nodes if n.id in fl.visited and n.kind == "stmt" and isinstance(n.ast, ast.Assign) and norm(n.ast.targets[0]) == "self._heatmap_var"]
    need(len(st) == 1, "idiom changed: _heatmap_var assignment")
    # every definition feeding the heat-map array carries an unconditional transpose(self.y_coo, self.x_coo)
    def has_tr(e, depth=0):
        for c in ast.walk(e):
            if isinstance(c, ast.Call) and isinstance(c.func, ast.Attribute) and c.func.attr == "transpose" and [norm(a) for a in c.args] == ["self.y_coo", "self.x_coo"]:
                return True
        for nm in names_in(e):
            defs = [(nd, v) for nd, v in assignments_to(hm, nm, g) if v is not None]
            if defs and depth < 4:
                if all(has_tr(v, depth + 1) for nd, v in defs):
                    return True
        return False
    if has_tr(st[0].ast.value) and "self.z_coo" in norm(st[0].ast.value) + "".join(norm(v) for nm in names_in(st[0].ast.value) for _, v in assignments_to(hm, nm, g) if v is not None):
        rr.ok("heat map array = ds[z].transpose(y, x) by dimension name on every path")
    else:
        rr.bad(ctx.finding(rid_roles, hm, st[0].ast, "the heat-map array is not transposed to (y, x) by dimension *name* on every path (e.g. decided from its shape): for a square mesh stored as (x, y) the map is drawn transposed", construct="heatmap-transpose"), "heatmap orientation")
    xy = {norm(n.ast.targets[0]): norm(n.ast.value) for n in g.nodes if n.kind == "stmt" and isinstance(n.ast, ast.Assign) and norm(n.ast.targets[0]) in ("self._heatmap_x", "self._heatmap_y")}
    if "self.x_coo" in xy.get("self._heatmap_x", "") and "self.y_coo" in xy.get("self._heatmap_y", ""):
        rr.ok("heat map mesh: _heatmap_x <- x_coo, _heatmap_y <- y_coo")
    else:
        rr.bad(ctx.finding(rid_roles, hm, hm.node, "the heat-map mesh coordinates are not (x_coo, y_coo): %s" % xy, construct="heatmap-mesh"), "heatmap mesh")
    ph = prog.func(MPL + ".HeatMap.plot_heatmap")
    need(ph is not None, "anchor lost: HeatMap.plot_heatmap")
    ctx.touch(ph)
    hw = {"_heatmap_x", "_heatmap_y", "_heatmap_var"}
    pcs = [c for c in walk_shallow(ph.node) if isinstance(c, ast.Call) and len(c.args) >= 3 and roles_of(c.args[2], ph, hw) == {"_heatmap_var"}]
    need(pcs, "anchor lost: heat-map draw call")
    got = [sorted(roles_of(a, ph, hw)) for a in pcs[0].args[:3]]
    if got == [["_heatmap_x"], ["_heatmap_y"], ["_heatmap_var"]]:
        rr.ok("heat-map draw call: (X <- _heatmap_x, Y <- _heatmap_y, C <- _heatmap_var)")
    else:
        rr.bad(ctx.finding(rid_roles, ph, pcs[0], "the heat-map draw call receives %s" % got, construct="pcolormesh-args"), "pcolormesh")

    # ---- mask
    rm = ctx.rule(rid_mask, "each series is filtered by exactly isfinite(x) & isfinite(y); histograms by isfinite(x)", floor=4)
    # the mask variable = the subscript with which data['x'] is filtered
    fx = [n for n in walk_shallow(gen.node) if isinstance(n, ast.Assign) and isinstance(n.targets[0], ast.Subscript) and norm(n.targets[0].value) == "data" and isinstance(n.value, ast.Subscript)
          and norm(n.value.value) == norm(n.targets[0]) and isinstance(n.value.slice, ast.Name)]
    loop_filter = [lp_ for lp_ in walk_shallow(gen.node) if isinstance(lp_, ast.For) and isinstance(lp_.target, ast.Name) and len(lp_.body) == 1 and isinstance(lp_.body[0], ast.Assign)
                   and norm(lp_.body[0].targets[0]) == "data[%s]" % lp_.target.id and isinstance(lp_.body[0].value, ast.Subscript) and norm(lp_.body[0].value.value) == "data[%s]" % lp_.target.id
                   and isinstance(lp_.body[0].value.slice, ast.Name) and norm(lp_.iter) in ("data", "list(data)", "tuple(data)", "data.keys()", "list(data.keys())")]
    mnames = {n.value.slice.id for n in fx} | {lp_.body[0].value.slice.id for lp_ in loop_filter}
    if not mnames:
        rm.bad(ctx.finding(rid_mask, gen, gen.node, "no yielded array is filtered by a point mask: non-finite points are drawn / passed on", construct="mask-application"), "mask application")
        mname = None
    else:
        need(len(mnames) == 1, "idiom changed: several point masks in gen_xy (%s)" % sorted(mnames))
        mname = mnames.pop()
    if mname is not None:
        masks = sorted((n for n in walk_shallow(gen.node) if isinstance(n, (ast.Assign, ast.AugAssign)) and norm(n.targets[0] if isinstance(n, ast.Assign) else n.target) == mname), key=lambda n: n.lineno)
        need(masks and isinstance(masks[0], ast.Assign), "idiom changed: definition of the point mask `%s`" % mname)
        terms, wrong = _mask_terms(gen, masks, "data")
        if wrong:
            rm.bad(ctx.finding(rid_mask, gen, wrong[0], "the point mask is built with `%s` (%s), not exactly isfinite(x) & isfinite(y): points whose (x, y) are both finite are dropped, or non-finite ones kept" % (norm(wrong[0])[:60], wrong[1]), construct="mask-definition"), "mask definition")
        elif terms == {"x", "y"}:
            rm.ok("mask = isfinite(x) & isfinite(y), nothing else")
        else:
            rm.bad(ctx.finding(rid_mask, gen, masks[-1], "the point mask requires finiteness of %s, not exactly of x and y: %s" % (sorted(terms), "points with a non-finite coordinate are kept" if not {"x", "y"} <= terms else "points whose (x, y) are both finite are dropped"), construct="mask-definition"), "mask definition")
        if loop_filter:
            rm.ok("every yielded array is filtered with the same mask (loop over data)")
        else:
            filt = {n.targets[0].slice.value for n in fx if isinstance(n.targets[0].slice, ast.Constant)}
            for n in fx:
                if isinstance(n.targets[0].slice, ast.Name):
                    for p_ in _parents(n):
                        if isinstance(p_, ast.For) and norm(p_.target) == n.targets[0].slice.id and isinstance(p_.iter, (ast.Tuple, ast.List)) and all(isinstance(x, ast.Constant) for x in p_.iter.elts):
                            filt |= {x.value for x in p_.iter.elts}
            present = set(seen_slots)
            need(present >= {"x", "y"}, "anchor lost: das[...] assignments in gen_xy")
            if filt >= present:
                rm.ok("%s are all filtered with the same mask" % ", ".join(sorted(present)))
            else:
                rm.bad(ctx.finding(rid_mask, gen, gen.node, "not every yielded array is filtered by the point mask (filtered: %s, yielded: %s): series components get out of step" % (sorted(filt), sorted(present)), construct="mask-application"), "mask application")
    # the per-series arrays are aligned by dimension name (xr.broadcast) before they are flattened
    fills = [lp_ for lp_ in walk_shallow(gen.node) if isinstance(lp_, ast.For) and any(isinstance(st, ast.Assign) and isinstance(st.targets[0], ast.Subscript) and norm(st.targets[0].value) == "data" for st in ast.walk(lp_))
             and "das" in norm(lp_.iter)]
    comps = [n.value.generators[0] for n in walk_shallow(gen.node) if isinstance(n, ast.Assign) and norm(n.targets[0]) == "data" and isinstance(n.value, ast.DictComp) and len(n.value.generators) == 1 and "das" in norm(n.value.generators[0].iter)]
    need(fills or comps, "anchor lost: the loop filling `data` from `das` in gen_xy")
    for lp_ in fills + comps:
        if "broadcast(" in norm(lp_.iter):
            rm.ok("data[k] is filled from xr.broadcast(*das.values()): x, y, c and errors are aligned by dimension name", norm(lp_.iter))
        else:
            rm.bad(ctx.finding(rid_mask, gen, lp_, "`for %s in %s` fills the series arrays without xr.broadcast: x, y, colour and error arrays stored with their dimensions in different orders (or sizes that happen to agree) are paired by position, "
                               "so points are drawn at the wrong coordinates" % (norm(lp_.target), norm(lp_.iter)), construct="no-broadcast"), "broadcast before flatten")
    ys = [n for n in walk_shallow(gen.node) if isinstance(n, ast.Expr) and isinstance(n.value, ast.Yield)]
    lp = [n for n in walk_shallow(gen.node) if isinstance(n, ast.For) and "self._z_vals" in norm(n.iter)]
    how = None
    if len(lp) == 1 and ys:
        gg = build_cfg(gen.node)
        hh = [n for n in gg.nodes if n.kind == "for" and n.ast is lp[0]]
        yn = [n for n in gg.nodes if n.kind == "stmt" and n.ast in ys]
        if len(hh) == 1 and len(yn) == len(ys):
            how = _once_per_iteration(gg, hh[0], yn)
    if len(ys) == 1 and how == "once" and norm(ys[0].value.value) == "data":
        rm.ok("exactly one series is yielded per z value on every path through the loop body, in the order of _z_vals")
    elif how in ("skippable", "repeated"):
        rm.bad(ctx.finding(rid_mask, gen, ys[0], "the yield of a series is %s within one iteration over the z values: the number of series no longer equals the number of z values, so every later series is drawn with the label, colour and marker of another z value" % how, construct="one-series-per-z"), "one per z")
    else:
        raise AnalysisError("idiom changed: the series generator's yield structure (%d yields, %s)" % (len(ys), how))
    hx = P.methods.get("prepare_x_vals_histogram")
    gx = hx.nested.get("gen_x") if hx else None
    need(gx is not None, "anchor lost: gen_x")
    ctx.touch(gx)
    yv = [n for n in walk_shallow(gx.node) if isinstance(n, ast.Expr) and isinstance(n.value, ast.Yield)]
    need(len(yv) == 1 and isinstance(yv[0].value.value, ast.Dict) and len(yv[0].value.value.keys) == 1, "idiom changed: the histogram series yield")
    hv = yv[0].value.value.values[0]
    if isinstance(hv, ast.Name) and single_def(gx, hv.id) is not None:
        hv = single_def(gx, hv.id)[1]
    if isinstance(hv, ast.Subscript) and isinstance(hv.value, ast.Name):
        mexpr = hv.slice
        mst = [ast.Assign(targets=[ast.Name(id="_m", ctx=ast.Store())], value=mexpr)]
        if isinstance(mexpr, ast.Name):
            mst = sorted((n for n in walk_shallow(gx.node) if isinstance(n, (ast.Assign, ast.AugAssign)) and norm(n.targets[0] if isinstance(n, ast.Assign) else n.target) == mexpr.id), key=lambda n: n.lineno)
            need(mst, "idiom changed: histogram mask `%s`" % mexpr.id)
        terms, wrong = _mask_terms(gx, mst, "\x00")
        if wrong:
            rm.bad(ctx.finding(rid_mask, gx, yv[0], "the histogram series is filtered with `%s` (%s), not by isfinite" % (norm(wrong[0])[:50], wrong[1]), construct="hist-mask"), "hist mask")
        elif terms == {hv.value.id}:
            rm.ok("histogram series = the finite values of x")
        else:
            rm.bad(ctx.finding(rid_mask, gx, yv[0], "the histogram series `%s` is filtered by the finiteness of %s" % (hv.value.id, sorted(terms)), construct="hist-mask"), "hist mask")
    elif isinstance(hv, ast.Name) or (isinstance(hv, ast.Call) and "flatten" in norm(hv)):
        rm.bad(ctx.finding(rid_mask, gx, yv[0], "the histogram series is yielded without the finite-values filter: NaN / inf reach the binning", construct="hist-mask"), "hist mask")
    else:
        raise AnalysisError("idiom changed: histogram series `%s`" % norm(hv)[:60])

    # ---- lock-step iterators
    rl = ctx.rule(rid_lock, "one drawn series per z value: the label iterator advances once and one artist is created per series on every path", floor=2)
    for q, artists in ((MPL + ".LinePlot.plot_lines", ("plot", "errorbar")), (MPL + ".Scatter.plot_scatter", ("scatter",))):
        f = prog.func(q)
        g = build_cfg(f.node)
        ctx.touch(f, g)
        heads = [n for n in g.nodes if n.kind == "for" and "_gen_xy" in norm(n.ast.iter)]
        need(len(heads) == 1, "anchor lost: series loop in %s" % q)
        H = heads[0]
        it = [b for b, l in g.succ[H.id] if l == "iter"][0]
        lbl = [n for n in g.nodes if any(norm(c) == "next(self._zlbls)" for c in node_calls(n))]
        if not lbl and f.cls is not None:
            # advanced in a helper method that is called once per series: the helper must advance it exactly once, unconditionally
            for n in g.nodes:
                for c in node_calls(n):
                    if isinstance(c.func, ast.Attribute) and isinstance(c.func.value, ast.Name) and c.func.value.id == "self" and c.func.attr in f.cls.methods:
                        hm_ = f.cls.methods[c.func.attr]
                        adv = [x for x in ast.walk(hm_.node) if isinstance(x, ast.Call) and norm(x) == "next(self._zlbls)"]
                        if len(adv) == 1 and not any(isinstance(p2, (ast.For, ast.While, ast.If, ast.IfExp, ast.comprehension, ast.Try)) for p2 in _parents(adv[0]) if p2 is not hm_.node):
                            ctx.touch(hm_)
                            lbl.append(n)
        art = [n for n in g.nodes if any(isinstance(c.func, ast.Attribute) and c.func.attr in artists and norm(c.func.value) == "self._axes" for c in node_calls(n))]
        def once(nodes, what):
            if not nodes:
                return "never"
            # a path through the body avoiding all of them?
            if H.id in (g.reachable(start=it, blocked_nodes=[n.id for n in nodes], skip_labels=("exc",)) | {it}):
                return "skippable"
            for a in nodes:
                for b, l in g.succ[a.id]:
                    if l == "exc":
                        continue
                    r = g.reachable(start=b, blocked_nodes=[H.id], skip_labels=("exc",)) | {b}
                    if any(x.id in r for x in nodes):
                        return "repeated"
            return "once"
        for nodes, what in ((lbl, "the z label iterator"), (art, "the artist-creating call")):
            o = once(nodes, what)
            if o == "once":
                rl.ok("%s: %s advances exactly once per series on every path" % (f.name, what))
            else:
                rl.bad(ctx.finding(rid_lock, f, (nodes[0].stmt if nodes else f.node), "%s: %s is %s within one series iteration: labels and drawn series get out of step" % (f.name, what, o), construct="lockstep %s %s" % (f.name, what)), "%s %s" % (f.name, what))

    # histogram: one label and one yielded series per data series, on every path
    hp = prog.func(MPL + ".Histogram.plot_histogram")
    need(hp is not None, "anchor lost: Histogram.plot_histogram")
    gens = [fn for fn in hp.nested.values() if any("_gen_xy" in norm(x.iter) for x in ast.walk(fn.node) if isinstance(x, ast.For))] or \
           ([hp] if any("_gen_xy" in norm(x.iter) for x in ast.walk(hp.node) if isinstance(x, ast.For)) else [])
    need(len(gens) == 1, "anchor lost: the series loop of Histogram.plot_histogram")
    hf = gens[0]
    hg = build_cfg(hf.node)
    ctx.touch(hf, hg)
    hheads = [n for n in hg.nodes if n.kind == "for" and "_gen_xy" in norm(n.ast.iter)]
    need(len(hheads) == 1, "anchor lost: series loop in plot_histogram")
    hl = [n for n in hg.nodes if any(norm(c) == "next(self._zlbls)" for c in node_calls(n))]
    hy = [n for n in hg.nodes if n.kind == "stmt" and isinstance(n.ast, ast.Expr) and isinstance(n.ast.value, ast.Yield)] or \
         [n for n in hg.nodes if any(isinstance(c.func, ast.Attribute) and c.func.attr in ("append", "hist") for c in node_calls(n))]
    for nodes, what in ((hl, "the z label iterator"), (hy, "the yielded / collected series")):
        o = _once_per_iteration(hg, hheads[0], nodes)
        if o == "once":
            rl.ok("plot_histogram: %s advances exactly once per series on every path" % what)
        else:
            rl.bad(ctx.finding(rid_lock, hf, (nodes[0].stmt if nodes else hf.node), "plot_histogram: %s is %s within one series iteration: every later series is drawn with the label, colour and line width of another z value" % (what, o),
                               construct="lockstep plot_histogram %s" % what), "plot_histogram %s" % what)

    # ---- colour provenance
    rc = ctx.rule(rid_color, "line colours = cmap(norm(v)) with v and the norm's limits from the same quantity; absent limits tested with `is None`", floor=4)
    cl = P.methods.get("calc_line_colors")
    cn = P.methods.get("calc_color_norm")
    need(cl and cn, "anchor lost: calc_line_colors / calc_color_norm")
    ctx.touch(cl), ctx.touch(cn)
    g = build_cfg(cl.node)
    def gshape(e):
        """(element with the loop variable renamed to `_`, iterable) of a one-loop generator / list comprehension."""
        if isinstance(e, (ast.GeneratorExp, ast.ListComp)) and len(e.generators) == 1 and isinstance(e.generators[0].target, ast.Name) and not e.generators[0].ifs:
            v = e.generators[0].target.id
            class Rn(ast.NodeTransformer):
                def visit_Name(self, n):
                    return ast.copy_location(ast.Name(id="_", ctx=n.ctx), n) if n.id == v else n
            return norm(Rn().visit(ast.parse(ast.unparse(e.elt), mode="eval").body)), norm(e.generators[0].iter)
        return None
    RV = _rvals_name(cl)
    for cval, src in ((NOTNONE, "self._c_cols"), (NONE, "self._z_vals")):
        fl = Flow(g, {"self.c_coo": cval}).run()
        rv = [n for n in g.nodes if n.id in fl.visited and n.kind == "stmt" and isinstance(n.ast, ast.Assign) and norm(n.ast.targets[0]) == RV]
        need(rv, "anchor lost: `rvals` in calc_line_colors")
        shapes = [(n, gshape(n.ast.value)) for n in rv]
        good = [n for n, sh in shapes if sh == ("self._color_norm(_)", src)]
        lin = [n for n, sh in shapes if sh is None and "linspace" in norm(n.ast.value)]
        wrong = [n for n, sh in shapes if sh is not None and sh != ("self._color_norm(_)", src)]
        if good and len(good) + len(lin) == len(rv):
            rc.ok("c_coo %s: relative values = norm(v) for v in %s, in series order" % ("given" if cval == NOTNONE else "absent", src))
        elif wrong or not good:
            rc.bad(ctx.finding(rid_color, cl, (wrong or rv)[0].ast, "with c_coo %s the colour values are %s, not the norm applied to each of %s" % ("given" if cval == NOTNONE else "absent", [norm(n.ast.value) for n in rv], src), construct="rvals " + src), "rvals %s" % src)
        else:
            raise AnalysisError("idiom changed: rvals in calc_line_colors: %s" % [norm(n.ast.value) for n in rv])
    # numeric versus non-numeric z values: the test must hold for numpy scalars (array elements are np.int64 / np.float64, not int)
    lins = [n for n in g.nodes if n.kind == "stmt" and isinstance(n.ast, ast.Assign) and norm(n.ast.targets[0]) == RV and gshape(n.ast.value) is None and "linspace" in norm(n.ast.value)]
    for ln in lins:
        p_ = getattr(ln.ast, "_parent", None)
        while p_ is not None and not isinstance(p_, ast.If):
            p_ = getattr(p_, "_parent", None)
        need(p_ is not None, "idiom changed: the non-numeric colour fallback is unconditional")
        t = p_.test
        neg = isinstance(t, ast.UnaryOp) and isinstance(t.op, ast.Not)
        t0 = t.operand if neg else t
        if isinstance(t0, ast.Call) and norm(t0.func) == "isinstance" and len(t0.args) == 2:
            tys = [norm(x) for x in (t0.args[1].elts if isinstance(t0.args[1], ast.Tuple) else [t0.args[1]])]
            if any(("np." in x or "numpy." in x or "numbers." in x or x in ("Number", "Real", "Integral")) for x in tys):
                rc.ok("numeric z values recognised by isinstance(%s)" % ", ".join(tys))
            elif set(tys) <= {"int", "float", "complex", "bool"}:
                rc.bad(ctx.finding(rid_color, cl, t0, "`%s` decides whether the z values are numeric, but they are elements of a numpy array: np.int64 / np.int32 are not instances of int, so integer z coordinates are coloured by their position "
                                   "(linspace) instead of by their value" % norm(t0), construct="numeric-test-python-types"), "numeric test")
            else:
                raise AnalysisError("idiom changed: numeric test `%s` in calc_line_colors" % norm(t0))
        elif isinstance(t0, ast.Call) and norm(t0.func).rsplit(".", 1)[-1] in ("isreal", "isrealobj", "issubdtype", "isscalar", "is_numeric_dtype"):
            rc.ok("numeric z values recognised by %s" % norm(t0.func))
        elif isinstance(t0, ast.Compare) and ("dtype" in norm(t0) or "kind" in norm(t0)):
            rc.ok("numeric z values recognised by dtype test `%s`" % norm(t0))
        elif "c_coo" in norm(t0):
            rc.ok("colour quantity test `%s`" % norm(t0))
        else:
            raise AnalysisError("idiom changed: test selecting the non-numeric colour fallback: `%s`" % norm(t0))
    over_rvals = [(n, gshape(n.ast.value)) for n in g.nodes if n.kind == "stmt" and isinstance(n.ast, ast.Assign) and gshape(n.ast.value) and gshape(n.ast.value)[1] == RV]
    cols = [n for n in g.nodes if n.kind == "stmt" and isinstance(n.ast, ast.Assign) and norm(n.ast.targets[0]) == "self._cols"]
    need(cols, "anchor lost: self._cols in calc_line_colors")
    if len(over_rvals) == 1 and over_rvals[0][1][0] == "self.cmap(_)":
        t = norm(over_rvals[0][0].ast.targets[0])
        last = max(cols, key=lambda n: n.ast.lineno)
        if t == "self._cols" or any(norm(x) == t for x in ast.walk(last.ast.value)):
            rc.ok("colours = cmap(rval) for each normalised value")
        else:
            rc.bad(ctx.finding(rid_color, cl, last.ast, "self._cols is not built from the colour map applied to the normalised values", construct="cols"), "cols")
    elif over_rvals:
        rc.bad(ctx.finding(rid_color, cl, over_rvals[0][0].ast, "colours are not the colour map applied to the normalised values", construct="cols"), "cols")
    else:
        raise AnalysisError("idiom changed: no comprehension over rvals in calc_line_colors")
    coos = sorted({x.slice.id for x in ast.walk(cn.node) if isinstance(x, ast.Subscript) and norm(x.value) == "self._ds" and isinstance(x.slice, ast.Name)})
    need(len(coos) == 1, "anchor lost: the colour quantity `self._ds[<coo>]` in calc_color_norm (%s)" % coos)
    COO = coos[0]
    try:
        if_none = sym_expand(ctx, cn, ast.Name(id=COO, ctx=ast.Load()), {"self.c_coo": NONE})
        if_some = sym_expand(ctx, cn, ast.Name(id=COO, ctx=ast.Load()), {"self.c_coo": NOTNONE})
    except AnalysisError as e_:
        raise AnalysisError("idiom changed: colour quantity in calc_color_norm (%s)" % e_)
    if (if_none, if_some) == ("self.z_coo", "self.c_coo"):
        rc.ok("the norm's limits come from the colour quantity (c if given else z)")
    elif {if_none, if_some} <= {"self.z_coo", "self.c_coo"}:
        rc.bad(ctx.finding(rid_color, cn, cn.node, "the colour norm's limits are taken from `%s` when c is absent and `%s` when it is given, not from `z_coo if c_coo is None else c_coo`" % (if_none, if_some), construct="norm-quantity"), "norm quantity")
    else:
        raise AnalysisError("idiom changed: colour quantity in calc_color_norm: %s / %s" % (if_none, if_some))
    LIM = ("zlims", "vmin", "vmax", "zmin", "zmax")
    ors = [b for b in ast.walk(cn.node) if isinstance(b, ast.BoolOp) and isinstance(b.op, ast.Or) and any(w in norm(b.values[0]) for w in LIM)]
    truthy = [t.test for t in ast.walk(cn.node) if isinstance(t, (ast.If, ast.IfExp)) and
              (isinstance(t.test, (ast.Name, ast.Attribute, ast.Subscript)) or (isinstance(t.test, ast.UnaryOp) and isinstance(t.test.op, ast.Not) and isinstance(t.test.operand, (ast.Name, ast.Attribute, ast.Subscript))))
              and any(w in norm(t.test) for w in LIM)]
    if ors:
        rc.bad(ctx.finding(rid_color, cn, ors[0], "`%s` treats a requested limit of 0 as 'not given' (falsy test instead of `is None`): colours and colour bar use the data extreme instead of the requested 0" % norm(ors[0]), construct="limit-or"), "limits is None")
    elif truthy:
        rc.bad(ctx.finding(rid_color, cn, truthy[0], "`%s` treats a requested limit of 0 as 'not given'" % norm(truthy[0]), construct="limit-falsy"), "limits is None")
    else:
        tests = [t for t in ast.walk(cn.node) if isinstance(t, ast.Compare) and len(t.ops) == 1 and isinstance(t.ops[0], (ast.Is, ast.IsNot)) and norm(t.comparators[0]) == "None" and any(w in norm(t.left) for w in LIM)]
        if len(tests) >= 4:
            rc.ok("absent limits are detected with `is None` (a limit of 0 is honoured)")
        else:
            raise AnalysisError("idiom changed: limit defaulting in calc_color_norm")
    return rr


def _grid_shape(e):
    """(outer (var, iterable) | None, inner (var, iterable) | None, cell expr) of the nested list a grid split returns"""
    outer = inner = None
    if isinstance(e, ast.ListComp) and len(e.generators) == 1 and isinstance(e.generators[0].target, ast.Name) and not e.generators[0].ifs:
        outer = (e.generators[0].target.id, e.generators[0].iter)
        row = e.elt
    elif isinstance(e, ast.List) and len(e.elts) == 1:
        row = e.elts[0]
    else:
        return None
    if isinstance(row, ast.ListComp) and len(row.generators) == 1 and isinstance(row.generators[0].target, ast.Name) and not row.generators[0].ifs:
        inner = (row.generators[0].target.id, row.generators[0].iter)
        cell = row.elt
    elif isinstance(row, ast.List) and len(row.elts) == 1:
        cell = row.elts[0]
    else:
        return None
    return outer, inner, cell


def panel_rule(ctx, rid):
    from ..pathcond import path_tests
    from ..util import IntEval
    rr = ctx.rule(rid, "grid panels: outer index = row coordinate, inner = column, consistent in the data split, GridSpec position and titles; every column / row of panels carries its title", floor=6)
    prog = ctx.prog
    f = prog.need_func(CORE + ".calc_row_col_datasets")
    ctx.touch(f)
    need(len(f.positional) >= 3, "idiom changed: calc_row_col_datasets signature")
    p_ds, p_row, p_col = f.positional[:3]
    rets = [s for s in walk_shallow(f.node) if isinstance(s, ast.Return) and isinstance(s.value, ast.Tuple) and len(s.value.elts) == 3]
    need(len(rets) >= 3, "anchor lost: the three grid shapes returned by calc_row_col_datasets")

    def coord_of(it):
        """which of row / col does the iterable enumerate the coordinate values of?"""
        e = it
        if isinstance(e, ast.Name):
            d = single_def(f, e.id)
            need(d is not None, "idiom changed: `%s` in calc_row_col_datasets" % e.id)
            e = d[1]
        while isinstance(e, ast.Call) and norm(e.func) in ("list", "tuple", "np.asarray", "np.array") and len(e.args) == 1 and not e.keywords:
            e = e.args[0]
        t = norm(e)
        for pname in (p_row, p_col):
            if t in ("%s[%s].values" % (p_ds, pname), "%s[%s].data" % (p_ds, pname), "%s.%s.values" % (p_ds, pname)):
                return pname
        if isinstance(e, ast.Call) and norm(e.func) in ("np.unique", "numpy.unique", "sorted", "reversed", "set", "np.sort", "np.flip") and e.args:
            inner_ = norm(e.args[0])
            for pname in (p_row, p_col):
                if inner_ in ("%s[%s].values" % (p_ds, pname), "%s[%s].data" % (p_ds, pname)):
                    rr.bad(ctx.finding(rid, f, e, "the grid is split over `%s` while the panel titles are taken from %s[%s].values at the panel's index: order / multiplicity can differ, so panels are titled with another coordinate" % (t, p_ds, pname), construct="row-col-split"), "split order")
                    return pname
        raise AnalysisError("idiom changed: grid iterable `%s`" % t)
    seen = set()
    for rt in rets:
        sh = _grid_shape(rt.value.elts[0])
        need(sh is not None, "idiom changed: grid returned as `%s`" % norm(rt.value.elts[0])[:60])
        outer, inner, cell = sh
        need(isinstance(cell, ast.Subscript) and isinstance(cell.slice, ast.Dict) and norm(cell.value) in (p_ds + ".loc", p_ds + ".sel") or (isinstance(cell, ast.Call) and norm(cell.func) == p_ds + ".sel"), "idiom changed: grid cell `%s`" % norm(cell)[:60])
        need(isinstance(cell, ast.Subscript), "idiom changed: grid cell `%s`" % norm(cell)[:60])
        keys = {norm(k): norm(v) for k, v in zip(cell.slice.keys, cell.slice.values)}
        ok = True
        for level, lv, want in (("outer", outer, p_row), ("inner", inner, p_col)):
            if lv is None:
                if want in keys:
                    ok = False
                    rr.bad(ctx.finding(rid, f, rt, "the cell selects along `%s` although the %s level of the grid does not iterate it" % (want, level), construct="row-col-split"), "split")
                continue
            var, it = lv
            co = coord_of(it)
            if co != want:
                ok = False
                rr.bad(ctx.finding(rid, f, rt, "the %s level of the returned grid iterates the `%s` coordinate; rows must be outer and columns inner (GridSpec position gs[i, j] and the titles assume it)" % (level, co), construct="row-col-split"), "split")
            elif keys.get(want) != var:
                ok = False
                rr.bad(ctx.finding(rid, f, rt, "the cell for (%s) is selected with {%s: %s}: not its own coordinate" % (var, want, keys.get(want)), construct="row-col-split"), "split")
        if ok:
            seen.add((outer is not None, inner is not None))
            rr.ok("grid %s: each cell selected by its own coordinates, rows outer / columns inner" % ("rows x cols" if outer and inner else "one row of columns" if inner else "one column of rows"))
    if not rr.findings:
        need(seen == {(True, True), (True, False), (False, True)}, "idiom changed: grid shapes %s" % sorted(seen))
    mp = prog.need_func(MPL + ".mpl_multi_plot")
    mf = mp.nested.get("multi_plotter")
    need(mf is not None, "anchor lost: multi_plotter")
    ctx.touch(mf)
    split = [n for n in walk_shallow(mf.node) if isinstance(n, ast.Assign) and isinstance(n.value, ast.Call) and norm(n.value.func) == "calc_row_col_datasets"]
    need(len(split) == 1 and isinstance(split[0].targets[0], ast.Tuple) and len(split[0].targets[0].elts) == 3, "anchor lost: the grid split in multi_plotter")
    gname, nrn, ncn = (norm(e) for e in split[0].targets[0].elts)
    loops = [n for n in walk_shallow(mf.node) if isinstance(n, ast.For) and isinstance(n.iter, ast.Call) and norm(n.iter.func) == "enumerate" and isinstance(n.target, ast.Tuple) and len(n.target.elts) == 2]
    outer = [l for l in loops if norm(l.iter.args[0]) == gname]
    need(len(outer) == 1, "idiom changed: multi_plotter loops")
    iv, rowds = (norm(e) for e in outer[0].target.elts)
    inner = [l for l in loops if norm(l.iter.args[0]) == rowds and any(l is x for x in ast.walk(outer[0]))]
    need(len(inner) == 1, "idiom changed: multi_plotter loops")
    jv, subds = (norm(e) for e in inner[0].target.elts)
    rr.ok("multi_plotter: %s enumerates rows, %s enumerates the row's columns" % (iv, jv))
    calls = [c for c in ast.walk(inner[0]) if isinstance(c, ast.Call) and isinstance(c.func, ast.Name) and c.func.id == "fn"]
    need(len(calls) == 1, "anchor lost: the panel plot call in multi_plotter")
    if calls[0].args and norm(calls[0].args[0]) == subds:
        rr.ok("each panel plots its own sub-dataset")
    else:
        rr.bad(ctx.finding(rid, mf, calls[0], "the panel plot does not receive the panel's own sub-dataset", construct="panel-data"), "panel data")
    sp = arg(calls[0], None, "subplot")
    need(sp is not None and isinstance(sp, ast.Subscript) and isinstance(sp.slice, ast.Tuple) and len(sp.slice.elts) == 2, "idiom changed: subplot position of a panel")
    pos = tuple(norm(e) for e in sp.slice.elts)
    if pos == (iv, jv):
        rr.ok("GridSpec position gs[%s, %s]" % pos)
    elif pos == (jv, iv):
        rr.bad(ctx.finding(rid, mf, sp, "the panel of row %s, column %s is placed at gs[%s, %s]: the grid is transposed" % (iv, jv, pos[0], pos[1]), construct="panel GridSpec position gs[i, j]"), "gridspec")
    else:
        raise AnalysisError("idiom changed: subplot position `%s`" % norm(sp))
    # titles: value from the coordinate at the panel's own index, on a panel of every column / row
    a = mf.node.args
    kwn = [x.arg for x in a.kwonlyargs] + [x.arg for x in a.args]
    need("row" in kwn and "col" in kwn, "idiom changed: multi_plotter row / col parameters")
    for co, idx, other, what in (("col", jv, iv, "column"), ("row", iv, jv, "row")):
        subs = [n for n in ast.walk(inner[0]) if isinstance(n, ast.Subscript) and norm(n.value) in ("ds[%s].values" % co, "ds[%s].data" % co)]
        need(subs, "anchor lost: the %s title value in multi_plotter" % what)
        for s_ in subs:
            k = norm(s_.slice)
            if k == idx:
                rr.ok("%s title from ds[%s].values[%s]" % (what, co, idx))
            elif k == other:
                rr.bad(ctx.finding(rid, mf, s_, "the %s title is taken at index `%s` (the %s index): panels are titled with another panel's coordinate" % (what, k, "row" if what == "column" else "column"), construct="panel %s title" % what), "%s title" % what)
            else:
                raise AnalysisError("idiom changed: %s title value `%s`" % (what, norm(s_)))
            # where is the title statement reached?  evaluated on a window of grid sizes
            st = s_
            while not isinstance(st, ast.stmt):
                st = st._parent
            tests = [(ast.parse(_exp_local(mf, t_), mode="eval").body, pol) for t_, pol in path_tests(inner[0], st)]
            ev = IntEval({})
            okall = True
            for nr in (1, 2, 3):
                for nc in (1, 2, 3):
                    lines = range(nc) if what == "column" else range(nr)
                    for fixed in lines:
                        hit = False
                        for free in (range(nr) if what == "column" else range(nc)):
                            i_, j_ = (free, fixed) if what == "column" else (fixed, free)
                            stt = {iv: i_, jv: j_, nrn: nr, ncn: nc, "row": "r" if (what == "row" or nr > 1) else None, "col": "c" if (what == "column" or nc > 1) else None}
                            try:
                                if all(bool(ev.ev(t_, stt)) == pol for t_, pol in tests):
                                    hit = True
                            except AnalysisError as e_:
                                raise AnalysisError("idiom changed: the condition of the %s title in multi_plotter (%s)" % (what, e_))
                        if not hit:
                            okall = False
                            bad_at = (nr, nc, fixed)
            if okall:
                rr.ok("every %s of a 1..3 x 1..3 grid has a panel carrying its title" % what)
            else:
                rr.bad(ctx.finding(rid, mf, st, "in a %d x %d grid no panel of %s %d carries the %s title (condition `%s`): panels are not titled with their coordinate" % (bad_at[0], bad_at[1], what, bad_at[2], what, " and ".join(("" if pol else "not ") + norm(t_) for t_, pol in tests)[:80]), construct="panel %s title condition" % what), "%s title condition" % what)
    return rr


# ====================================================================== C18
def _splat_value(fi, call, key):
    """value of keyword `key` when it is passed through a `**name` splat of a local dict literal"""
    for k in call.keywords:
        if k.arg is None and isinstance(k.value, ast.Name):
            d = single_def(fi, k.value.id)
            lit = d[1] if d else None
            if isinstance(lit, ast.Dict):
                for kk, vv in zip(lit.keys, lit.values):
                    if isinstance(kk, ast.Constant) and kk.value == key:
                        return vv
            elif isinstance(lit, ast.Call) and norm(lit.func) == "dict":
                for k2 in lit.keywords:
                    if k2.arg == key:
                        return k2.value
    return None


def method_text(ctx, f, depth=2, seen=None):
    """normalised statements of f followed by those of the same-class helper methods it calls (virtual inlining for rules
    that look for a statement wherever the method keeps it)"""
    seen = seen if seen is not None else set()
    seen.add(f.qualname)
    out = [norm(s_) for s_ in f.node.body]
    if depth > 0 and f.cls is not None:
        for c in ast.walk(f.node):
            if isinstance(c, ast.Call) and isinstance(c.func, ast.Attribute) and isinstance(c.func.value, ast.Name) and c.func.value.id == "self":
                m = f.cls.methods.get(c.func.attr)
                if m is not None and m.qualname not in seen:
                    ctx.touch(m)
                    out.append(method_text(ctx, m, depth - 1, seen))
    return " ".join(out)


def _ax_name(f):
    """the local of an infiniplot drawing method that holds the panel's Axes: the one taken out of self.axs per
    location (directly, or by a helper method of the class)"""
    names = set()
    for n in walk_shallow(f.node):
        if isinstance(n, ast.Assign) and isinstance(n.targets[0], ast.Name) and any(isinstance(p_, ast.For) for p_ in _parents(n)):
            v = n.value
            if (isinstance(v, ast.Subscript) and norm(v.value) == "self.axs") or (isinstance(v, ast.Call) and isinstance(v.func, ast.Attribute) and norm(v.func.value) == "self" and "ax" in v.func.attr.lower() and any(norm(a_) == "loc" for a_ in v.args)):
                names.add(n.targets[0].id)
    need(len(names) == 1, "anchor lost: the panel Axes local in %s (%s)" % (f.name, sorted(names)))
    return names.pop()


def _role_rename(f, discovered, role):
    """give the local that plays `role` its canonical name in the analysis' own copy of the tree (texts are compared
    against the canonical names afterwards); a clash with another use of the canonical name is an AnalysisError"""
    if discovered == role:
        return
    for x in ast.walk(f.node):
        if isinstance(x, ast.Name) and x.id == role:
            raise AnalysisError("idiom changed: `%s` names something else than the %s in %s" % (role, role, f.name))
    for x in ast.walk(f.node):
        if isinstance(x, ast.Name) and x.id == discovered:
            x.id = role


def _c18_canonical_locals(pl, ph):
    for f in (pl, ph):
        locs = [n.targets[0].id for n in walk_shallow(f.node) if isinstance(n, ast.Assign) and isinstance(n.targets[0], ast.Name) and any(isinstance(p_, ast.For) for p_ in _parents(n))
                and ((isinstance(n.value, ast.Call) and norm(n.value.func) == "dict" and len(n.value.args) == 1 and isinstance(n.value.args[0], ast.Call) and norm(n.value.args[0].func) == "zip")
                     or (isinstance(n.value, ast.DictComp) and isinstance(n.value.generators[0].iter, ast.Call) and norm(n.value.generators[0].iter.func) == "zip"))
                and "remaining_dims" in norm(n.value)]
        need(len(set(locs)) == 1, "anchor lost: the location mapping of %s" % f.name)
        _role_rename(f, locs[0], "loc")
    dsl = [n.targets[0].id for n in walk_shallow(pl.node) if isinstance(n, ast.Assign) and isinstance(n.targets[0], ast.Name) and norm(n.value) in ("self.ds.isel(loc)", "self.ds.isel(**loc)")]
    if len(set(dsl)) == 1:
        _role_rename(pl, dsl[0], "ds_loc")
    # the mask x and y are subscripted with at ax.plot
    for c in walk_shallow(pl.node):
        if isinstance(c, ast.Call) and isinstance(c.func, ast.Attribute) and c.func.attr == "plot" and len(c.args) >= 2:
            e = c.args[0]
            hops = 0
            while isinstance(e, ast.Name) and hops < 4:
                d_ = single_def(pl, e.id)
                if d_ is None:
                    break
                e = d_[1]
                hops += 1
            if isinstance(e, ast.Subscript) and isinstance(e.slice, ast.Name):
                _role_rename(pl, e.slice.id, "data_mask")


def c18_rules(ctx):
    prog = ctx.prog
    I = prog.need_cls(INF + ".Infiniplotter")
    pl = I.methods.get("plot_lines")
    ph = I.methods.get("plot_heatmap")
    imd = I.methods.get("init_mapped_dim")
    init = I.methods.get("__init__")
    need(pl and ph and imd and init, "anchor lost: Infiniplotter methods")
    _c18_canonical_locals(pl, ph)
    for f in (pl, ph, imd, init):
        ctx.touch(f)
    roles = {"x", "y", "z", "err", "text"}
    # ---- R2 roles at sinks
    rr = ctx.rule("C18.R2", "role agreement at ax.plot / errorbar / fill_between / pcolormesh / text sinks", floor=5)
    def sink(f, meth, spec):
        calls = [c for c in walk_shallow(f.node) if isinstance(c, ast.Call) and isinstance(c.func, ast.Attribute) and c.func.attr == meth and norm(c.func.value) == _ax_name(f)]
        need(calls, "anchor lost: ax.%s in %s" % (meth, f.name))
        for c in calls:
            for key, want in spec.items():
                e = c.args[key] if isinstance(key, int) and key < len(c.args) else arg(c, None, key) if isinstance(key, str) else None
                if e is None and isinstance(key, str):
                    e = _splat_value(f, c, key)
                if e is None:
                    continue
                got = roles_of(e, f, roles)
                if isinstance(want, set) and not (got & want and got <= want | {"y"} if "err" in want else got == want):
                    rr.bad(ctx.finding("C18.R2", f, c, "ax.%s receives data derived from %s in its %s slot (expected %s)" % (meth, sorted(got), key, sorted(want)), construct="sink %s %s" % (meth, key)), "ax.%s %s" % (meth, key))
                else:
                    rr.ok("%s: ax.%s %s <- %s" % (f.name, meth, key, sorted(got)), "%s|%s|%s|%s" % (f.name, meth, key, norm(e)))
    sink(pl, "plot", {0: {"x"}, 1: {"y"}})
    sink(pl, "errorbar", {"x": {"x"}, "y": {"y"}})
    sink(pl, "text", {0: {"x"}, 1: {"y"}})
    sink(ph, "pcolormesh", {0: {"x"}, 1: {"y"}})
    # fill_between: x <- x ; y1/y2 from y (+ error ranges)
    for c in [c for c in walk_shallow(pl.node) if isinstance(c, ast.Call) and isinstance(c.func, ast.Attribute) and c.func.attr == "fill_between"]:
        got = roles_of(arg(c, None, "x"), pl, roles)
        if got == {"x"}:
            rr.ok("plot_lines: ax.fill_between x <- x")
        else:
            rr.bad(ctx.finding("C18.R2", pl, c, "fill_between x slot receives %s" % sorted(got), construct="sink fill_between x"), "fill_between x")
    zsrc = [n.value for n in walk_shallow(ph.node) if isinstance(n, ast.Assign) and ("isel(loc)" in norm(n.value) or ".sel(loc)" in norm(n.value)) and "self.ds" in norm(n.value)]
    need(zsrc, "anchor lost: the per-panel selection of the heat-map values")
    for e in zsrc:
        tr = [c for c in ast.walk(e) if isinstance(c, ast.Call) and isinstance(c.func, ast.Attribute) and c.func.attr == "transpose"]
        var = [x for x in ast.walk(e) if isinstance(x, ast.Subscript) and norm(x.value) == "self.ds"]
        need(len(var) == 1, "idiom changed: heat-map values `%s`" % norm(e)[:60])
        vk = norm(var[0].slice)
        if vk != "self.z":
            if vk in ("self.x", "self.y"):
                rr.bad(ctx.finding("C18.R2", ph, e, "the heat-map values are taken from `%s`, not the z variable" % norm(var[0]), construct="heatmap-values"), "heatmap values")
                continue
            raise AnalysisError("idiom changed: heat-map variable `%s`" % vk)
        if not tr:
            rr.bad(ctx.finding("C18.R2", ph, e, "the heat-map values `%s` are not transposed to (y, x) by name: the orientation of the mesh depends on the order the dimensions happen to be stored in" % norm(e)[:60], construct="heatmap-values"), "heatmap values")
        elif [norm(a) for a in tr[0].args] == ["self.y", "self.x"]:
            rr.ok("plot_heatmap: mesh values = ds[z].isel(loc).transpose(y, x) by name", norm(e))
        elif [norm(a) for a in tr[0].args] == ["self.x", "self.y"]:
            rr.bad(ctx.finding("C18.R2", ph, e, "the heat-map values are transposed to (x, y): pcolormesh expects rows = y, so the map is drawn transposed", construct="heatmap-values"), "heatmap values")
        else:
            raise AnalysisError("idiom changed: transpose(%s) of the heat-map values" % ", ".join(norm(a) for a in tr[0].args))

    # ---- R3 one ax.plot per visited location
    r3 = ctx.rule("C18.R3", "exactly one ax.plot per visited location, except all-null slices which are skipped before any artist is created", floor=2)
    g = build_cfg(pl.node)
    heads = [n for n in g.nodes if n.kind == "for" and "self.ranges" in norm(n.ast.iter)]
    need(len(heads) == 1, "anchor lost: location loop in plot_lines")
    H = heads[0]
    it = [b for b, l in g.succ[H.id] if l == "iter"][0]
    AXL = _ax_name(pl)
    plots = [n for n in g.nodes if any(isinstance(c.func, ast.Attribute) and c.func.attr == "plot" and norm(c.func.value) == AXL for c in node_calls(n))]
    conts = [n for n in g.nodes if n.kind == "stmt" and isinstance(n.ast, ast.Continue)]
    artists = [n for n in g.nodes if any(isinstance(c.func, ast.Attribute) and norm(c.func.value) == AXL and c.func.attr in ("plot", "errorbar", "fill_between", "text", "scatter") for c in node_calls(n))]
    # the edge taken by an all-null slice (the "no data" outcome of the np.any(mask) test) is the one permitted way round the loop without a line
    null_edges = []
    for tn in [n for n in g.nodes if n.kind == "test"]:
        e = tn.ast
        neg = False
        while isinstance(e, ast.UnaryOp) and isinstance(e.op, ast.Not):
            e, neg = e.operand, not neg
        if isinstance(e, ast.Call) and ((norm(e.func) in ("np.any", "numpy.any") and len(e.args) == 1 and isinstance(e.args[0], ast.Name)) or (isinstance(e.func, ast.Attribute) and e.func.attr == "any" and isinstance(e.func.value, ast.Name) and not e.args)):
            null_edges += [(tn.id, b_, l_) for b_, l_ in g.succ[tn.id] if l_ == ("t" if neg else "f")]
    skip = g.reachable(start=it, blocked_nodes=[p.id for p in plots], blocked_edges=null_edges, skip_labels=("exc",)) | {it}
    if len(plots) != 1:
        r3.bad(ctx.finding("C18.R3", pl, pl.node, "%d ax.plot calls in the location loop" % len(plots), construct="plot-count"), "one plot")
    elif H.id in skip:
        r3.bad(ctx.finding("C18.R3", pl, plots[0].stmt, "a location can go round the loop without ax.plot and without the all-null `continue`: a slice that has data is not drawn", construct="plot-skipped"), "plot not skipped")
    else:
        r3.ok("every iteration either draws exactly one line or takes the all-null continue")
    # the all-null test: np.any(<mask>) / <mask>.any(), possibly negated; its "no data" edge goes round the loop without an artist
    okc = False
    seen_test = False
    for tn in [n for n in g.nodes if n.kind == "test"]:
        e = tn.ast
        neg = False
        while isinstance(e, ast.UnaryOp) and isinstance(e.op, ast.Not):
            e, neg = e.operand, not neg
        is_any = isinstance(e, ast.Call) and ((norm(e.func) in ("np.any", "numpy.any") and len(e.args) == 1 and isinstance(e.args[0], ast.Name)) or (isinstance(e.func, ast.Attribute) and e.func.attr == "any" and isinstance(e.func.value, ast.Name) and not e.args))
        if not is_any:
            continue
        seen_test = True
        nodata = [b_ for b_, l_ in g.succ[tn.id] if l_ == ("t" if neg else "f")]
        hasdata = [b_ for b_, l_ in g.succ[tn.id] if l_ == ("f" if neg else "t")]
        if not nodata or not hasdata:
            continue
        art_ids = {a_.id for a_ in artists}
        r_no = g.reachable(start=nodata[0], blocked_nodes=[H.id], skip_labels=("exc",)) | {nodata[0]}
        no_artist_when_empty = not (r_no & art_ids) and (nodata[0] == H.id or any(H.id == b2 for x in r_no for b2, _ in g.succ[x]))
        if no_artist_when_empty and all(g.dominates(tn.id, a_.id) for a_ in artists) and any(p_.id in (g.reachable(start=hasdata[0], blocked_nodes=[H.id], skip_labels=("exc",)) | {hasdata[0]}) for p_ in plots):
            okc = True
    need(seen_test, "anchor lost: the all-null test (np.any(mask)) in plot_lines")
    if okc:
        r3.ok("all-null slices are skipped before any artist is created")
    else:
        r3.bad(ctx.finding("C18.R3", pl, pl.node, "the all-null skip (`if not np.any(mask): continue`) no longer precedes every artist-creating call", construct="null-skip"), "null skip")

    # ---- R4 panel orientation
    r4 = ctx.rule("C18.R4", "panel placement: axs[i_ax, j_ax] with i from the row mapping and j from the column mapping", floor=4)
    for f in (pl, ph):
        axd = [v for _, v in assignments_to(f, _ax_name(f)) if v is not None]
        need(len(axd) == 1, "anchor lost: the `ax` a slice is drawn on in %s" % f.name)
        for rv, cv in ((NOTNONE, NOTNONE), (NOTNONE, NONE), (NONE, NOTNONE), (NONE, NONE)):
            got = sym_expand(ctx, f, axd[0], {"self.row": rv, "self.col": cv}, stop=("loc",))
            want = "self.axs[%s, %s]" % ("loc[self.row]" if rv == NOTNONE else "0", "loc[self.col]" if cv == NOTNONE else "0")
            tag = "row %s, col %s" % ("mapped" if rv == NOTNONE else "absent", "mapped" if cv == NOTNONE else "absent")
            if got == want:
                r4.ok("%s, %s: ax = %s" % (f.name, tag, want))
            elif got.startswith("self.axs[") and set(names_in(ast.parse(got, mode="eval").body)) <= {"self", "loc"}:
                r4.bad(ctx.finding("C18.R4", f, axd[0], "%s: with %s a slice is drawn on `%s`; expected `%s`: slices are drawn in the wrong panel" % (f.name, tag, got, want), construct="panel-index " + f.name), "%s panels" % f.name)
            else:
                raise AnalysisError("idiom changed: panel of a slice in %s is `%s`" % (f.name, got))
    sub = [c for c in ast.walk(I.node) if isinstance(c, ast.Call) and norm(c.func).endswith("subplots")]
    need(len(sub) == 1, "anchor lost: the subplots call creating the axes grid")
    sa = [norm(a).replace("'", '"') for a in sub[0].args[:2]] + [norm(arg(sub[0], None, k)).replace("'", '"') if arg(sub[0], None, k) is not None else None for k in ("nrows", "ncols")]
    nr_ = sa[0] if len(sub[0].args) > 0 else sa[-2]
    nc_ = sa[1] if len(sub[0].args) > 1 else sa[-1]
    need(nr_ is not None and nc_ is not None, "idiom changed: subplots(%s)" % norm(sub[0])[:60])
    if 'self.sizes["row"]' in nr_ and 'self.sizes["col"]' in nc_:
        r4.ok("subplots(sizes[row], sizes[col])")
    elif 'self.sizes["col"]' in nr_ and 'self.sizes["row"]' in nc_:
        r4.bad(ctx.finding("C18.R4", init, sub[0], "the axes grid is created as (rows, cols) = (sizes['col'], sizes['row']): transposed with respect to axs[i_row, j_col]", construct="subplots-shape"), "subplots shape")
    else:
        raise AnalysisError("idiom changed: subplots(%s, %s)" % (nr_, nc_))
    da = I.methods.get("do_axes_formatting")
    if da is not None:
        ctx.touch(da)
        loops_ = [n for n in walk_shallow(da.node) if isinstance(n, ast.For) and "self.axs" in norm(n.iter) and isinstance(n.target, ast.Tuple) and isinstance(n.target.elts[0], ast.Tuple) and len(n.target.elts[0].elts) == 2]
        need(len(loops_) == 1, "idiom changed: the panel loop of do_axes_formatting")
        iv_, jv_ = (norm(e) for e in loops_[0].target.elts[0].elts)
        hits = 0
        for n in ast.walk(loops_[0]):
            if isinstance(n, ast.Subscript) and isinstance(n.value, ast.Subscript) and norm(n.value.value) == "self.domains" and isinstance(n.value.slice, ast.Constant) and n.value.slice.value in ("row", "col"):
                want_ = iv_ if n.value.slice.value == "row" else jv_
                other_ = jv_ if n.value.slice.value == "row" else iv_
                if norm(n.slice) == want_:
                    hits += 1
                    r4.ok("panel title: domains[%r][%s]" % (n.value.slice.value, want_))
                elif norm(n.slice) == other_:
                    r4.bad(ctx.finding("C18.R4", da, n, "the %s title of panel (%s, %s) is domains[%r][%s]: the other axis' index, so panels are titled with another panel's coordinate" % (n.value.slice.value, iv_, jv_, n.value.slice.value, other_), construct="panel-titles"), "titles")
                else:
                    raise AnalysisError("idiom changed: panel title index `%s`" % norm(n))
        if hits < 2 and not r4.findings:
            raise AnalysisError("anchor lost: panel titles from domains['col'] / domains['row'] in do_axes_formatting")

    # ---- R5 style <-> key share one index
    r5 = ctx.rule("C18.R5", "for each mapped property the style value and the legend key use the same index (equal coordinates share a style)", floor=3)
    loop5 = [n for n in walk_shallow(pl.node) if isinstance(n, ast.For) and "self.ranges" in norm(n.iter)]
    need(len(loop5) == 1, "anchor lost: location loop in plot_lines")
    fam5 = [pl] + [I.methods[c.func.attr] for c in ast.walk(loop5[0]) if isinstance(c, ast.Call) and isinstance(c.func, ast.Attribute) and norm(c.func.value) == "self" and c.func.attr in I.methods and I.methods[c.func.attr] is not imd]
    n_props = 0
    for f5 in fam5:
        ctx.touch(f5)
        uses = {}
        for n in walk_shallow(f5.node):
            if isinstance(n, ast.Subscript) and isinstance(n.ctx, ast.Load) and isinstance(n.value, ast.Subscript) and norm(n.value.value) in ("self.domains", "self.values"):
                uses.setdefault(norm(n.value.slice).replace('"', "'"), []).append((norm(n.value.value)[5:], n))
        for P_, lst in sorted(uses.items()):
            idxs = {norm(n.slice) for _, n in lst}
            kinds = {k for k, _ in lst}
            if len(idxs) > 1:
                r5.bad(ctx.finding("C18.R5", f5, lst[0][1], "the coordinate (domains[%s]) and the style value (values[%s]) of one property are looked up with different indices %s: a slice is styled as another coordinate than the one its legend entry names" % (P_, P_, sorted(idxs)), construct="style-index " + P_), "style index %s" % P_)
                continue
            ix = lst[0][1].slice
            need(isinstance(ix, ast.Name), "idiom changed: index `%s` of domains / values[%s]" % (norm(ix), P_))
            d_ = single_def(f5, ix.id)
            need(d_ is not None and isinstance(d_[1], ast.Subscript) and norm(d_[1].value) == "loc", "idiom changed: `%s` is not loc[<dimension>] in %s" % (ix.id, f5.name))
            key = d_[1].slice
            if P_.startswith("'"):
                want_key = "self." + P_.strip("'")
                if norm(key) == want_key:
                    n_props += 1
                    r5.ok("%s: domains / values[%s] indexed by loc[%s]" % (f5.name, P_, want_key))
                elif norm(key).startswith("self."):
                    r5.bad(ctx.finding("C18.R5", f5, d_[0].ast, "the %s coordinate / style is looked up at the position of another mapped dimension (`loc[%s]`)" % (P_, norm(key)), construct="style-index " + P_), "style index %s" % P_)
                else:
                    raise AnalysisError("idiom changed: index of property %s is loc[%s]" % (P_, norm(key)))
            else:
                # a property variable: the dimension is getattr(self, <that variable>)
                need(isinstance(key, ast.Name), "idiom changed: index of property %s is loc[%s]" % (P_, norm(key)))
                dd = single_def(f5, key.id)
                if dd is not None and isinstance(dd[1], ast.Call) and norm(dd[1].func) == "getattr" and len(dd[1].args) >= 2 and norm(dd[1].args[0]) == "self" and norm(dd[1].args[1]) == P_:
                    n_props += 1
                    r5.ok("%s: domains / values[%s] indexed by loc[getattr(self, %s)]" % (f5.name, P_, P_))
                elif dd is not None and isinstance(dd[1], ast.Call) and norm(dd[1].func) == "getattr":
                    r5.bad(ctx.finding("C18.R5", f5, dd[0].ast, "the dimension of property `%s` is taken from `%s`" % (P_, norm(dd[1])), construct="style-index " + P_), "style index %s" % P_)
                else:
                    raise AnalysisError("idiom changed: dimension of the property variable `%s`" % P_)
    if not r5.findings:
        need(n_props >= 3, "anchor lost: style / key look-ups of the mapped properties (%d found)" % n_props)
    t = method_text(ctx, pl).replace("'", '"')
    cc = [n for f5 in fam5 for n in walk_shallow(f5.node) if isinstance(n, ast.Subscript) and norm(n.value) == "self.cmap_or_colors" and isinstance(n.ctx, ast.Load)]
    for n in cc:
        d_ = single_def(enclosing_func_of(n, fam5), norm(n.slice)) if isinstance(n.slice, ast.Name) else None
        if d_ is not None and norm(d_[1]) == "loc[self.color]":
            r5.ok("colour style is looked up with the colour key's index")
        elif d_ is not None and norm(d_[1]).startswith("loc[self."):
            r5.bad(ctx.finding("C18.R5", pl, n, "the colour style is looked up at `%s`, not the colour key's index" % norm(d_[1]), construct="style-index color"), "style index color")
        else:
            raise AnalysisError("idiom changed: colour style look-up `%s`" % norm(n))

    # ---- R7 domains are read after the dataset's index along the dimension was fixed
    r7 = ctx.rule("C18.R7", "init_mapped_dim records the dimension's coordinates after every re-indexing (sel(order), dropna) of the dataset along it", floor=1)
    g = build_cfg(imd.node)
    DIM, NEW, PN = _imd_names(imd)
    stores = [n for n in g.nodes if n.kind == "stmt" and isinstance(n.ast, ast.Assign) and norm(n.ast.targets[0]) == "self.domains[%s]" % PN]
    need(len(stores) == 1, "anchor lost: self.domains[name] assignment")
    got = sym_expand(ctx, imd, stores[0].ast.value, {DIM: NOTNONE})
    # the statement at which the coordinate values are actually read
    R = stores[0]
    if isinstance(R.ast.value, ast.Name):
        src = [n for n in g.nodes if n.kind == "stmt" and isinstance(n.ast, ast.Assign) and norm(n.ast.targets[0]) == R.ast.value.id]
        need(len(src) == 1, "idiom changed: alias of the coordinate values in init_mapped_dim")
        R = src[0]
    if got != "self.ds[%s].values" % DIM:
        if "self.ds" in got or DIM in got or "order" in got:
            r7.bad(ctx.finding("C18.R7", imd, stores[0].ast, "domains[name] is `%s`, not the dataset's current coordinate values" % got, construct="domains-source"), "domains source")
        else:
            raise AnalysisError("idiom changed: domains[name] = %s" % got)
    rebinds = [n for n in g.nodes if n.kind == "stmt" and isinstance(n.ast, ast.Assign) and norm(n.ast.targets[0]) == "self.ds" and any(k in norm(n.ast.value) for k in (".sel(", ".dropna(", ".isel(", ".drop_sel(", ".sortby(", ".reindex("))]
    late = [n for n in rebinds if n.id in g.reachable(start=R.id) and n.id != R.id]
    if late:
        r7.bad(ctx.finding("C18.R7", imd, late[0].ast, "`%s` re-indexes the dataset along the dimension *after* its coordinates were recorded in domains[name]: positions used by isel(loc) and positions in domains / values denote different coordinates, so slices are labelled, styled and placed under the wrong coordinate (and an empty panel appears)"
                           % norm(late[0].ast)[:60], construct="reindex-after-domains"), "domains after re-indexing")
    elif len(rebinds) >= 2:
        r7.ok("sel(order) and dropna both complete before domains[name] is read")
    else:
        raise AnalysisError("idiom changed: init_mapped_dim re-indexing statements (%d found)" % len(rebinds))
    # ---- R20 an explicit order is applied on every path that maps the dimension
    r20 = ctx.rule("C18.R20", "init_mapped_dim: when an explicit <prop>_order is given, the dataset is re-indexed by it on every path that goes on to record the coordinates", floor=1)
    ords = [n for n in g.nodes if n.kind == "stmt" and isinstance(n.ast, ast.Assign) and len(n.ast.targets) == 1 and isinstance(n.ast.targets[0], ast.Name)
            and isinstance(n.ast.value, ast.Call) and norm(n.ast.value.func) == "getattr" and len(n.ast.value.args) >= 2 and "_order" in norm(n.ast.value.args[1])]
    need(len(ords) == 1, "anchor lost: <order> = getattr(self, f'{name}_order') in init_mapped_dim")
    ORD = ords[0].ast.targets[0].id
    sels = [n for n in rebinds if ".sel(" in norm(n.ast.value) and ORD in {x.id for x in ast.walk(n.ast.value) if isinstance(x, ast.Name)}]
    if not sels:
        # the order may have been renamed on the way (order = list(order))
        sels = [n for n in rebinds if ".sel(" in norm(n.ast.value)]
    need(len(sels) == 1, "idiom changed: re-indexing by the explicit order in init_mapped_dim (%d statements)" % len(sels))
    # paths on which an order is given: the arm of `<order> is [not] None` that says "no order" is cut
    cut = set()
    for t in g.nodes:
        if t.kind == "test" and norm(t.ast) in ("%s is not None" % ORD, "%s is None" % ORD, ORD, "not %s" % ORD):
            dead = "f" if norm(t.ast) in ("%s is not None" % ORD, ORD) else "t"
            for b_, l_ in g.succ[t.id]:
                if l_ == dead:
                    cut.add((t.id, b_, l_))
    skip = g.reachable(start=ords[0].id, blocked_nodes={sels[0].id}, blocked_edges=cut)
    if R.id in skip:
        # which test lets a path with an order given go round the re-indexing?
        tests = [t for t in g.nodes if t.kind == "test" and t.id in skip and sels[0].id in g.reachable(start=t.id) and not any((t.id, b_, l_) in cut for b_, l_ in g.succ[t.id])]
        txts = []
        for t in tests:
            tx = norm(t.ast)
            for nm_ in {x.id for x in ast.walk(t.ast) if isinstance(x, ast.Name)}:
                for _, v_ in assignments_to(imd, nm_):
                    if v_ is not None:
                        tx += " <- " + norm(v_)
            txts.append(tx)
        if any("sorted(" in tx for tx in txts):
            r20.bad(ctx.finding("C18.R20", imd, sels[0].ast, "with an explicit order given the re-indexing `%s` is skipped when the order equals the *sorted* coordinates; the dataset need not store them sorted, so slices are then drawn, styled and placed in the stored order, not the requested one" % norm(sels[0].ast)[:60],
                                construct="order-skipped-when-sorted"), "order applied")
        else:
            raise AnalysisError("idiom changed: with an explicit order given a path through init_mapped_dim reaches the recording of the coordinates without `%s` (tests: %s); whether the skipped re-indexing is a no-op there is not analysed" % (norm(sels[0].ast)[:50], "; ".join(txts)[:120]))
    else:
        r20.ok("order given -> `%s` on every path to domains[name]" % norm(sels[0].ast)[:60])
    sz = [n for n in g.nodes if n.kind == "stmt" and isinstance(n.ast, ast.Assign) and norm(n.ast.targets[0]) == "self.sizes[%s]" % PN and "domains" in norm(n.ast.value)]
    if sz and norm(sz[0].ast.value) == "len(self.domains[%s])" % PN:
        r7.ok("sizes[name] = len(domains[name])")


    # ---- R8 mask polarity
    r8 = ctx.rule("C18.R8", "join_across_missing: truthy -> x and y filtered by the both-non-null mask; falsy -> unfiltered (NaNs stay as gaps)", floor=2)
    gp = build_cfg(pl.node)
    UNFILTERED = {"()", "...", "Ellipsis", "slice(None)", "np.s_[:]", "np.s_[...]"}
    for val, want in ((TRUTHY, "mask"), (FALSY, "()")):
        fl = Flow(gp, {"self.join_across_missing": val}).run()
        dm = [n for n in gp.nodes if n.id in fl.visited and n.kind == "stmt" and isinstance(n.ast, ast.Assign) and norm(n.ast.targets[0]) == "data_mask"]
        need(dm, "anchor lost: `data_mask` in plot_lines")
        kinds = set()
        for d in dm:
            dv = d.ast.value
            if isinstance(dv, ast.IfExp):
                tt = dv.test
                neg_ = isinstance(tt, ast.UnaryOp) and isinstance(tt.op, ast.Not)
                need(norm(tt.operand if neg_ else tt) == "self.join_across_missing", "idiom changed: data_mask = %s" % norm(dv)[:60])
                dv = dv.body if ((val == TRUTHY) != neg_) else dv.orelse
                d = type("N", (), {"ast": ast.Assign(targets=d.ast.targets, value=dv, lineno=d.ast.lineno), "id": d.id})()
                dm = [d if x.id == d.id else x for x in dm]
            vt = norm(dv)
            if vt in UNFILTERED:
                kinds.add("()")
            elif isinstance(d.ast.value, ast.Name):
                kinds.add("mask")
            else:
                raise AnalysisError("idiom changed: data_mask = %s" % vt[:50])
        # the last definition on the path decides; with one reachable definition that is it
        if len(dm) == 1 and kinds == {want}:
            r8.ok("join_across_missing %s -> data_mask = %s" % ("truthy" if val == TRUTHY else "falsy", norm(dm[0].ast.value)))
        elif len(dm) == 1:
            r8.bad(ctx.finding("C18.R8", pl, dm[0].ast, "with join_across_missing %s the data mask is %s (expected %s): %s" % ("truthy" if val == TRUTHY else "falsy", [norm(d.ast.value) for d in dm], "the non-null mask" if want == "mask" else "no filtering",
                               "NaNs are kept although lines should join across them" if val == TRUTHY else "NaN gaps are removed although they should stay"), construct="mask-polarity %s" % want), "mask polarity %s" % want)
        else:
            last = [d for d in dm if not any(o is not d and o.id in gp.reachable(start=d.id, skip_labels=("exc",)) and o.id in fl.visited for o in dm)]
            lk = {"()" if norm(d.ast.value) in UNFILTERED else "mask" for d in last}
            if lk == {want}:
                r8.ok("join_across_missing %s -> data_mask ends as %s" % ("truthy" if val == TRUTHY else "falsy", want))
            elif len(lk) == 1:
                r8.bad(ctx.finding("C18.R8", pl, last[0].ast, "with join_across_missing %s the data mask ends as %s" % ("truthy" if val == TRUTHY else "falsy", sorted(lk)), construct="mask-polarity %s" % want), "mask polarity %s" % want)
            else:
                raise AnalysisError("idiom changed: several data_mask definitions reach ax.plot")
    pcalls = [c for c in walk_shallow(pl.node) if isinstance(c, ast.Call) and isinstance(c.func, ast.Attribute) and c.func.attr == "plot" and norm(c.func.value) == _ax_name(pl)]
    need(len(pcalls) == 1 and len(pcalls[0].args) >= 2, "anchor lost: ax.plot(x, y) in plot_lines")

    def filtered(e):
        """(array expr, mask expr | None) of a plot argument, through single-definition locals"""
        hops = 0
        while isinstance(e, ast.Name) and hops < 4:
            d_ = single_def(pl, e.id)
            if d_ is None:
                break
            e = d_[1]
            hops += 1
        if isinstance(e, ast.Subscript) and isinstance(e.slice, ast.Name):
            return e.value, e.slice.id
        return e, None
    (xa, xmk), (ya, ymk) = filtered(pcalls[0].args[0]), filtered(pcalls[0].args[1])
    if xmk is not None and xmk == ymk:
        r8.ok("x and y are filtered with the same mask `%s`" % xmk)
    elif (xmk is None) != (ymk is None) or (xmk is not None and xmk != ymk):
        r8.bad(ctx.finding("C18.R8", pl, pcalls[0], "x is filtered with `%s` and y with `%s`: the two arrays of a line get out of step" % (xmk, ymk), construct="mask-apply"), "mask apply")
    else:
        raise AnalysisError("idiom changed: the x / y arguments of ax.plot are not `array[mask]`")
    # the mask the data mask is taken from when joining across missing values
    if xmk is not None:
        srcs = {norm(a_) for _, v in assignments_to(pl, xmk) if v is not None for a_ in ([v.body, v.orelse] if isinstance(v, ast.IfExp) else [v]) if isinstance(a_, ast.Name)}
        need(len(srcs) == 1, "idiom changed: the source of `%s`" % xmk)
        mname = srcs.pop()
        mst = sorted((n for n in walk_shallow(pl.node) if isinstance(n, (ast.Assign, ast.AugAssign)) and norm(n.targets[0] if isinstance(n, ast.Assign) else n.target) == mname), key=lambda n: n.lineno)
        need(mst and isinstance(mst[0], ast.Assign), "idiom changed: definition of `%s`" % mname)
        roles_seen = []
        wrong = None
        caps = [n for n in gp.nodes if n.kind == "stmt" and isinstance(n.ast, ast.Assign) and norm(n.ast.targets[0]) == xmk and mname in names_in(n.ast.value)]
        for cp in caps:
            after = gp.reachable(start=cp.id, blocked_nodes=[h.id for h in gp.nodes if h.kind == "for"], skip_labels=("exc",))
            late = [n for n in gp.nodes if n.id in after and n.id != cp.id and n.kind == "stmt" and isinstance(n.ast, ast.Assign) and norm(n.ast.targets[0]) == mname]
            if late:
                wrong = (late[0].ast, "`%s` re-binds the mask after `%s` captured it: the x / y arrays are filtered with the earlier, incomplete mask" % (norm(late[0].ast)[:50], norm(cp.ast)[:40]))
        for st in ([] if wrong else mst):
            if isinstance(st, ast.AugAssign) and not isinstance(st.op, ast.BitAnd):
                wrong = (st, "`%s`: the masks are not and-ed" % norm(st)[:40])
                break
            stack = [st.value]
            while stack:
                e = stack.pop()
                if isinstance(e, ast.BinOp) and isinstance(e.op, ast.BitAnd):
                    stack += [e.left, e.right]
                    continue
                if isinstance(e, ast.BinOp) and isinstance(e.op, ast.BitOr):
                    wrong = (e, "`|` keeps points where only one of x / y is present")
                    break
                t_ = norm(e)
                if t_ == mname and isinstance(st, ast.Assign) and st is not mst[0]:
                    continue          # mask = mask & ...: continues the conjunction
                inv = isinstance(e, ast.UnaryOp) and isinstance(e.op, ast.Invert)
                core = e.operand if inv else e
                tc = norm(core)
                pos = (".notnull()" in tc or "isfinite(" in tc or ".notna()" in tc)
                neg = (".isnull()" in tc or "isnan(" in tc or ".isna()" in tc)
                if pos == neg:
                    raise AnalysisError("idiom changed: mask term `%s`" % t_[:60])
                if (pos and inv) or (neg and not inv):
                    wrong = (e, "`%s` selects the MISSING points" % t_[:50])
                    break
                rl = roles_of(core, pl, {"x", "y"})
                need(len(rl) == 1, "idiom changed: mask term `%s` mixes %s" % (t_[:50], sorted(rl)))
                roles_seen.append((list(rl)[0], st))
            if wrong:
                break
        if wrong:
            r8.bad(ctx.finding("C18.R8", pl, wrong[0], "the non-null mask is built with %s" % wrong[1], construct="mask-def"), "mask def")
        else:
            rs_ = [r_ for r_, _ in roles_seen]
            if rs_.count("y") >= 1 and rs_.count("x") == 1 and len(rs_) == 2:
                r8.ok("mask = y non-null (& x non-null when x varies)")
            elif "y" not in rs_ or len(rs_) != len(set(rs_)):
                r8.bad(ctx.finding("C18.R8", pl, mst[0], "the non-null mask is built from %s: it must require y (and x when x varies per slice) exactly once each" % rs_, construct="mask-def"), "mask def")
            elif "x" not in rs_:
                r8.bad(ctx.finding("C18.R8", pl, mst[0], "the non-null mask never looks at x: when x is a data variable, points with a missing x are kept", construct="mask-def"), "mask def")
            else:
                raise AnalysisError("idiom changed: mask terms %s" % rs_)

    # ---- R9 histogram density delegated to numpy
    r9 = ctx.rule("C18.R9", "histogram mode: counts / density come from np.histogram(x, bins=self.bins, density=self.bins_density)", floor=1)
    hs = []
    for fi in [init] + list(init.nested.values()) + [f for f in prog.modules[INF].all_funcs if f.cls is None]:
        for c in ast.walk(fi.node):
            if isinstance(c, ast.Call) and norm(c.func) in ("np.histogram", "numpy.histogram"):
                hs.append((fi, c))
    if not hs:
        raise AnalysisError("anchor lost: np.histogram call in infiniplot")
    for fi, c in hs[:1]:
        b, d = arg(c, 1, "bins"), arg(c, None, "density")

        def _ex(e):
            # a local alias (possibly a closure variable of the enclosing function) of self.bins / self.bins_density
            fcur = fi
            while e is not None and isinstance(e, ast.Name) and fcur is not None:
                dd = single_def(fcur, e.id)
                if dd and dd[1] is not None:
                    e = dd[1]
                    break
                fcur = fcur.parent
            return norm(e) if e is not None else None
        if _ex(b) == "self.bins" and _ex(d) == "self.bins_density":
            r9.ok("np.histogram(x, bins=self.bins, density=self.bins_density)[0]")
        else:
            r9.bad(ctx.finding("C18.R9", fi, c, "the histogram is computed by `%s`: density normalisation is not delegated to np.histogram(..., bins=self.bins, density=self.bins_density), so with unevenly spaced bin edges the drawn density is not the true density" % norm(c)[:70],
                               construct="histogram-density"), "histogram density")

    # ---- R10 heat-map colour scale shared by all panels
    r10 = ctx.rule("C18.R10", "heat map without palette: every panel and the legend use one colour scale (max_mag of all data)", floor=1)
    tc = [c for c in ast.walk(ph.node) if isinstance(c, ast.Call) and norm(c.func) == "to_colors"]
    lg = [c for c in ast.walk(ph.node) if isinstance(c, ast.Call) and norm(c.func) == "add_visualize_legend"]
    need(tc and lg, "anchor lost: to_colors / add_visualize_legend in plot_heatmap")
    mm_t = arg(tc[0], None, "max_mag")
    mm_l = arg(lg[0], None, "max_mag")
    loopn = [n for n in walk_shallow(ph.node) if isinstance(n, ast.For) and "self.ranges" in norm(n.iter)]
    need(len(loopn) == 1, "anchor lost: location loop in plot_heatmap")
    in_loop = {x.id for st in ast.walk(loopn[0]) if isinstance(st, (ast.Assign, ast.AugAssign, ast.For)) for t_ in (st.targets if isinstance(st, ast.Assign) else [st.target]) for x in ast.walk(t_) if isinstance(x, ast.Name)}

    def per_panel(e, depth=0):
        """does the value depend on a name assigned inside the location loop?"""
        if e is None:
            return True          # to_colors' own default: the maximum of the array it is given (the panel's)
        for nm in names_in(e):
            if nm in in_loop:
                return True
            for _, v in assignments_to(ph, nm):
                if v is not None and depth < 4 and per_panel(v, depth + 1):
                    return True
        return False
    if per_panel(mm_t):
        r10.bad(ctx.finding("C18.R10", ph, tc[0], "the per-panel colours (`%s`) are normalised with a value computed from the panel's own data (or to_colors' default) instead of the global max_mag: equal z values get different colours in different panels and disagree with the legend" % norm(tc[0])[:70],
                            construct="heatmap-max_mag"), "shared colour scale")
    elif mm_l is None or per_panel(mm_l):
        r10.bad(ctx.finding("C18.R10", ph, lg[0], "the legend's colour scale is not the global max_mag the panels use", construct="heatmap-max_mag"), "shared colour scale")
    elif _exp_local(ph, mm_t) == _exp_local(ph, mm_l):
        r10.ok("to_colors(..., max_mag=max_mag) and the legend share max_mag computed once from all finite data")
    else:
        raise AnalysisError("idiom changed: panels use max_mag=%s, the legend max_mag=%s" % (_exp_local(ph, mm_t)[:40], _exp_local(ph, mm_l)[:40]))

    # ---- R12 heat map: whatever aggregate was given, every unmapped dimension is aggregated away
    r12 = ctx.rule("C18.R12", "heat map with unmapped dimensions: aggregate None / a name / a list of names are all widened to 'all unmapped dimensions' (one mesh per panel)", floor=3)
    def _stores_agg(n):
        return any(isinstance(x, ast.Assign) and norm(x.targets[0]) == "self.aggregate" for x in ast.walk(n))
    cand_ = [n for n in ast.walk(init.node) if isinstance(n, ast.If) and _stores_agg(n) and "is_heatmap" in " ".join(norm(t.test) for t in ast.walk(n) if isinstance(t, ast.If)) and "unmapped" in " ".join(norm(t.test) for t in ast.walk(n) if isinstance(t, ast.If))]
    blocks = [n for n in cand_ if not any(n is not m and any(n is x for x in ast.walk(m)) for m in cand_)]
    need(len(blocks) == 1, "anchor lost: the heat-map aggregation default in Infiniplotter.__init__")
    wrapper = ast.parse("def _blk(self):\n    pass\n").body[0]
    wrapper.body = [blocks[0]]
    gb = build_cfg(wrapper)
    for label, val in (("None", NONE), ("True", TRUE), ("a dimension name", const("dim_a")), ("a list of names", const(("dim_a", "dim_b")))):
        flb = Flow(gb, {"self.is_heatmap": TRUE, "self.unmapped": TRUTHY, "self.aggregate": val}).run()
        env_x = flb.IN.get(gb.exit.id)
        need(env_x is not None, "idiom changed: heat-map aggregation block does not complete normally")
        got = env_x.get("self.aggregate") if hasattr(env_x, "get") else None
        if got == TRUE:
            r12.ok("aggregate=%s -> True (all unmapped dimensions)" % label)
        elif is_const(got) or got == NONE:
            r12.bad(ctx.finding("C18.R12", init, blocks[0], "in heat-map mode with unmapped dimensions aggregate=%s is left as %r instead of being widened to all unmapped dimensions: the remaining dimension is iterated and several meshes are stacked in one panel "
                                "(the visible one is not the aggregated z)" % (label, got[1]), construct="heatmap-aggregate-not-widened"), "aggregate %s" % label)
        else:
            raise AnalysisError("idiom changed: heat-map aggregation default leaves aggregate=%s as %r" % (label, got))

    # ---- R11 automatic hues of distinct coordinates are distinct
    r11 = ctx.rule("C18.R11", "automatic hues: N equally spaced hues over the sweep exclude the end point whenever the default sweep is a whole number of turns (hue is periodic)", floor=1)
    ls = []
    for fn in [init] + list(init.nested.values()):
        for c in walk_shallow(fn.node):
            if isinstance(c, ast.Call) and norm(c.func).rsplit(".", 1)[-1] in ("linspace", "arange") and "autohue_sweep" in norm(c):
                ls.append((fn, c))
    need(len(ls) == 1, "anchor lost: the generator of the automatic hues (linspace over autohue_sweep)")
    fn, c = ls[0]
    ctx.touch(fn)
    dflt = None
    cands = []
    for node in ast.walk(init.module.tree):
        if isinstance(node, (ast.FunctionDef, ast.AsyncFunctionDef)):
            a = node.args
            names = [x.arg for x in a.args][len(a.args) - len(a.defaults):]
            cands += [d for nme, d in list(zip(names, a.defaults)) + [(x.arg, d) for x, d in zip(a.kwonlyargs, a.kw_defaults) if d is not None] if nme == "autohue_sweep"]
        elif isinstance(node, ast.Call) and norm(node.func) == "dict" and getattr(node, "_parent", None) is not None and isinstance(getattr(node, "_parent"), ast.Assign) and getattr(getattr(node, "_parent"), "_parent", None) is init.module.tree:
            cands += [k.value for k in node.keywords if k.arg == "autohue_sweep"]
        elif isinstance(node, ast.Dict) and isinstance(getattr(node, "_parent", None), ast.Assign) and getattr(getattr(node, "_parent"), "_parent", None) is init.module.tree:
            cands += [v for k, v in zip(node.keys, node.values) if isinstance(k, ast.Constant) and k.value == "autohue_sweep"]
    need(len(cands) == 1, "anchor lost: the default of autohue_sweep (%d candidates)" % len(cands))
    try:
        dflt = float(ast.literal_eval(cands[0]))
    except Exception:
        raise AnalysisError("idiom changed: default of autohue_sweep is not a literal")
    need(dflt is not None, "anchor lost: default of autohue_sweep")
    ep = arg(c, None, "endpoint")
    if norm(c.func).endswith("arange"):
        raise AnalysisError("idiom changed: automatic hues built with arange")
    if dflt != int(dflt) or dflt == 0:
        r11.ok("default sweep %s is not a whole number of turns: the end point does not coincide with the start" % dflt)
    elif isinstance(ep, ast.Constant) and ep.value is False:
        r11.ok("linspace(start, start + sweep, N, endpoint=False) with default sweep %s: N distinct hues" % dflt)
    elif ep is None or (isinstance(ep, ast.Constant) and ep.value is True):
        r11.bad(ctx.finding("C18.R11", fn, c, "the automatic hues include the end point of the sweep; with the default sweep of %s turn(s) the last hue equals the first (hue is periodic), so the first and the last coordinate mapped to `hue` are drawn with the same colours although distinct default hues remain" % dflt,
                            construct="autohue-endpoint"), "autohue endpoint")
    else:
        raise AnalysisError("idiom changed: endpoint=%s in the automatic hue generator" % norm(ep))


def enclosing_func_of(n, funcs):
    for p in _parents(n):
        for f in funcs:
            if p is f.node:
                return f
    raise AnalysisError("enclosing function of `%s` not in the analysed family" % norm(n)[:40])


def _parents(n):
    p = getattr(n, "_parent", None)
    while p is not None:
        yield p
        p = getattr(p, "_parent", None)


# ------------------------------------------------------------------ C18: classification of a mapped property, selection mapping, None contradictions
def _facts(tests):
    """atomic facts (expr, truth) that definitely hold given the (test, polarity) list: conjuncts of true `and`s,
    disjuncts of false `or`s, operands of `not`"""
    out = []

    def add(e, pol):
        if isinstance(e, ast.UnaryOp) and isinstance(e.op, ast.Not):
            add(e.operand, not pol)
        elif isinstance(e, ast.BoolOp) and isinstance(e.op, ast.And) and pol:
            for v in e.values:
                add(v, True)
        elif isinstance(e, ast.BoolOp) and isinstance(e.op, ast.Or) and not pol:
            for v in e.values:
                add(v, False)
        else:
            out.append((e, pol))
    for t, pol in tests:
        add(t, pol)
    return out


def _none_fact(facts, key):
    """does the fact list say that `key` (normalised text) is None?  -> True (is None) / False (is not None) / None"""
    for e, pol in facts:
        if isinstance(e, ast.Compare) and len(e.ops) == 1 and norm(e.left) == key and isinstance(e.comparators[0], ast.Constant) and e.comparators[0].value is None:
            if isinstance(e.ops[0], ast.Is):
                return pol
            if isinstance(e.ops[0], ast.IsNot):
                return not pol
    return None


def _exp_local(fi, e, depth=0):
    """normalised text of `e` with local names that have a single definition replaced by it"""
    if depth > 3:
        return norm(e)
    e2 = ast.parse(norm(e), mode="eval").body

    class R(ast.NodeTransformer):
        def visit_Name(self, n):
            d = single_def(fi, n.id) if isinstance(n.ctx, ast.Load) and n.id not in fi.params else None
            if d is not None and d[1] is not None:
                return ast.parse(_exp_local(fi, d[1], depth + 1), mode="eval").body
            return n
    return norm(R().visit(e2))


def _imd_names(imd):
    """(local holding the property's value, local holding the fused name, name of the property parameter) of init_mapped_dim"""
    need(len(imd.positional) >= 2, "idiom changed: init_mapped_dim signature")
    PN = imd.positional[1]

    def through_alias(v):
        hops = 0
        while isinstance(v, ast.Name) and hops < 3:
            d = single_def(imd, v.id)
            if d is None:
                break
            v = d[1]
            hops += 1
        return v
    nodes = sorted((n for n in walk_shallow(imd.node) if isinstance(n, ast.stmt)), key=lambda n: n.lineno)
    dv_ = []
    for n in nodes:
        if isinstance(n, ast.Assign) and isinstance(n.targets[0], ast.Name):
            v = through_alias(n.value)
            if isinstance(v, ast.Call) and norm(v.func) == "getattr" and len(v.args) == 2 and norm(v.args[0]) == "self" and norm(v.args[1]) == PN:
                dv_.append(n.targets[0].id)
    # the alias itself also matches; the property's local is the one that is re-assigned / tested later: prefer the last in the alias chain
    need(dv_, "anchor lost: <dim> = getattr(self, name) in init_mapped_dim")
    DIM = dv_[-1]
    # the property's local is the one written back with setattr(self, name, <local>) at the end, when there is such a statement
    back = {norm(c.args[2]) for c in ast.walk(imd.node) if isinstance(c, ast.Call) and norm(c.func) == "setattr" and len(c.args) == 3 and norm(c.args[0]) == "self" and norm(c.args[1]) == PN and isinstance(c.args[2], ast.Name)}
    if len(back) == 1 and back != {DIM}:
        other = back.pop()
        # ... provided it takes the getattr local's value on some path (an alias, or one arm of a normalisation)
        if any(isinstance(n, ast.Assign) and isinstance(n.targets[0], ast.Name) and n.targets[0].id == other and norm(n.value) in dv_ for n in ast.walk(imd.node)):
            raise AnalysisError("idiom changed: init_mapped_dim keeps the property's value in two locals (`%s` as read, `%s` as written back); the rules follow one" % (DIM, other))
    nv_ = []
    for n in nodes:
        if isinstance(n, ast.Assign) and isinstance(n.targets[0], ast.Name):
            v = through_alias(n.value)
            if isinstance(v, ast.Call) and isinstance(v.func, ast.Attribute) and v.func.attr == "join" and v.args and norm(v.args[0]) == DIM and n.targets[0].id != DIM:
                nv_.append(n.targets[0].id)
    need(nv_, "anchor lost: the fused name `', '.join(<dim>)` in init_mapped_dim")
    return DIM, nv_[-1], PN


def c18_structure_rules(ctx):
    from ..pathcond import path_tests, Truth, _reassigned_between
    prog = ctx.prog
    I = prog.need_cls(INF + ".Infiniplotter")
    pl, ph, imd, init = (I.methods.get(k) for k in ("plot_lines", "plot_heatmap", "init_mapped_dim", "__init__"))
    need(pl and ph and imd and init, "anchor lost: Infiniplotter methods")

    # ---- R13: x taken per slice whenever x is a data variable
    r13 = ctx.rule("C18.R13", "x values of a slice: when x is a data variable they are selected per slice (never the whole variable), on every path to ax.plot", floor=2)
    plots_ = [c for c in walk_shallow(pl.node) if isinstance(c, ast.Call) and isinstance(c.func, ast.Attribute) and c.func.attr == "plot" and norm(c.func.value) == _ax_name(pl)]
    need(len(plots_) == 1 and plots_[0].args, "anchor lost: ax.plot in plot_lines")
    # chase the x argument back to the (possibly several) definitions of the raw x values
    xname = plots_[0].args[0]
    hops = 0
    while isinstance(xname, ast.Name):
        d = single_def(pl, xname.id)
        if d is None:
            break
        e = d[1]
        # strip the mask subscript
        if isinstance(e, ast.Subscript) and isinstance(e.value, ast.Name):
            e = e.value
        xname = e
        hops += 1
        need(hops < 5, "idiom changed: x argument of ax.plot in plot_lines")
    need(isinstance(xname, ast.Name), "idiom changed: x argument of ax.plot is `%s`" % norm(xname))
    defs = [(n, v) for n, v in assignments_to(pl, xname.id) if v is not None]
    need(len(defs) >= 1, "anchor lost: definitions of %s in plot_lines" % xname.id)
    locals_ = {nm: v for nm in {x.id for x in ast.walk(pl.node) if isinstance(x, ast.Name)} for d_ in [single_def(pl, nm)] if d_ is not None for v in [d_[1]]}
    T = Truth({"X": ["self.x in self.ds.data_vars"]}, fi=pl, auto=True)
    slice_names = {nm for nm, v in locals_.items() if ".isel(" in norm(v) or ".sel(" in norm(v)}
    local_ok = {False: False, True: False}
    for n, v in defs:
        txt = norm(v)
        is_local = any(nm in names_in(v) for nm in slice_names) or ".isel(loc)" in txt
        is_global = not is_local and "self.ds" in txt
        need(is_local or is_global, "idiom changed: x values `%s = %s`" % (xname.id, txt))
        tests = path_tests(pl.node, n.ast)
        f = T.reach(tests)
        for X in (False, True):
            reach = f({"X": X})
            if is_global and reach and X:
                r13.bad(ctx.finding("C18.R13", pl, n.ast, "when x is a data variable the x values of every slice are `%s` -- the whole variable, not the slice's values: every line is drawn against all slices' x values (or raises on the shape mismatch)" % txt[:60], construct="x-not-per-slice"), "x per slice")
            if is_local and reach:
                local_ok[X] = True
        r13.ok("%s = %s reached %s" % (xname.id, txt[:50], "only when x is a coordinate" if is_global else "when x is a data variable"))
    glob_reach_false = any(T.reach(path_tests(pl.node, n.ast))({"X": False}) for n, v in defs)
    if not local_ok[True] and not r13.findings:
        r13.bad(ctx.finding("C18.R13", pl, plots_[0], "when x is a data variable no definition of `%s` is reached before ax.plot: the slice's x values are never selected" % xname.id, construct="x-slice-missing"), "x per slice reached")
    elif not glob_reach_false:
        r13.bad(ctx.finding("C18.R13", pl, plots_[0], "when x is a coordinate no definition of `%s` is reached before ax.plot" % xname.id, construct="x-coordinate-missing"), "x coordinate reached")
    else:
        r13.ok("a definition of the x values is reached for x a data variable (per slice) and for x a coordinate")

    # ---- R14: the selection mapping of a location is {dimension: index}
    r14 = ctx.rule("C18.R14", "location mapping: loc = dict(zip(<dimension names>, <index tuple of the product loop>)), names and index ranges appended in lock-step", floor=2)
    for f in (pl, ph):
        loops = [n for n in walk_shallow(f.node) if isinstance(n, ast.For) and "self.ranges" in norm(n.iter)]
        need(len(loops) == 1 and isinstance(loops[0].target, ast.Name), "anchor lost: location loop in %s" % f.name)
        lv = loops[0].target.id
        locd = [v for n, v in assignments_to(f, "loc") if v is not None]
        need(len(locd) == 1, "anchor lost: `loc` in %s" % f.name)
        v = locd[0]
        if isinstance(v, ast.Call) and norm(v.func) == "dict" and len(v.args) == 1 and isinstance(v.args[0], ast.Call) and norm(v.args[0].func) == "zip" and len(v.args[0].args) == 2:
            a, b = v.args[0].args
            if norm(b) == lv and lv not in names_in(a):
                r14.ok("%s: loc = dict(zip(%s, %s))" % (f.name, norm(a), lv))
            elif norm(a) == lv:
                r14.bad(ctx.finding("C18.R14", f, v, "loc maps the loop's indices to the dimension names (`%s`): isel(loc) and loc[self.row] look dimensions up by name, so no slice is selected / placed correctly" % norm(v), construct="loc-orientation " + f.name), "loc orientation")
            else:
                raise AnalysisError("idiom changed: loc = %s in %s" % (norm(v), f.name))
        elif isinstance(v, ast.DictComp) and len(v.generators) == 1 and isinstance(v.generators[0].iter, ast.Call) and norm(v.generators[0].iter.func) == "zip":
            a, b = v.generators[0].iter.args[:2]
            tg = v.generators[0].target
            need(isinstance(tg, ast.Tuple) and len(tg.elts) == 2, "idiom changed: loc comprehension in %s" % f.name)
            kpos = [i for i, t in enumerate(tg.elts) if norm(t) == norm(v.key)]
            need(len(kpos) == 1, "idiom changed: loc comprehension key in %s" % f.name)
            key_src = (a, b)[kpos[0]]
            if norm(key_src) != lv and norm((a, b)[1 - kpos[0]]) == lv:
                r14.ok("%s: loc = {dim: index ...}" % f.name)
            else:
                r14.bad(ctx.finding("C18.R14", f, v, "loc's keys come from the loop's index tuple", construct="loc-orientation " + f.name), "loc orientation")
        else:
            raise AnalysisError("idiom changed: loc = %s in %s" % (norm(v), f.name))
    # lock-step of names and sizes in __init__
    t = method_text(ctx, init)
    apps = [n for n in ast.walk(init.node) if isinstance(n, ast.Call) and isinstance(n.func, ast.Attribute) and n.func.attr == "append" and norm(n.func.value) in ("self.remaining_dims", "self.remaining_sizes")]
    if apps:
        blocks = {id(getattr(getattr(n, "_parent", None), "_parent", None)): [] for n in apps}
        for n in apps:
            blocks[id(getattr(getattr(n, "_parent", None), "_parent", None))].append(norm(n.func.value))
        if all(sorted(v) == ["self.remaining_dims", "self.remaining_sizes"] for v in blocks.values()):
            r14.ok("remaining_dims and remaining_sizes are appended together")
        else:
            r14.bad(ctx.finding("C18.R14", init, apps[0], "remaining_dims and remaining_sizes are not appended under the same condition: names and index ranges go out of step", construct="remaining-lockstep"), "lock-step")

    # ---- R15: a mapped property's name is never used as a key where the path says it is None
    r15 = ctx.rule("C18.R15", "no look-up keyed by a mapped property (loc[...], ds_loc[...], ', '.join(...)) on a path whose own tests say the property is None", floor=3)
    for f in I.methods.values():
        ctx.touch(f)
        for n in walk_shallow(f.node):
            keys = []
            if isinstance(n, ast.Subscript) and isinstance(n.ctx, ast.Load) and norm(n.value) in ("loc", "ds_loc", "self.ds") and isinstance(n.slice, (ast.Name, ast.Attribute)):
                keys = [n.slice]
            elif isinstance(n, ast.Call) and isinstance(n.func, ast.Attribute) and n.func.attr == "join" and len(n.args) == 1 and isinstance(n.args[0], (ast.Tuple, ast.List)):
                keys = [e for e in n.args[0].elts if isinstance(e, (ast.Name, ast.Attribute))]
            for k in keys:
                kt = norm(k)
                tests = [(t_, p_) for t_, p_ in path_tests(f.node, n) if not (isinstance(k, ast.Name) and _reassigned_between(f.node, k.id, t_, n))]
                nf = _none_fact(_facts(tests), kt)
                if nf is True:
                    r15.bad(ctx.finding("C18.R15", f, n, "`%s` is evaluated on a path whose own tests say `%s is None`: the branch for a mapped property runs when the property is not mapped (KeyError / TypeError), and is skipped when it is -- mapped coordinates are then not styled / placed" % (norm(n)[:50], kt), construct="none-key " + kt), "none key %s" % kt)
                elif nf is False:
                    r15.ok("%s: %s only where %s is not None" % (f.name, norm(n)[:40], kt))

    # ---- R16: init_mapped_dim classification: fused / constant / mapped / absent
    r16 = ctx.rule("C18.R16", "init_mapped_dim: fused names are stacked iff all components are dimensions; a value that is no dimension is a constant style (size 1, attribute reset); a dimension is mapped (domains, values); every path records the attribute", floor=6)
    g = build_cfg(imd.node)
    nodes = list(walk_shallow(imd.node))
    # the local that holds the property's value, and the local that holds the fused name
    DIM, NEW, PN = _imd_names(imd)
    atoms = {"T": ["isinstance(%s, tuple)" % DIM], "A": ["%s in self.ds.dims" % NEW], "B": ["all((x in self.ds.dims for x in %s))" % DIM, "all([x in self.ds.dims for x in %s])" % DIM],
             "N": ["%s is None" % DIM], "D": ["%s in self.ds.dims" % DIM], "C": ["custom_values is None"], "V": ["default_values is None"]}
    TT = Truth(atoms, fi=imd, auto=True)
    names = sorted(atoms)

    def cond_of(node):
        f_ = TT.reach(path_tests(imd.node, node))
        return lambda **kw: f_({**{a: False for a in names}, **kw})

    def vals(**fixed):
        import itertools
        free = [a for a in ("T", "A", "B", "N", "D", "C", "V") if a not in fixed]
        for combo in itertools.product((False, True), repeat=len(free)):
            v = dict(zip(free, combo), **fixed)
            if v.get("N") and v.get("D"):
                continue          # None is no dimension
            if v.get("A") and v.get("B"):
                continue          # a fused name exists only once its components are levels, not dimensions
            yield v
    # an inverted membership inside the all(...) is recognised as wrong outright
    for n in nodes:
        if isinstance(n, ast.Call) and norm(n.func) == "all" and n.args and isinstance(n.args[0], ast.GeneratorExp) and isinstance(n.args[0].elt, ast.Compare) and isinstance(n.args[0].elt.ops[0], ast.NotIn) and "self.ds.dims" in norm(n.args[0].elt):
            r16.bad(ctx.finding("C18.R16", imd, n, "the fused-dimension test asks that NO component is a dimension (`%s`): fused mappings of existing dimensions are never stacked" % norm(n), construct="fused-test-inverted"), "fused test")
            return
    stacks = [n for n in nodes if isinstance(n, ast.Assign) and norm(n.targets[0]) == "self.ds" and ".stack(" in norm(n.value)]
    need(len(stacks) == 1, "anchor lost: self.ds = self.ds.stack(...) in init_mapped_dim")
    c = cond_of(stacks[0])
    bad = [v for v in vals() if c(**v) != (v["T"] and not v["A"] and v["B"])]
    if bad:
        v = bad[0]
        r16.bad(ctx.finding("C18.R16", imd, stacks[0], "the dataset is %sstacked when the property is %sa tuple, the fused name is %salready a dimension and %s components are dimensions" % ("" if c(**v) else "not ", "" if v["T"] else "not ", "" if v["A"] else "not ", "all" if v["B"] else "not all"), construct="fused-stack-condition"), "stack condition")
    else:
        r16.ok("stacked iff a tuple, not yet fused, all components are dimensions")
    rebinds = [n for n in nodes if isinstance(n, ast.Assign) and norm(n.targets[0]) == DIM and norm(n.value) == NEW]
    need(rebinds, "anchor lost: <dim> = <fused name> in init_mapped_dim")
    cs = [cond_of(n) for n in rebinds]
    bad = [v for v in vals() if any(c_(**v) for c_ in cs) != (v["T"] and (v["A"] or v["B"]))]
    if bad:
        v = bad[0]
        r16.bad(ctx.finding("C18.R16", imd, rebinds[0], "the property is %sre-pointed at the fused name when tuple=%s, fused name present=%s, all components present=%s" % ("" if any(c_(**v) for c_ in cs) else "not ", v["T"], v["A"], v["B"]), construct="fused-rebind-condition"), "fused rebind")
    else:
        r16.ok("dim = fused name iff the fused dimension exists or was just created")
    # constant branch
    consts_ = [n for n in nodes if isinstance(n, ast.Assign) and norm(n.targets[0]) == "self.base_style[%s]" % PN]
    need(len(consts_) == 1, "anchor lost: self.base_style[name] = dim")
    c = cond_of(consts_[0])
    bad = [v for v in vals(T=False, A=False, B=False) if c(**v) != ((not v["N"]) and (not v["D"]))]
    if bad:
        v = bad[0]
        r16.bad(ctx.finding("C18.R16", imd, consts_[0], "the value is %streated as a constant style when it is %sNone and is %sa dimension of the dataset" % ("" if c(**v) else "not ", "" if v["N"] else "not ", "" if v["D"] else "not "), construct="constant-branch-condition"), "constant branch")
    else:
        r16.ok("constant style iff the value is given and is no dimension")
    # mapped branch
    doms = [n for n in nodes if isinstance(n, ast.Assign) and norm(n.targets[0]) == "self.domains[%s]" % PN]
    need(len(doms) == 1, "anchor lost: self.domains[name]")
    c = cond_of(doms[0])
    bad = [v for v in vals(T=False, A=False, B=False) if c(**v) != ((not v["N"]) and v["D"])]
    if bad:
        v = bad[0]
        r16.bad(ctx.finding("C18.R16", imd, doms[0], "the coordinates are %srecorded when the value is %sNone and is %sa dimension" % ("" if c(**v) else "not ", "" if v["N"] else "not ", "" if v["D"] else "not "), construct="mapped-branch-condition"), "mapped branch")
    else:
        r16.ok("coordinates recorded iff the value is a dimension")
    # sizes
    for n in nodes:
        if isinstance(n, ast.Assign) and norm(n.targets[0]) == "self.sizes[%s]" % PN:
            c = cond_of(n)
            mapped = any(c(**v) and (not v["N"]) and v["D"] for v in vals(T=False, A=False, B=False))
            vtxt = norm(n.value)
            if mapped:
                if vtxt != "len(self.domains[%s])" % PN and _exp_local(imd, n.value) not in ("len(self.domains[%s])" % PN, "len(%s)" % _exp_local(imd, doms[0].value)):
                    if isinstance(n.value, ast.Constant):
                        r16.bad(ctx.finding("C18.R16", imd, n, "a mapped dimension is given the constant size %s" % vtxt, construct="size-mapped"), "size mapped")
                    else:
                        raise AnalysisError("idiom changed: size of a mapped dimension = %s" % vtxt)
                else:
                    r16.ok("mapped: sizes[name] = len(domains[name])")
            elif isinstance(n.value, ast.Constant) and n.value.value == 1:
                r16.ok("not mapped: sizes[name] = 1")
            elif isinstance(n.value, ast.Constant):
                r16.bad(ctx.finding("C18.R16", imd, n, "a property that is not mapped to a dimension gets size %s instead of 1: the grid / product of locations has the wrong extent" % vtxt, construct="size-unmapped"), "size unmapped")
            else:
                raise AnalysisError("idiom changed: size of an unmapped property = %s" % vtxt)
    # every normal path records the attribute
    sets_ = [n for n in g.nodes if any(norm(c_.func) == "setattr" and len(c_.args) == 3 and norm(c_.args[0]) == "self" and norm(c_.args[1]) == PN for c_ in node_calls(n))]
    if not sets_:
        r16.bad(ctx.finding("C18.R16", imd, imd.node, "init_mapped_dim never records the resolved property (setattr(self, name, ...)): fused tuples / constant styles stay in the attribute the drawing code keys `loc` with", construct="attr-not-recorded"), "attribute recorded")
    else:
        reach = g.reachable(start=g.entry.id, blocked_nodes=[n.id for n in sets_], skip_labels=("exc",))
        if g.exit.id in reach:
            r16.bad(ctx.finding("C18.R16", imd, imd.node, "a path through init_mapped_dim returns without recording the resolved property (setattr(self, name, ...)): the attribute keeps the user's value (a tuple, a colour name) and the drawing code uses it as a dimension name", construct="attr-not-recorded"), "attribute recorded")
        else:
            r16.ok("every normal path records the resolved property with setattr(self, name, ...)")
        for n in sets_:
            for c_ in node_calls(n):
                if norm(c_.func) == "setattr" and len(c_.args) == 3:
                    cc = cond_of(n.stmt)
                    in_const = any(cc(**v) and (not v["N"]) and (not v["D"]) for v in vals(T=False, A=False, B=False)) and not any(cc(**v) and v["D"] for v in vals(T=False, A=False, B=False))
                    vt = norm(c_.args[2])
                    if in_const and vt != "None":
                        r16.bad(ctx.finding("C18.R16", imd, c_, "a constant style value is recorded as the mapped dimension (`%s`)" % vt, construct="attr-constant"), "attribute constant")
                    elif not in_const and vt != DIM:
                        raise AnalysisError("idiom changed: setattr(self, name, %s)" % vt)
                    else:
                        r16.ok("setattr(self, name, %s) %s" % (vt, "in the constant branch" if in_const else "otherwise"))
    # values
    vs = [n for n in nodes if isinstance(n, ast.Assign) and norm(n.targets[0]) == "self.values[%s]" % PN]
    need(vs, "anchor lost: self.values[name]")
    covered = {}
    for n in vs:
        c = cond_of(n)
        uses_custom = "custom_values" in names_in(n.value)
        uses_default = "default_values" in names_in(n.value)
        need(uses_custom != uses_default, "idiom changed: self.values[name] = %s" % norm(n.value)[:60])
        for v in vals(T=False, A=False, B=False, N=False, D=True):
            if c(**v):
                covered[(v["C"], v["V"])] = True
                if uses_custom and v["C"]:
                    r16.bad(ctx.finding("C18.R16", imd, n, "the custom style values are stored where the path says none were given (custom_values is None): the defaults are never used and given values are ignored", construct="values-custom-polarity"), "values polarity")
                    break
                if uses_default and (not v["C"] or v["V"]):
                    r16.bad(ctx.finding("C18.R16", imd, n, "the default style values are stored when %s" % ("custom values were given" if not v["C"] else "there are no defaults"), construct="values-default-polarity"), "values polarity")
                    break
        else:
            r16.ok("values[name] <- %s" % ("custom_values when given" if uses_custom else "defaults when no custom values"))
        if uses_default:
            # the element taken from zip(default_values, range(size)) is the default value
            for ge in ast.walk(n.value):
                if isinstance(ge, ast.GeneratorExp) and isinstance(ge.generators[0].iter, ast.Call) and norm(ge.generators[0].iter.func) == "zip":
                    tg = ge.generators[0].target
                    za = ge.generators[0].iter.args
                    if isinstance(tg, ast.Tuple) and len(tg.elts) == len(za) and isinstance(ge.elt, ast.Name):
                        pos = [i for i, t_ in enumerate(tg.elts) if norm(t_) == ge.elt.id]
                        need(len(pos) == 1, "idiom changed: default values generator")
                        if "default_values" in names_in(za[pos[0]]):
                            r16.ok("the stored defaults are the elements of default_values")
                        else:
                            r16.bad(ctx.finding("C18.R16", imd, ge, "the stored style values are the elements of `%s`, not of default_values" % norm(za[pos[0]]), construct="values-default-source"), "values source")
    if not (covered.get((False, False)) or covered.get((False, True))) and not r16.findings:
        r16.bad(ctx.finding("C18.R16", imd, vs[0], "given custom style values are never stored", construct="values-custom-missing"), "values custom")
    if not covered.get((True, False)) and not r16.findings:
        r16.bad(ctx.finding("C18.R16", imd, vs[0], "default style values are never stored when no custom values are given", construct="values-default-missing"), "values default")

    # ---- R17: every property the drawing code looks up is initialised
    r17 = ctx.rule("C18.R17", "every mappable property read by the drawing code (domains / values / sizes / loc[self.<prop>]) is initialised by init_mapped_dim in __init__", floor=6)
    used = set()
    for f in (pl, ph, init) + tuple(m for m in I.methods.values() if m not in (pl, ph, init, imd)):
        for n in walk_shallow(f.node):
            if isinstance(n, ast.Subscript) and norm(n.value) in ("self.domains", "self.values", "self.sizes") and isinstance(n.slice, ast.Constant) and isinstance(n.slice.value, str):
                used.add(n.slice.value)
            if isinstance(n, ast.For) and isinstance(n.iter, (ast.Tuple, ast.List)) and all(isinstance(e, ast.Constant) and isinstance(e.value, str) for e in n.iter.elts):
                body_t = " ".join(norm(b) for b in n.body)
                if "self.domains[%s]" % norm(n.target) in body_t or "self.values[%s]" % norm(n.target) in body_t:
                    used |= {e.value for e in n.iter.elts}
    inits = {}
    gi = build_cfg(init.node)
    for n in gi.nodes:
        for c_ in node_calls(n):
            if norm(c_.func) == "self.init_mapped_dim" and c_.args and isinstance(c_.args[0], ast.Constant):
                inits.setdefault(c_.args[0].value, []).append(n)
    need(len(used) >= 6, "anchor lost: mapped properties used by the drawing code (%s)" % sorted(used))
    for p in sorted(used):
        ns = inits.get(p, [])
        if not ns:
            r17.bad(ctx.finding("C18.R17", init, init.node, "property %r is looked up by the drawing code (domains / values / sizes) but never initialised with init_mapped_dim: mapping a dimension to it raises or is ignored" % p, construct="prop-uninitialised " + p), "init %s" % p)
        elif gi.exit.id in gi.reachable(start=gi.entry.id, blocked_nodes=[n.id for n in ns], skip_labels=("exc",)):
            r17.bad(ctx.finding("C18.R17", init, ns[0].stmt, "init_mapped_dim(%r) is skipped on some path through __init__" % p, construct="prop-init-conditional " + p), "init %s" % p)
        else:
            r17.ok("init_mapped_dim(%r) on every path" % p)


# ------------------------------------------------------------------ C17: further shape rules
def _last_defs_through(g, Z, defs):
    """definition nodes (of one storage location) whose value can be the current one at the function's normal exit on
    a path that passes through node Z"""
    ids = {d.id for d in defs}
    out = []
    for d in defs:
        others = list(ids - {d.id})
        before = d.id == Z.id or Z.id in g.reachable(start=d.id, blocked_nodes=others, skip_labels=("exc",))
        z_to_exit_clean = g.exit.id in g.reachable(start=Z.id, blocked_nodes=[x for x in ids if x != Z.id], skip_labels=("exc",))
        after = d.id != Z.id and d.id in g.reachable(start=Z.id, skip_labels=("exc",)) and g.exit.id in g.reachable(start=d.id, blocked_nodes=others, skip_labels=("exc",))
        if (before and z_to_exit_clean) or after:
            out.append(d)
    return out


def c17_extra_rules(ctx, rid_lim, rid_mv, rid_sel):
    from ..pathcond import path_tests, Truth
    prog = ctx.prog
    P = prog.need_cls(CORE + ".Plotter")
    cl, cn = P.methods.get("calc_line_colors"), P.methods.get("calc_color_norm")
    need(cl and cn, "anchor lost: calc_line_colors / calc_color_norm")
    # ---- colour limits and the non-numeric fallback
    r = ctx.rule(rid_lim, "colour limits: zmin <- zlims[0] / data minimum, zmax <- zlims[1] / data maximum; the numeric test looks at an element every non-empty series list has; non-numeric z values are spread over [0, 1]", floor=5)
    for n in walk_shallow(cn.node):
        if isinstance(n, ast.Assign) and len(n.targets) == 1 and norm(n.targets[0]) in ("self._zmin", "self._zmax"):
            which = norm(n.targets[0])[-3:]
            v = n.value
            if isinstance(v, ast.Subscript) and norm(v.value) == "self.zlims":
                if isinstance(v.slice, ast.Constant) and isinstance(v.slice.value, int):
                    want = 0 if which == "min" else 1
                    if v.slice.value in (want, want - 2):
                        r.ok("z%s <- zlims[%d]" % (which, v.slice.value))
                    else:
                        r.bad(ctx.finding(rid_lim, cn, n, "the lower / upper colour limit z%s is taken from zlims[%d]: the requested limits are swapped or ignored" % (which, v.slice.value), construct="zlims-index " + which), "zlims index")
                else:
                    raise AnalysisError("idiom changed: %s" % norm(n))
            else:
                calls = [c.func.attr for c in ast.walk(v) if isinstance(c, ast.Call) and isinstance(c.func, ast.Attribute) and c.func.attr in ("min", "max", "nanmin", "nanmax")]
                if calls:
                    if all(c.endswith(which) for c in calls):
                        r.ok("z%s defaults to the data %simum" % (which, which))
                    else:
                        r.bad(ctx.finding(rid_lim, cn, n, "the default of z%s is the data's %s" % (which, calls[0]), construct="zlim-default " + which), "zlim default")
    RV = _rvals_name(cl)
    lins = [n for n in walk_shallow(cl.node) if isinstance(n, ast.Assign) and norm(n.targets[0]) == RV and isinstance(n.value, ast.Call) and norm(n.value.func).endswith("linspace")]
    need(lins, "anchor lost: the non-numeric colour fallback (linspace) in calc_line_colors")
    for ln in lins:
        a = ln.value.args
        need(len(a) >= 3, "idiom changed: %s" % norm(ln.value))
        if isinstance(a[0], ast.Constant) and isinstance(a[1], ast.Constant):
            if (a[0].value, a[1].value) == (0, 1):
                r.ok("non-numeric z: linspace(0, 1, ...)")
            else:
                r.bad(ctx.finding(rid_lim, cl, ln, "non-numeric z values are spread over [%s, %s] instead of the colour map's [0, 1]: %s" % (a[0].value, a[1].value, "all series get one colour" if a[0].value == a[1].value else "part of the series saturate at the end colour"), construct="fallback-range"), "fallback range")
        else:
            raise AnalysisError("idiom changed: %s" % norm(ln.value))
        cnt = norm(a[2])
        if cnt == "len(self._z_vals)":
            r.ok("one fallback value per series")
        elif isinstance(a[2], ast.Constant) or ("len(self._z_vals)" in cnt and cnt != "len(self._z_vals)"):
            r.bad(ctx.finding(rid_lim, cl, ln, "the number of fallback colour values is `%s`, not the number of series" % cnt, construct="fallback-count"), "fallback count")
        else:
            raise AnalysisError("idiom changed: fallback colour count `%s`" % cnt)
        for t_, _ in path_tests(cl.node, ln):
            for s in ast.walk(t_):
                if isinstance(s, ast.Subscript) and norm(s.value) == "self._z_vals" and isinstance(s.slice, (ast.Constant, ast.UnaryOp)):
                    try:
                        k = ast.literal_eval(s.slice)
                    except Exception:
                        raise AnalysisError("idiom changed: %s" % norm(s))
                    if k in (0, -1):
                        r.ok("the numeric test looks at _z_vals[%d]" % k)
                    else:
                        r.bad(ctx.finding(rid_lim, cl, s, "the numeric test looks at _z_vals[%d]: with a single series (any number of series is allowed) this raises IndexError" % k, construct="numeric-test-index"), "numeric test index")

    # ---- multi-variable flag
    rm = ctx.rule(rid_mv, "prepare_z_vals: the series are variable names (multi-variable mode on) exactly when they come from the y / x name lists, and coordinate values or the single placeholder otherwise", floor=3)
    pz = P.methods.get("prepare_z_vals")
    need(pz is not None, "anchor lost: prepare_z_vals")
    ctx.touch(pz)
    g = build_cfg(pz.node)
    zdefs = [n for n in g.nodes if n.kind == "stmt" and isinstance(n.ast, ast.Assign) and norm(n.ast.targets[0]) == "self._z_vals"]
    mdefs = [n for n in g.nodes if n.kind == "stmt" and isinstance(n.ast, ast.Assign) and norm(n.ast.targets[0]) == "self._multi_var"]
    need(len(zdefs) >= 3 and mdefs, "anchor lost: _z_vals / _multi_var assignments in prepare_z_vals")
    for Z in zdefs:
        vt = norm(Z.ast.value)
        names_mode = vt in ("self.y_coo", "self.x_coo") or vt.startswith(("list(self.y_coo", "tuple(self.y_coo", "list(self.x_coo", "tuple(self.x_coo"))
        coord_mode = "self._ds[" in vt or vt in ("(None,)", "[None]")
        need(names_mode or coord_mode, "idiom changed: self._z_vals = %s" % vt)
        last = _last_defs_through(g, Z, mdefs)
        need(last, "idiom changed: _multi_var undefined on the path through `self._z_vals = %s`" % vt)
        vals_ = set()
        for d in last:
            need(isinstance(d.ast.value, ast.Constant) and isinstance(d.ast.value.value, bool), "idiom changed: self._multi_var = %s" % norm(d.ast.value))
            vals_.add(d.ast.value.value)
        if vals_ == {names_mode}:
            rm.ok("_z_vals = %s -> _multi_var %s" % (vt, names_mode))
        else:
            rm.bad(ctx.finding(rid_mv, pz, Z.ast, "the series are %s (`self._z_vals = %s`) but the multi-variable flag is %s on that path: the series generator then %s" % (
                "variable names" if names_mode else "coordinate values", vt, sorted(vals_), "selects along z with a variable name" if names_mode else "treats a coordinate value as a variable name"), construct="multi-var-flag " + vt), "multi var %s" % vt)

    # ---- selection along z only where z is a coordinate value; colour values collected in the mode that uses them
    rs = ctx.rule(rid_sel, "series generators: the selection along z is made only where the path says z is a coordinate value (not None, not multi-variable); line colours from a variable are collected in line mode, per-point colours in scatter mode, whenever c is given", floor=4)
    for mname, gname in (("prepare_xy_vals_lineplot", "gen_xy"), ("prepare_x_vals_histogram", "gen_x")):
        m = P.methods.get(mname)
        gen = m.nested.get(gname) if m else None
        need(gen is not None, "anchor lost: %s.%s" % (mname, gname))
        ctx.touch(gen)
        loops = [n for n in walk_shallow(gen.node) if isinstance(n, ast.For) and "self._z_vals" in norm(n.iter)]
        need(len(loops) == 1, "anchor lost: series loop in %s" % gname)
        tg = loops[0].target
        zname = (tg.elts[-1] if isinstance(tg, ast.Tuple) else tg).id
        sels = [n for n in walk_shallow(gen.node) if isinstance(n, ast.Subscript) and isinstance(n.slice, ast.Dict) and any(k is not None and norm(k) == "self.z_coo" for k in n.slice.keys)]
        need(sels, "anchor lost: selection along z in %s" % gname)
        for s in sels:
            facts = _facts(path_tests(gen.node, s))
            nf = _none_fact(facts, zname)
            mv = [pol for e, pol in facts if norm(e) == "self._multi_var"]
            if nf is True:
                rs.bad(ctx.finding(rid_sel, gen, s, "`%s` is evaluated on the path whose own test says `%s is None`: with a z coordinate every series is the whole dataset, without one the selection raises" % (norm(s)[:50], zname), construct="z-select-none " + gname), "z select")
            elif any(mv):
                rs.bad(ctx.finding(rid_sel, gen, s, "`%s` is evaluated in multi-variable mode, where `%s` is a variable name, not a z coordinate" % (norm(s)[:50], zname), construct="z-select-multivar " + gname), "z select")
            elif nf is False:
                rs.ok("%s: %s only where %s is not None" % (gname, norm(s)[:40], zname))
            else:
                raise AnalysisError("idiom changed: the test guarding `%s` in %s" % (norm(s)[:50], gname))
        if gname != "gen_xy":
            continue
        T = Truth({"C": ["self.c_coo is None"], "ML": ["mode == 'lineplot'"], "MS": ["mode == 'scatter'"], "MV": ["self._multi_var"], "ZN": ["%s is None" % zname]})
        fam = _family(m, gen)
        apps = [(h_, n) for h_ in fam for n in walk_shallow(h_.node) if isinstance(n, ast.Call) and isinstance(n.func, ast.Attribute) and n.func.attr == "append" and norm(n.func.value) == "self._c_cols"]
        dcs = [(h_, n) for h_ in fam for n in walk_shallow(h_.node) if isinstance(n, ast.Assign) and isinstance(n.targets[0], ast.Subscript) and isinstance(n.targets[0].slice, ast.Constant) and n.targets[0].slice.value == "c"
               and isinstance(n.targets[0].value, ast.Name) and (n.targets[0].value.id == "das" or (h_ is not gen and n.targets[0].value.id in h_.params))]
        need(apps and dcs, "anchor lost: colour collection in gen_xy")
        import itertools as _it

        def ways(h_, n):
            """one truth function per way of reaching n: directly in gen, or through each call of the helper it sits in"""
            if h_ is gen:
                return [T.conj(path_tests(gen.node, n))]
            sites = [c for c in walk_shallow(gen.node) if isinstance(c, ast.Call) and isinstance(c.func, ast.Name) and c.func.id == h_.name]
            need(sites, "idiom changed: helper %s is not called from gen_xy" % h_.name)
            return [T.conj(path_tests(h_.node, n) + path_tests(gen.node, c)) for c in sites]
        for label, nodes_, mode_atom in (("line colours (_c_cols.append)", apps, "ML"), ("per-point colours (das['c'])", dcs, "MS")):
            fs = [f_ for h_, n in nodes_ for f_ in ways(h_, n)]
            for ZN in (False, True):
                for C, ML, MS in _it.product((False, True), repeat=3):
                    if ML and MS:
                        continue
                    v = {"C": C, "ML": ML, "MS": MS, "MV": False, "ZN": ZN}
                    got = sum(1 for f in fs if f(v))
                    want = 1 if (not C and v[mode_atom]) else 0
                    if got != want:
                        rs.bad(ctx.finding(rid_sel, nodes_[0][0], nodes_[0][1], "%s are collected %d time(s) per series when c is %s, mode is %s and z is %s (expected %d): colours and series go out of step" % (
                            label, got, "absent" if C else "given", "lineplot" if ML else "scatter" if MS else "another mode", "absent" if ZN else "a coordinate", want), construct="colour-collection " + mode_atom), "colour collection")
                        break
                else:
                    continue
                break
            else:
                rs.ok("%s collected once per series iff c is given, in their own mode, with and without a z coordinate" % label)


def c17_mesh_rule(ctx, rid):
    from .c17_mesh import mesh_edges_rule
    prog = ctx.prog
    ph = prog.func(MPL + ".HeatMap.plot_heatmap")
    need(ph is not None, "anchor lost: HeatMap.plot_heatmap")
    ctx.touch(ph)
    hw = {"_heatmap_x", "_heatmap_y", "_heatmap_var"}
    pcs = [c for c in walk_shallow(ph.node) if isinstance(c, ast.Call) and len(c.args) >= 3 and roles_of(c.args[2], ph, hw) == {"_heatmap_var"}]
    need(len(pcs) == 1, "anchor lost: heat-map draw call")
    return mesh_edges_rule(ctx, rid, ph, ("self._heatmap_x", "self._heatmap_y"), pcs[0].args[:2])


def c18_selection_rules(ctx):
    """C18.R18: the y values of a slice are selected by dimension *name*; C18.R19: `aggregate` given as one name is not
    used as a container of names."""
    prog = ctx.prog
    I = prog.need_cls(INF + ".Infiniplotter")
    pl, init = I.methods.get("plot_lines"), I.methods.get("__init__")
    need(pl and init, "anchor lost: Infiniplotter methods")
    r18 = ctx.rule("C18.R18", "the y values of a slice come from a by-name selection of the location (isel(loc)), not from positional indexing of a raw array with the loop's index tuple", floor=1)
    AXL = _ax_name(pl)
    pcalls = [c for c in walk_shallow(pl.node) if isinstance(c, ast.Call) and isinstance(c.func, ast.Attribute) and c.func.attr == "plot" and norm(c.func.value) == AXL]
    need(len(pcalls) == 1 and len(pcalls[0].args) >= 2, "anchor lost: ax.plot(x, y) in plot_lines")
    loops = [n for n in walk_shallow(pl.node) if isinstance(n, ast.For) and "self.ranges" in norm(n.iter)]
    need(len(loops) == 1 and isinstance(loops[0].target, ast.Name), "anchor lost: location loop in plot_lines")
    lv = loops[0].target.id
    e = pcalls[0].args[1]
    seen = 0
    verdict = None
    while seen < 8 and verdict is None:
        seen += 1
        t = norm(e)
        if "ds_loc[" in t or ".isel(loc)" in t or ".sel(loc)" in t:
            verdict = "name"
            break
        if isinstance(e, ast.Subscript) and isinstance(e.slice, ast.Name) and e.slice.id == lv:
            verdict = ("positional", e)
            break
        if isinstance(e, ast.Subscript):
            e = e.value
            continue
        if isinstance(e, ast.Attribute):
            e = e.value
            continue
        if isinstance(e, ast.Name):
            d = single_def(pl, e.id)
            if d is None:
                break
            e = d[1]
            continue
        break
    if verdict == "name":
        r18.ok("plot_lines: y of a slice = ds.isel(loc)[y] (selection by dimension name)")
    elif verdict is not None:
        r18.bad(ctx.finding("C18.R18", pl, verdict[1], "the y values of a slice are `%s`: a raw array indexed with the loop's index tuple, whose order is the dataset's dimension order, not the variable's axis order -- when another variable comes first in the dataset the "
                            "line styled and labelled for one location carries another location's data" % norm(verdict[1])[:60], construct="y-positional"), "y by name")
    else:
        raise AnalysisError("idiom changed: provenance of the y values in plot_lines (`%s`)" % norm(e)[:60])
    r19 = ctx.rule("C18.R19", "`aggregate` given as a single dimension name is never used as a container of names (`d in self.aggregate` is a substring test then)", floor=0)
    for n in ast.walk(init.node):
        if isinstance(n, ast.Compare) and len(n.ops) == 1 and isinstance(n.ops[0], (ast.In, ast.NotIn)) and norm(n.comparators[0]) == "self.aggregate":
            # a normalisation of the single-name form that dominates the test?
            normalised = any(isinstance(s_, ast.Assign) and norm(s_.targets[0]) == "self.aggregate" and isinstance(s_.value, (ast.List, ast.Tuple)) and any(norm(x) == "self.aggregate" for x in s_.value.elts) and s_.lineno < n.lineno
                             for s_ in ast.walk(init.node))
            if normalised:
                r19.ok("`%s` after the single-name form was wrapped in a list" % norm(n))
            else:
                r19.bad(ctx.finding("C18.R19", init, n, "`%s` treats `aggregate` as a container of dimension names, but the documented single-name form is a str: the test is then a substring test, so aggregate='run' also selects a dimension called 'n' or 'u' "
                                    "(slices along it are silently merged into one line)" % norm(n), construct="aggregate-substring"), "aggregate container")


def c17_scatter_norm_rule(ctx, rid):
    """C17.R12: scatter points coloured by a variable use the plot's one colour norm.  matplotlib's scatter(c=values,
    cmap=...) without norm / vmin / vmax scales every call to the range of the values it is given: with one call per z
    series each series is normalised to its own range, requested limits are ignored and the colour bar (built from the
    shared norm) does not describe the points."""
    rr = ctx.rule(rid, "scatter coloured by a variable: the draw call that receives the values and the colour map also receives the shared norm (self._color_norm) or both limits", floor=1)
    prog = ctx.prog
    f = prog.func(MPL + ".Scatter.plot_scatter")
    need(f is not None, "anchor lost: Scatter.plot_scatter")
    ctx.touch(f)
    calls = [c for c in walk_shallow(f.node) if isinstance(c, ast.Call) and isinstance(c.func, ast.Attribute) and c.func.attr == "scatter" and norm(c.func.value) in ("self._axes", "ax")]
    need(len(calls) == 1, "anchor lost: the scatter draw call")
    c = calls[0]
    keys = {k.arg for k in c.keywords if k.arg}
    splats = [k.value.id for k in c.keywords if k.arg is None and isinstance(k.value, ast.Name)]
    cond_keys = {}
    for nm in splats:
        for st in walk_shallow(f.node):
            if isinstance(st, ast.Assign) and isinstance(st.targets[0], ast.Name) and st.targets[0].id == nm:
                from .shared import dict_literal
                dl = dict_literal(st.value)
                if isinstance(dl, ast.Dict):
                    keys |= {k.value for k in dl.keys if isinstance(k, ast.Constant)}
            if isinstance(st, ast.Assign) and isinstance(st.targets[0], ast.Subscript) and norm(st.targets[0].value) == nm and isinstance(st.targets[0].slice, ast.Constant):
                guard = " and ".join(norm(t_) for t_, pol in __import__("xyzsa.pathcond", fromlist=["x"]).path_tests(f.node, st) if pol)
                cond_keys.setdefault(guard, {})[st.targets[0].slice.value] = st.value
    for guard, ks in cond_keys.items():
        if "cmap" in ks:
            if "norm" in ks and "_color_norm" in norm(ks["norm"]):
                rr.ok("under `%s`: cmap and norm=self._color_norm" % guard)
            elif {"vmin", "vmax"} <= set(ks):
                rr.ok("under `%s`: cmap with vmin and vmax" % guard)
            elif "norm" in ks:
                raise AnalysisError("idiom changed: scatter norm is `%s`" % norm(ks["norm"]))
            else:
                rr.bad(ctx.finding(rid, f, ks["cmap"], "the scatter call receives the colour values and the colour map (under `%s`) but neither the plot's norm nor limits: matplotlib scales each call to the values it is given, so with several z series every series is "
                                   "normalised to its own range (equal values get different colours), vmin / vmax / zlims / colormap_log are ignored and the colour bar does not describe the points" % guard, construct="scatter-no-norm"), "scatter norm")
    if not any("cmap" in ks for ks in cond_keys.values()):
        if "cmap" in keys and not ("norm" in keys or {"vmin", "vmax"} <= keys):
            rr.bad(ctx.finding(rid, f, c, "the scatter call receives a colour map but neither the plot's norm nor limits", construct="scatter-no-norm"), "scatter norm")
        elif "cmap" in keys:
            rr.ok("scatter: cmap together with norm / limits")
        else:
            raise AnalysisError("idiom changed: how plot_scatter passes the colour map")
    return rr


# ------------------------------------------------------------------ colour map resolution is stateless
_MUTATING_METHODS = {"setdefault", "update", "append", "add", "pop", "popitem", "clear", "insert", "extend", "remove", "__setitem__"}


def _runtime_state(mod):
    """Module-level names bound to a mutable container that some function of the module writes at run time
    -> {name: (function node, writing node)}."""
    conts = set()
    for st in mod.tree.body:
        if isinstance(st, ast.Assign) and len(st.targets) == 1 and isinstance(st.targets[0], ast.Name):
            v = st.value
            if isinstance(v, (ast.Dict, ast.List, ast.Set)) or (isinstance(v, ast.Call) and norm(v.func) in (
                    "dict", "list", "set", "collections.OrderedDict", "OrderedDict", "collections.defaultdict", "defaultdict", "weakref.WeakKeyDictionary", "weakref.WeakValueDictionary")):
                conts.add(st.targets[0].id)
    written = {}
    for fn in ast.walk(mod.tree):
        if not isinstance(fn, (ast.FunctionDef, ast.Lambda)):
            continue
        for n in ast.walk(fn):
            nm = None
            if isinstance(n, ast.Subscript) and isinstance(n.ctx, (ast.Store, ast.Del)) and isinstance(n.value, ast.Name):
                nm = n.value.id
            elif isinstance(n, ast.Call) and isinstance(n.func, ast.Attribute) and n.func.attr in _MUTATING_METHODS and isinstance(n.func.value, ast.Name):
                nm = n.func.value.id
            elif isinstance(n, ast.Global):
                for g_ in n.names:
                    written.setdefault(g_, (fn, n))
            if nm in conts:
                written.setdefault(nm, (fn, n))
    return written


def _cmap_state_findings(prog_funcs, entry, state_of):
    """Functions reachable from `entry` through same-module calls; every read of run-time-written module state in them
    -> list of (fi, node, container, key expression or None)."""
    seen, todo, out = set(), [entry], []
    while todo:
        f = todo.pop()
        if f.qualname in seen:
            continue
        seen.add(f.qualname)
        st = state_of(f.module)
        for n in ast.walk(f.node):
            if isinstance(n, ast.Name) and isinstance(n.ctx, ast.Load) and n.id in st and n.id not in f.params:
                par = getattr(n, "_parent", None)
                key = None
                if isinstance(par, ast.Subscript) and par.value is n:
                    key = par.slice
                elif isinstance(par, ast.Attribute) and isinstance(getattr(par, "_parent", None), ast.Call) and par.attr in ("get", "setdefault", "pop", "__getitem__") and par._parent.args:
                    key = par._parent.args[0]
                elif isinstance(par, ast.Compare) and n in par.comparators:
                    key = par.left
                out.append((f, n, n.id, key))
            if isinstance(n, ast.Call) and isinstance(n.func, ast.Name) and n.func.id in prog_funcs(f.module):
                todo.append(prog_funcs(f.module)[n.func.id])
    return seen, out


def c17_cmap_sites_rule(ctx, rid):
    """Sibling agreement: every artist and the colour bar's mappable are given the one colour map the plot resolved
    (self.cmap = resolver(self.colormap, reverse=self.colormap_reverse)); a site that resolves the map again without the
    reverse option draws with another map than the colour bar shows when colormap_reverse=True."""
    prog = ctx.prog
    rr = ctx.rule(rid, "every cmap= handed to matplotlib (artists and the colour bar's mappable) is the plot's one resolved colour map", floor=3)
    sites = []
    for f in prog.all_funcs():
        if not f.qualname.startswith("xyzpy.plot.plotter_matplotlib."):
            continue
        for n in ast.walk(f.node):
            if isinstance(n, ast.Call):
                for k in n.keywords:
                    if k.arg == "cmap" and not (isinstance(k.value, ast.Constant) and k.value.value is None):
                        sites.append((f, n, k.value))
            elif isinstance(n, ast.Assign) and len(n.targets) == 1 and isinstance(n.targets[0], ast.Subscript) and isinstance(n.targets[0].slice, ast.Constant) and n.targets[0].slice.value == "cmap":
                sites.append((f, n, n.value))
    seen = set()
    for f, n, v in sites:
        if id(v) in seen:
            continue
        seen.add(id(v))
        ctx.touch(f)
        if isinstance(v, ast.Name):
            d_ = single_def(f, v.id)
            if d_ is not None:
                v = d_[1]
        if norm(v) == "self.cmap":
            rr.ok("%s: cmap=self.cmap" % f.qualname.rsplit(".", 2)[-2] + "." + f.name)
        elif isinstance(v, ast.Call) and norm(v.func).rsplit(".", 1)[-1] == "xyz_colormaps":
            rv = arg(v, 1, "reverse")
            a0 = arg(v, 0, "name")
            if a0 is not None and norm(a0) == "self.colormap" and rv is not None and norm(rv) == "self.colormap_reverse":
                rr.ok("%s: cmap resolved again with the reverse option" % f.name)
            else:
                rr.bad(ctx.finding(rid, f, v, "%s hands matplotlib `%s`: the colour map is resolved again %s, while the colour bar's mappable uses self.cmap (resolved with reverse=self.colormap_reverse) -- with colormap_reverse=True the drawn colours and the colour bar show opposite maps" % (
                    f.name, norm(v)[:50], "without the reverse option" if rv is None else "with another reverse option"), construct="cmap-resolved-again " + f.name), "%s cmap" % f.name)
        else:
            raise AnalysisError("idiom changed: %s hands matplotlib cmap=`%s`" % (f.qualname, norm(v)[:50]))
    return rr


def c17_cmap_state_rule(ctx, rid):
    """The colour map a plot uses is resolved from the plot's own `colormap` option: neither the resolver nor a helper
    it calls reads module-level state that the program writes at run time (a memo keyed by a label is another
    plot's map)."""
    prog = ctx.prog
    rr = ctx.rule(rid, "colour map resolution reads no module state written at run time (the map used is the one chosen for this plot)", floor=2)
    P = prog.need_cls(CORE + ".Plotter")
    ccn = P.methods.get("calc_color_norm")
    need(ccn is not None, "anchor lost: Plotter.calc_color_norm")
    ctx.touch(ccn)
    res = [c for c in ast.walk(ccn.node) if isinstance(c, ast.Call) and any(norm(a_) == "self.colormap" for a_ in c.args)
           and any(isinstance(p_, ast.Assign) and norm(p_.targets[0]) == "self.cmap" for p_ in _parents(c))]
    need(len(res) == 1, "anchor lost: self.cmap = <resolver>(self.colormap, ...) in calc_color_norm")
    from ..util import callee_func
    entry = callee_func(ctx, ccn, res[0])
    need(entry is not None and hasattr(entry, "node"), "anchor lost: the colour map resolver `%s` does not resolve to a function of the package" % norm(res[0].func))
    cache = {}

    def state_of(mod):
        if mod.name not in cache:
            cache[mod.name] = _runtime_state(mod)
        return cache[mod.name]

    def funcs_of(mod):
        return mod.funcs
    seen, reads = _cmap_state_findings(funcs_of, entry, state_of)
    for q in sorted(seen):
        ctx.touch(prog.func(q))
    # self-check of the detector on a two-line example (the rule's expected count on the tree is zero)
    probe = ast.parse("_M = {}\ndef f(c):\n    return _M.setdefault(c.name, c.reversed())\n")
    pm = type("M", (), {"tree": probe, "name": "<probe>"})()
    need("_M" in _runtime_state(pm), "internal: the run-time state detector no longer recognises its own example")
    for f, n, cont, key in reads:
        proj = isinstance(key, ast.Attribute) and isinstance(key.value, ast.Name) and key.value.id in f.params
        if proj:
            rr.bad(ctx.finding(rid, f, n, "`%s` keeps results across calls keyed by `%s`, an attribute of the colour map and not the map itself: a later plot whose map has the same %s gets the earlier plot's map, so its colours are not the chosen colour map evaluated at the normalised values" % (cont, norm(key), key.attr),
                               construct="cmap-memo-by-attribute " + f.name), "%s: stateless" % f.name)
        else:
            raise AnalysisError("idiom changed: %s reads the run-time-written module container `%s` (key `%s`); whether equal keys mean equal colour maps is not analysed" % (f.name, cont, norm(key) if key is not None else "?"))
    if not reads:
        for q in sorted(seen):
            rr.ok("%s reads no module-level container written at run time" % q.split(".")[-1])
        rr.ok("detector self-check: the memo example is recognised")
    return rr
