"""Rules over the plotting code (C17: plot/core.py + plotter_matplotlib.py,
C18: plot/infiniplot.py)."""
import ast

from ..loader import AnalysisError, norm, walk_shallow
from ..cfg import build_cfg, node_calls
from ..flow import Flow, NONE, NOTNONE, TRUE, FALSE, TRUTHY, FALSY, TOP, const, is_const, valuations, path_key
from ..inter import Inter, InterFlow
from ..util import callee_name, all_calls, arg, need, single_def, names_in, assignments_to, sym_expand

CORE = "xyzpy.plot.core"
MPL = "xyzpy.plot.plotter_matplotlib"
INF = "xyzpy.plot.infiniplot"


# ------------------------------------------------------------------ provenance
def roles_of(expr, fi, role_words, depth=0, seen=None):
    """Which role attributes (self.x_coo, self.y, data['x'] ...) the *values*
    of an expression derive from.  Index / mask expressions do not count;
    local definitions (all of them) and zip-unpacking loop targets are
    followed."""
    seen = seen or frozenset()
    if expr is None or depth > 10:
        return set()
    e = expr
    if isinstance(e, ast.Attribute):
        if isinstance(e.value, ast.Name) and e.value.id == "self" and e.attr in role_words:
            return {e.attr}
        return roles_of(e.value, fi, role_words, depth + 1, seen)
    if isinstance(e, ast.Subscript):
        s = e.slice
        if isinstance(s, ast.Attribute) and isinstance(s.value, ast.Name) and s.value.id == "self" and s.attr in role_words:
            return {s.attr}
        if isinstance(s, ast.Constant) and isinstance(s.value, str) and s.value in role_words:
            return {s.value}
        if isinstance(s, ast.Name):
            r = roles_of(s, fi, role_words, depth + 1, seen)
            # ds[z] with z a loop variable over names: selection by a (dynamic) variable name
            if isinstance(e.value, ast.Attribute) and norm(e.value) in ("self._ds", "self.ds") and not r:
                return {None}
        return roles_of(e.value, fi, role_words, depth + 1, seen)
    if isinstance(e, ast.Call):
        f = e.func
        if isinstance(f, ast.Attribute) and f.attr == "get" and e.args and isinstance(e.args[0], ast.Constant) and e.args[0].value in role_words:
            return {e.args[0].value}
        out = set()
        if isinstance(f, ast.Attribute):
            out |= roles_of(f.value, fi, role_words, depth + 1, seen)
            if norm(f.value) in ("np", "numpy", "ma", "np.ma", "xr"):
                for a in e.args[:1]:
                    out |= roles_of(a, fi, role_words, depth + 1, seen)
        elif isinstance(f, ast.Name) and f.id in ("abs", "list", "tuple", "iter", "float"):
            for a in e.args[:1]:
                out |= roles_of(a, fi, role_words, depth + 1, seen)
        elif isinstance(f, ast.Name) and f.id in getattr(fi.module, "funcs", {}):
            # a module-level helper of the same file: its result derives from its arguments
            for a in e.args:
                out |= roles_of(a, fi, role_words, depth + 1, seen)
        return out
    if isinstance(e, ast.BinOp):
        return roles_of(e.left, fi, role_words, depth + 1, seen) | roles_of(e.right, fi, role_words, depth + 1, seen)
    if isinstance(e, ast.UnaryOp):
        return roles_of(e.operand, fi, role_words, depth + 1, seen)
    if isinstance(e, (ast.List, ast.Tuple)):
        out = set()
        for x in e.elts:
            out |= roles_of(x, fi, role_words, depth + 1, seen)
        return out
    if isinstance(e, ast.Name):
        if e.id in seen:
            return set()
        seen2 = seen | {e.id}
        f = fi
        while f is not None:
            out = set()
            found = False
            for n in walk_shallow(f.node):
                if isinstance(n, ast.Assign):
                    for t in n.targets:
                        if isinstance(t, ast.Name) and t.id == e.id:
                            found = True
                            out |= roles_of(n.value, f, role_words, depth + 1, seen2)
                        elif isinstance(t, (ast.Tuple, ast.List)):
                            for i, el in enumerate(t.elts):
                                if isinstance(el, ast.Name) and el.id == e.id:
                                    found = True
                                    v = n.value
                                    if isinstance(v, (ast.Tuple, ast.List)) and len(v.elts) == len(t.elts):
                                        out |= roles_of(v.elts[i], f, role_words, depth + 1, seen2)
                                    elif isinstance(v, ast.Call) and isinstance(v.func, ast.Name) and v.func.id == "zip" and len(v.args) == 1 and isinstance(v.args[0], ast.Starred):
                                        # xs, ... = zip(*gen()) : i-th component of what the generator yields
                                        gen_call = v.args[0].value
                                        if isinstance(gen_call, ast.Call) and isinstance(gen_call.func, ast.Name) and gen_call.func.id in f.nested:
                                            gfi = f.nested[gen_call.func.id]
                                            for y in ast.walk(gfi.node):
                                                if isinstance(y, ast.Yield) and isinstance(y.value, ast.Tuple) and i < len(y.value.elts):
                                                    out |= roles_of(y.value.elts[i], gfi, role_words, depth + 1, seen2)
                elif isinstance(n, ast.AugAssign) and isinstance(n.target, ast.Name) and n.target.id == e.id:
                    pass      # masks / accumulations do not change provenance of the values
                elif isinstance(n, (ast.For, ast.comprehension)):
                    tg = n.target
                    it = n.iter
                    if isinstance(tg, ast.Name) and tg.id == e.id:
                        found = True
                        out |= roles_of(it, f, role_words, depth + 1, seen2)
                    elif isinstance(tg, (ast.Tuple, ast.List)):
                        for i, el in enumerate(tg.elts):
                            if isinstance(el, ast.Name) and el.id == e.id:
                                found = True
                                if isinstance(it, ast.Call) and isinstance(it.func, ast.Name) and it.func.id == "zip" and i < len(it.args):
                                    out |= roles_of(it.args[i], f, role_words, depth + 1, seen2)
                                elif isinstance(it, ast.Call) and isinstance(it.func, ast.Name) and it.func.id == "enumerate" and i == 1:
                                    out |= roles_of(it.args[0], f, role_words, depth + 1, seen2)
            if found:
                return out
            f = f.parent
        return set()
    if isinstance(e, ast.IfExp):
        return roles_of(e.body, fi, role_words, depth + 1, seen) | roles_of(e.orelse, fi, role_words, depth + 1, seen)
    return set()


# ------------------------------------------------------------------ taint
VIEW_ATTRS = {"values", "data", "T", "real", "imag"}
VIEW_CALLS = {"squeeze", "transpose", "reshape", "ravel", "view", "swapaxes", "asarray", "asanyarray", "broadcast", "broadcast_to", "atleast_1d", "atleast_2d", "load", "compute"}
FRESH_CALLS = {"copy", "flatten", "astype", "isnull", "notnull", "isfinite", "isnan", "array", "empty", "zeros", "ones", "full", "stack", "concatenate", "append",
               "mean", "std", "sum", "min", "max", "median", "quantile", "sel", "isel", "drop_vars", "drop_dims", "dropna", "to_dataset", "to_array", "masked_invalid",
               "linspace", "arange", "histogram", "abs", "sqrt", "where", "stack", "unstack", "expand_dims", "rename", "assign_coords", "apply_ufunc", "interp", "fillna",
               "tolist", "item", "unique", "sorted", "list", "tuple", "dict", "len", "str", "float", "int", "bool", "normal", "random", "rand", "choice"}
MUTATORS = {"sort", "fill", "resize", "partition", "put", "itemset", "setflags", "byteswap", "update", "clear", "pop", "popitem", "setdefault", "drop", "__setitem__", "assign_attrs"}


def tainted_names(fi, sources):
    """Names in fi that may alias (a view of) the caller's dataset."""
    tainted = set(s for s in sources if "." not in s)

    def is_tainted(e):
        if isinstance(e, ast.Name):
            return e.id in tainted
        k = path_key(e)
        if k is not None and any(k == s or k.startswith(s + ".") for s in sources):
            # self._ds.<attr>: views only through VIEW_ATTRS / plain alias
            return True
        if isinstance(e, ast.Attribute):
            return e.attr in VIEW_ATTRS | {"loc", "iloc", "coords", "attrs", "data_vars", "variables"} and is_tainted(e.value) or (is_tainted(e.value) and e.attr not in FRESH_CALLS)
        if isinstance(e, ast.Subscript):
            if not is_tainted(e.value):
                return False
            # boolean / fancy indexing copies; basic indexing (names, ints, slices, dict of labels) is a view
            s = e.slice
            if isinstance(s, ast.Name) and ("mask" in s.id or "null" in s.id or s.id.startswith("is")):
                return False
            if isinstance(s, ast.Call):
                return False
            return True
        if isinstance(e, ast.Call):
            f = e.func
            if isinstance(f, ast.Attribute):
                if f.attr in VIEW_CALLS:
                    return is_tainted(f.value) or any(is_tainted(a) for a in e.args)
                return False
            if isinstance(f, ast.Name) and f.id in ("iter", "zip", "enumerate", "reversed"):
                return any(is_tainted(a) for a in e.args)
            return False
        if isinstance(e, ast.IfExp):
            return is_tainted(e.body) or is_tainted(e.orelse)
        if isinstance(e, (ast.Tuple, ast.List)):
            return any(is_tainted(x) for x in e.elts)
        return False
    changed = True
    rounds = 0
    while changed and rounds < 10:
        changed = False
        rounds += 1
        for n in walk_shallow(fi.node):
            if isinstance(n, ast.Assign) and len(n.targets) == 1 and isinstance(n.targets[0], ast.Name):
                if n.targets[0].id not in tainted and is_tainted(n.value):
                    tainted.add(n.targets[0].id)
                    changed = True
            elif isinstance(n, ast.For):
                if is_tainted(n.iter):
                    for nm in names_in(n.target):
                        if nm not in tainted:
                            tainted.add(nm)
                            changed = True
            elif isinstance(n, ast.withitem) and n.optional_vars is not None and is_tainted(n.context_expr):
                for nm in names_in(n.optional_vars):
                    if nm not in tainted:
                        tainted.add(nm)
                        changed = True
    return tainted, is_tainted


def no_mutation_rule(ctx, rid, funcs, sources_for):
    rr = ctx.rule(rid, "the dataset passed in (and views of its arrays) is never modified", floor=1)
    for fi in funcs:
        src = sources_for(fi)
        if not src:
            continue
        ctx.touch(fi)
        tainted, is_t = tainted_names(fi, src)
        hits = []
        for n in walk_shallow(fi.node):
            if isinstance(n, (ast.Assign, ast.AugAssign, ast.Delete)):
                tgts = n.targets if isinstance(n, (ast.Assign, ast.Delete)) else [n.target]
                for t in tgts:
                    for tt in (t.elts if isinstance(t, (ast.Tuple, ast.List)) else [t]):
                        if isinstance(tt, ast.Subscript) and is_t(tt.value):
                            hits.append((n, "stores into `%s`" % norm(tt.value)))
                        elif isinstance(tt, ast.Attribute) and is_t(tt.value) and not (isinstance(tt.value, ast.Name) and tt.value.id == "self"):
                            hits.append((n, "sets `%s`" % norm(tt)))
                        elif isinstance(n, ast.AugAssign) and isinstance(tt, ast.Name) and tt.id in tainted:
                            hits.append((n, "updates `%s` in place" % tt.id))
            elif isinstance(n, ast.Call):
                f = n.func
                if isinstance(f, ast.Attribute) and f.attr in MUTATORS and is_t(f.value):
                    hits.append((n, "calls the in-place method `%s` on `%s`" % (f.attr, norm(f.value))))
                for k in n.keywords:
                    if k.arg == "inplace" and isinstance(k.value, ast.Constant) and k.value.value is True and isinstance(f, ast.Attribute) and is_t(f.value):
                        hits.append((n, "uses inplace=True on `%s`" % norm(f.value)))
                    if k.arg == "out" and is_t(k.value):
                        hits.append((n, "writes its result into `%s`" % norm(k.value)))
        if hits:
            for n, why in hits:
                rr.bad(ctx.finding(rid, fi, n, "`%s` %s, which may be (a view of) the dataset handed in by the caller: plotting modifies the user's data" % (norm(n)[:70], why), construct="mutates-input " + norm(n)[:60]), "%s no mutation" % fi.qualname)
        else:
            rr.ok("%s: no store / in-place operation on %s or views of it" % (fi.qualname, sorted(src)))
    return rr


# ------------------------------------------------------------------ definite keys (colorbar contract)
class KeyFlow(InterFlow):
    def test_compare(self, e, env):
        if len(e.ops) == 1 and isinstance(e.ops[0], (ast.In, ast.NotIn)):
            l = self.eval(e.left, env)
            r = self.eval(e.comparators[0], env)
            if is_const(l) and isinstance(r, tuple) and r and r[0] == "dictlit":
                res = l[1] in dict(r[1])
                return res if isinstance(e.ops[0], ast.In) else not res
        return super().test_compare(e, env)


def _dl_join(a, b):
    from ..inter import join_any
    if isinstance(a, tuple) and isinstance(b, tuple) and a and b and a[0] == "dictlit" and b[0] == "dictlit":
        da, db = dict(a[1]), dict(b[1])
        return ("dictlit", tuple((k, da[k] if da[k] == db[k] else TOP) for k in da if k in db))
    return join_any(a, b)


KeyFlow.join = staticmethod(_dl_join)


class KeyInter(Inter):
    def flow(self, fi, val):
        fl = KeyFlow(self, fi, val)
        fl.run()
        self.ctx.touch(fi, fl.cfg)
        return fl

    def resolve(self, fi, call):
        return None


def colorbar_contract_rule(ctx, rid):
    """Figure.colorbar(mappable) with a ScalarMappable that is attached to no
    axes needs ax= or cax= (matplotlib raises ValueError otherwise)."""
    rr = ctx.rule(rid, "every Figure.colorbar call for a free-standing ScalarMappable definitely passes ax or cax", floor=4)
    f = ctx.prog.need_func(MPL + ".PlotterMatplotlib.plot_colorbar")
    sm = ctx.prog.need_func(MPL + ".PlotterMatplotlib.set_mappable")
    free = "ScalarMappable(" in " ".join(norm(s) for s in sm.node.body)
    need(free, "idiom changed: set_mappable no longer builds a free-standing ScalarMappable")
    for val in valuations({"grid": [TRUE, FALSE], "self.colorbar_relative_position": [TRUTHY, FALSY], "self._use_colorbar": [TRUTHY]}):
        inter = KeyInter(ctx, None, track=None)
        fl = inter.flow(f, val)
        vt = "grid=%s, colorbar_relative_position %s" % (val["grid"][1], "given" if val["self.colorbar_relative_position"] == TRUTHY else "not given")
        calls = [(n, c) for n in fl.cfg.nodes if n.id in fl.visited for c in node_calls(n) if isinstance(c.func, ast.Attribute) and c.func.attr == "colorbar"]
        need(calls, "anchor lost: plot_colorbar no longer calls colorbar (%s)" % vt)
        for n, c in calls:
            env = fl.IN[n.id]
            keys = {k.arg for k in c.keywords if k.arg}
            for k in c.keywords:
                if k.arg is None:
                    v = fl.eval(k.value, env.copy())
                    if isinstance(v, tuple) and v and v[0] == "dictlit":
                        keys |= set(dict(v[1]))
            if keys & {"ax", "cax"}:
                rr.ok("colorbar(%s): definitely passes %s" % (vt, sorted(keys & {"ax", "cax"})))
            else:
                rr.bad(ctx.finding(rid, f, c, "with %s, Figure.colorbar is called for the free-standing ScalarMappable without `ax` or `cax` (definite keys: %s): matplotlib raises ValueError, so every plot that shows a colour bar on this path fails" % (vt, sorted(keys)),
                                   construct="colorbar-no-axes", path=vt), "colorbar %s" % vt)
    return rr


# ------------------------------------------------------------------ C17 data rules
def _once_per_iteration(g, H, nodes):
    """'once' | 'never' | 'skippable' | 'repeated': how often the loop body
    headed by H passes through one of `nodes` per iteration (exception edges
    are not followed)."""
    if not nodes:
        return "never"
    it = [b for b, l in g.succ[H.id] if l == "iter"][0]
    ids = {n.id for n in nodes}
    if it not in ids and H.id in (g.reachable(start=it, blocked_nodes=list(ids), skip_labels=("exc",)) | {it}):
        return "skippable"
    for a in nodes:
        for b, l in g.succ[a.id]:
            if l == "exc":
                continue
            r = g.reachable(start=b, blocked_nodes=[H.id], skip_labels=("exc",)) | {b}
            if any(x in r for x in ids):
                return "repeated"
    return "once"


def c17_data_rules(ctx, rid_roles, rid_mask, rid_lock, rid_color):
    prog = ctx.prog
    P = prog.need_cls(CORE + ".Plotter")
    # ---- roles: das[...] slots and draw sinks
    rr = ctx.rule(rid_roles, "role agreement: x / y / error / colour names reach the matching slot of the draw calls; heat map transposed by name", floor=8)
    pl = P.methods.get("prepare_xy_vals_lineplot")
    need(pl is not None, "anchor lost: prepare_xy_vals_lineplot")
    gen = pl.nested.get("gen_xy")
    need(gen is not None, "anchor lost: gen_xy")
    ctx.touch(gen)
    slot = {"x": {"x_coo"}, "y": {"y_coo", None}, "c": {"c_coo"}, "ye": {"y_err"}, "xe": {"x_err"}}
    n_slots = 0
    for n in walk_shallow(gen.node):
        if isinstance(n, ast.Assign) and isinstance(n.targets[0], ast.Subscript) and norm(n.targets[0].value) == "das" and isinstance(n.targets[0].slice, ast.Constant):
            k = n.targets[0].slice.value
            v = n.value
            sel = None
            if isinstance(v, ast.Subscript):
                s = v.slice
                sel = s.attr if isinstance(s, ast.Attribute) and norm(s.value) == "self" else (None if isinstance(s, ast.Name) and s.id == "z" else "?")
            n_slots += 1
            if k in slot and sel in slot[k] and not (sel is None and k != "y"):
                rr.ok("das[%r] <- %s" % (k, norm(v)), "das|%s|%s" % (k, norm(v)))
            else:
                rr.bad(ctx.finding(rid_roles, gen, n, "the %r series is taken from `%s`: the drawn %s values are another variable's" % (k, norm(v), k), construct="slot %s <- %s" % (k, norm(v))), "slot %s" % k)
    need(n_slots >= 8, "anchor lost: das[...] assignments in gen_xy (%d)" % n_slots)
    sinks = [
        (MPL + ".LinePlot.plot_lines", "plot", {0: "x", 1: "y"}, {}),
        (MPL + ".LinePlot.plot_lines", "errorbar", {0: "x", 1: "y"}, {"yerr": "ye", "xerr": "xe"}),
        (MPL + ".Scatter.plot_scatter", "scatter", {0: "x", 1: "y"}, {}),
        (MPL + ".Histogram.plot_histogram", "hist", {0: "x"}, {}),
    ]
    slot_words = set(slot)
    for q, meth, pos, kw in sinks:
        f = prog.func(q)
        if f is None:
            raise AnalysisError("anchor lost: %s" % q)
        ctx.touch(f)
        calls = [c for c in walk_shallow(f.node) if isinstance(c, ast.Call) and isinstance(c.func, ast.Attribute) and c.func.attr == meth and norm(c.func.value) in ("self._axes", "ax")]
        need(calls, "anchor lost: %s.%s call" % (q, meth))
        for c in calls:
            okc = True
            for i, role in pos.items():
                got = roles_of(c.args[i], f, slot_words) if i < len(c.args) else set()
                if got != {role}:
                    rr.bad(ctx.finding(rid_roles, f, c, "%s(...) receives %s data in its %s slot" % (meth, sorted(got) or "no tracked", role), construct="sink %s arg%d" % (meth, i)), "%s slot %d" % (meth, i))
                    okc = False
            for kname, role in kw.items():
                v = arg(c, None, kname)
                if v is None:
                    v = _splat_value(f, c, kname)
                if v is None and any(k_.arg is None for k_ in c.keywords) and not any(k_.arg == kname for k_ in c.keywords):
                    raise AnalysisError("idiom changed: %s(%s=...) is passed through a keyword mapping that is not a local dict literal" % (meth, kname))
                got = roles_of(v, f, slot_words) if v is not None else set()
                if got != {role}:
                    rr.bad(ctx.finding(rid_roles, f, c, "%s(%s=...) receives %s data" % (meth, kname, sorted(got) or "no tracked"), construct="sink %s %s" % (meth, kname)), "%s %s" % (meth, kname))
                    okc = False
            if okc:
                rr.ok("%s: %s(%s)" % (f.name, meth, ", ".join("%s<-%s" % (i, r) for i, r in list(pos.items()) + list(kw.items()))))
    # heat map: (y, x) orientation by *name*
    hm = P.methods.get("prepare_heatmap_data")
    need(hm is not None, "anchor lost: prepare_heatmap_data")
    ctx.touch(hm)
    g = build_cfg(hm.node)
    fl = Flow(g, {"grid": FALSE}).run()
    st = [n for n in g.nodes if n.id in fl.visited and n.kind == "stmt" and isinstance(n.ast, ast.Assign) and norm(n.ast.targets[0]) == "self._heatmap_var"]
    need(len(st) == 1, "idiom changed: _heatmap_var assignment")
    # every definition feeding the heat-map array carries an unconditional transpose(self.y_coo, self.x_coo)
    def has_tr(e, depth=0):
        for c in ast.walk(e):
            if isinstance(c, ast.Call) and isinstance(c.func, ast.Attribute) and c.func.attr == "transpose" and [norm(a) for a in c.args] == ["self.y_coo", "self.x_coo"]:
                return True
        for nm in names_in(e):
            defs = [(nd, v) for nd, v in assignments_to(hm, nm, g) if v is not None]
            if defs and depth < 4:
                if all(has_tr(v, depth + 1) for nd, v in defs):
                    return True
        return False
    if has_tr(st[0].ast.value) and "self.z_coo" in norm(st[0].ast.value) + "".join(norm(v) for nm in names_in(st[0].ast.value) for _, v in assignments_to(hm, nm, g) if v is not None):
        rr.ok("heat map array = ds[z].transpose(y, x) by dimension name on every path")
    else:
        rr.bad(ctx.finding(rid_roles, hm, st[0].ast, "the heat-map array is not transposed to (y, x) by dimension *name* on every path (e.g. decided from its shape): for a square mesh stored as (x, y) the map is drawn transposed", construct="heatmap-transpose"), "heatmap orientation")
    xy = {norm(n.ast.targets[0]): norm(n.ast.value) for n in g.nodes if n.kind == "stmt" and isinstance(n.ast, ast.Assign) and norm(n.ast.targets[0]) in ("self._heatmap_x", "self._heatmap_y")}
    if "self.x_coo" in xy.get("self._heatmap_x", "") and "self.y_coo" in xy.get("self._heatmap_y", ""):
        rr.ok("heat map mesh: _heatmap_x <- x_coo, _heatmap_y <- y_coo")
    else:
        rr.bad(ctx.finding(rid_roles, hm, hm.node, "the heat-map mesh coordinates are not (x_coo, y_coo): %s" % xy, construct="heatmap-mesh"), "heatmap mesh")
    ph = prog.func(MPL + ".HeatMap.plot_heatmap")
    need(ph is not None, "anchor lost: HeatMap.plot_heatmap")
    ctx.touch(ph)
    hw = {"_heatmap_x", "_heatmap_y", "_heatmap_var"}
    pcs = [c for c in walk_shallow(ph.node) if isinstance(c, ast.Call) and len(c.args) >= 3 and roles_of(c.args[2], ph, hw) == {"_heatmap_var"}]
    need(pcs, "anchor lost: heat-map draw call")
    got = [sorted(roles_of(a, ph, hw)) for a in pcs[0].args[:3]]
    if got == [["_heatmap_x"], ["_heatmap_y"], ["_heatmap_var"]]:
        rr.ok("heat-map draw call: (X <- _heatmap_x, Y <- _heatmap_y, C <- _heatmap_var)")
    else:
        rr.bad(ctx.finding(rid_roles, ph, pcs[0], "the heat-map draw call receives %s" % got, construct="pcolormesh-args"), "pcolormesh")

    # ---- mask
    rm = ctx.rule(rid_mask, "each series is filtered by exactly isfinite(x) & isfinite(y); histograms by isfinite(x)", floor=4)
    masks = sorted((n for n in walk_shallow(gen.node) if isinstance(n, (ast.Assign, ast.AugAssign)) and norm(n.targets[0] if isinstance(n, ast.Assign) else n.target) == "not_null"), key=lambda n: n.lineno)
    txt = [norm(m) for m in masks]
    if txt == ["not_null = np.isfinite(data['x'])", "not_null &= np.isfinite(data['y'])"]:
        rm.ok("mask = isfinite(x) & isfinite(y), nothing else")
    else:
        rm.bad(ctx.finding(rid_mask, gen, masks[-1] if masks else gen.node, "the point mask is built by %s, not exactly isfinite(x) & isfinite(y): points whose (x, y) are both finite are dropped (or non-finite ones kept)" % txt, construct="mask-definition"), "mask definition")
    filt = {}
    for n in walk_shallow(gen.node):
        if isinstance(n, ast.Assign) and isinstance(n.targets[0], ast.Subscript) and norm(n.targets[0].value) == "data" and isinstance(n.value, ast.Subscript) and norm(n.value.slice) == "not_null":
            filt[n.targets[0].slice.value] = norm(n.value.value)
    want = {k: "data[%r]" % k for k in ("x", "y", "c", "ye", "xe")}
    if filt == want:
        rm.ok("x, y, c, ye, xe are all filtered with the same mask")
    else:
        rm.bad(ctx.finding(rid_mask, gen, gen.node, "not every yielded array is filtered by the point mask (filtered: %s): series components get out of step" % sorted(filt), construct="mask-application"), "mask application")
    # the per-series arrays are aligned by dimension name (xr.broadcast) before they are flattened
    fills = [lp_ for lp_ in walk_shallow(gen.node) if isinstance(lp_, ast.For) and any(isinstance(st, ast.Assign) and isinstance(st.targets[0], ast.Subscript) and norm(st.targets[0].value) == "data" for st in ast.walk(lp_))
             and "das" in norm(lp_.iter)]
    need(fills, "anchor lost: the loop filling `data` from `das` in gen_xy")
    for lp_ in fills:
        if "broadcast(" in norm(lp_.iter):
            rm.ok("data[k] is filled from xr.broadcast(*das.values()): x, y, c and errors are aligned by dimension name", norm(lp_.iter))
        else:
            rm.bad(ctx.finding(rid_mask, gen, lp_, "`for %s in %s` fills the series arrays without xr.broadcast: x, y, colour and error arrays stored with their dimensions in different orders (or sizes that happen to agree) are paired by position, "
                               "so points are drawn at the wrong coordinates" % (norm(lp_.target), norm(lp_.iter)), construct="no-broadcast"), "broadcast before flatten")
    ys = [n for n in walk_shallow(gen.node) if isinstance(n, ast.Expr) and isinstance(n.value, ast.Yield)]
    lp = [n for n in walk_shallow(gen.node) if isinstance(n, ast.For) and "self._z_vals" in norm(n.iter)]
    how = None
    if len(lp) == 1 and ys:
        gg = build_cfg(gen.node)
        hh = [n for n in gg.nodes if n.kind == "for" and n.ast is lp[0]]
        yn = [n for n in gg.nodes if n.kind == "stmt" and n.ast in ys]
        if len(hh) == 1 and len(yn) == len(ys):
            how = _once_per_iteration(gg, hh[0], yn)
    if len(ys) == 1 and how == "once" and norm(ys[0].value.value) == "data":
        rm.ok("exactly one series is yielded per z value on every path through the loop body, in the order of _z_vals")
    elif how in ("skippable", "repeated"):
        rm.bad(ctx.finding(rid_mask, gen, ys[0], "the yield of a series is %s within one iteration over the z values: the number of series no longer equals the number of z values, so every later series is drawn with the label, colour and marker of another z value" % how, construct="one-series-per-z"), "one per z")
    else:
        rm.bad(ctx.finding(rid_mask, gen, gen.node, "the generator does not yield exactly one series per z value", construct="one-series-per-z"), "one per z")
    hx = P.methods.get("prepare_x_vals_histogram")
    gx = hx.nested.get("gen_x") if hx else None
    need(gx is not None, "anchor lost: gen_x")
    ctx.touch(gx)
    yv = [n for n in walk_shallow(gx.node) if isinstance(n, ast.Expr) and isinstance(n.value, ast.Yield)]
    if len(yv) == 1 and norm(yv[0].value.value) == "{'x': x[np.isfinite(x)]}":
        rm.ok("histogram series = the finite values of x")
    else:
        rm.bad(ctx.finding(rid_mask, gx, yv[0] if yv else gx.node, "the histogram series is not exactly the finite values (`x[np.isfinite(x)]`)", construct="hist-mask"), "hist mask")

    # ---- lock-step iterators
    rl = ctx.rule(rid_lock, "one drawn series per z value: the label iterator advances once and one artist is created per series on every path", floor=2)
    for q, artists in ((MPL + ".LinePlot.plot_lines", ("plot", "errorbar")), (MPL + ".Scatter.plot_scatter", ("scatter",))):
        f = prog.func(q)
        g = build_cfg(f.node)
        ctx.touch(f, g)
        heads = [n for n in g.nodes if n.kind == "for" and "_gen_xy" in norm(n.ast.iter)]
        need(len(heads) == 1, "anchor lost: series loop in %s" % q)
        H = heads[0]
        it = [b for b, l in g.succ[H.id] if l == "iter"][0]
        lbl = [n for n in g.nodes if any(norm(c) == "next(self._zlbls)" for c in node_calls(n))]
        if not lbl and f.cls is not None:
            # advanced in a helper method that is called once per series: the helper must advance it exactly once, unconditionally
            for n in g.nodes:
                for c in node_calls(n):
                    if isinstance(c.func, ast.Attribute) and isinstance(c.func.value, ast.Name) and c.func.value.id == "self" and c.func.attr in f.cls.methods:
                        hm_ = f.cls.methods[c.func.attr]
                        adv = [x for x in ast.walk(hm_.node) if isinstance(x, ast.Call) and norm(x) == "next(self._zlbls)"]
                        if len(adv) == 1 and not any(isinstance(p2, (ast.For, ast.While, ast.If, ast.IfExp, ast.comprehension, ast.Try)) for p2 in _parents(adv[0]) if p2 is not hm_.node):
                            ctx.touch(hm_)
                            lbl.append(n)
        art = [n for n in g.nodes if any(isinstance(c.func, ast.Attribute) and c.func.attr in artists and norm(c.func.value) == "self._axes" for c in node_calls(n))]
        def once(nodes, what):
            if not nodes:
                return "never"
            # a path through the body avoiding all of them?
            if H.id in (g.reachable(start=it, blocked_nodes=[n.id for n in nodes], skip_labels=("exc",)) | {it}):
                return "skippable"
            for a in nodes:
                for b, l in g.succ[a.id]:
                    if l == "exc":
                        continue
                    r = g.reachable(start=b, blocked_nodes=[H.id], skip_labels=("exc",)) | {b}
                    if any(x.id in r for x in nodes):
                        return "repeated"
            return "once"
        for nodes, what in ((lbl, "the z label iterator"), (art, "the artist-creating call")):
            o = once(nodes, what)
            if o == "once":
                rl.ok("%s: %s advances exactly once per series on every path" % (f.name, what))
            else:
                rl.bad(ctx.finding(rid_lock, f, (nodes[0].stmt if nodes else f.node), "%s: %s is %s within one series iteration: labels and drawn series get out of step" % (f.name, what, o), construct="lockstep %s %s" % (f.name, what)), "%s %s" % (f.name, what))

    # histogram: one label and one yielded series per data series, on every path
    hp = prog.func(MPL + ".Histogram.plot_histogram")
    need(hp is not None, "anchor lost: Histogram.plot_histogram")
    gens = [fn for fn in hp.nested.values() if any("_gen_xy" in norm(x.iter) for x in ast.walk(fn.node) if isinstance(x, ast.For))] or \
           ([hp] if any("_gen_xy" in norm(x.iter) for x in ast.walk(hp.node) if isinstance(x, ast.For)) else [])
    need(len(gens) == 1, "anchor lost: the series loop of Histogram.plot_histogram")
    hf = gens[0]
    hg = build_cfg(hf.node)
    ctx.touch(hf, hg)
    hheads = [n for n in hg.nodes if n.kind == "for" and "_gen_xy" in norm(n.ast.iter)]
    need(len(hheads) == 1, "anchor lost: series loop in plot_histogram")
    hl = [n for n in hg.nodes if any(norm(c) == "next(self._zlbls)" for c in node_calls(n))]
    hy = [n for n in hg.nodes if n.kind == "stmt" and isinstance(n.ast, ast.Expr) and isinstance(n.ast.value, ast.Yield)] or \
         [n for n in hg.nodes if any(isinstance(c.func, ast.Attribute) and c.func.attr in ("append", "hist") for c in node_calls(n))]
    for nodes, what in ((hl, "the z label iterator"), (hy, "the yielded / collected series")):
        o = _once_per_iteration(hg, hheads[0], nodes)
        if o == "once":
            rl.ok("plot_histogram: %s advances exactly once per series on every path" % what)
        else:
            rl.bad(ctx.finding(rid_lock, hf, (nodes[0].stmt if nodes else hf.node), "plot_histogram: %s is %s within one series iteration: every later series is drawn with the label, colour and line width of another z value" % (what, o),
                               construct="lockstep plot_histogram %s" % what), "plot_histogram %s" % what)

    # ---- colour provenance
    rc = ctx.rule(rid_color, "line colours = cmap(norm(v)) with v and the norm's limits from the same quantity; absent limits tested with `is None`", floor=4)
    cl = P.methods.get("calc_line_colors")
    cn = P.methods.get("calc_color_norm")
    need(cl and cn, "anchor lost: calc_line_colors / calc_color_norm")
    ctx.touch(cl), ctx.touch(cn)
    g = build_cfg(cl.node)
    def gshape(e):
        """(element with the loop variable renamed to `_`, iterable) of a one-loop generator / list comprehension."""
        if isinstance(e, (ast.GeneratorExp, ast.ListComp)) and len(e.generators) == 1 and isinstance(e.generators[0].target, ast.Name) and not e.generators[0].ifs:
            v = e.generators[0].target.id
            class Rn(ast.NodeTransformer):
                def visit_Name(self, n):
                    return ast.copy_location(ast.Name(id="_", ctx=n.ctx), n) if n.id == v else n
            return norm(Rn().visit(ast.parse(ast.unparse(e.elt), mode="eval").body)), norm(e.generators[0].iter)
        return None
    for cval, src in ((NOTNONE, "self._c_cols"), (NONE, "self._z_vals")):
        fl = Flow(g, {"self.c_coo": cval}).run()
        rv = [n for n in g.nodes if n.id in fl.visited and n.kind == "stmt" and isinstance(n.ast, ast.Assign) and norm(n.ast.targets[0]) == "rvals"]
        need(rv, "anchor lost: `rvals` in calc_line_colors")
        shapes = [(n, gshape(n.ast.value)) for n in rv]
        good = [n for n, sh in shapes if sh == ("self._color_norm(_)", src)]
        lin = [n for n, sh in shapes if sh is None and "linspace" in norm(n.ast.value)]
        wrong = [n for n, sh in shapes if sh is not None and sh != ("self._color_norm(_)", src)]
        if good and len(good) + len(lin) == len(rv):
            rc.ok("c_coo %s: relative values = norm(v) for v in %s, in series order" % ("given" if cval == NOTNONE else "absent", src))
        elif wrong or not good:
            rc.bad(ctx.finding(rid_color, cl, (wrong or rv)[0].ast, "with c_coo %s the colour values are %s, not the norm applied to each of %s" % ("given" if cval == NOTNONE else "absent", [norm(n.ast.value) for n in rv], src), construct="rvals " + src), "rvals %s" % src)
        else:
            raise AnalysisError("idiom changed: rvals in calc_line_colors: %s" % [norm(n.ast.value) for n in rv])
    # numeric versus non-numeric z values: the test must hold for numpy scalars (array elements are np.int64 / np.float64, not int)
    lins = [n for n in g.nodes if n.kind == "stmt" and isinstance(n.ast, ast.Assign) and norm(n.ast.targets[0]) == "rvals" and gshape(n.ast.value) is None and "linspace" in norm(n.ast.value)]
    for ln in lins:
        p_ = getattr(ln.ast, "_parent", None)
        while p_ is not None and not isinstance(p_, ast.If):
            p_ = getattr(p_, "_parent", None)
        need(p_ is not None, "idiom changed: the non-numeric colour fallback is unconditional")
        t = p_.test
        neg = isinstance(t, ast.UnaryOp) and isinstance(t.op, ast.Not)
        t0 = t.operand if neg else t
        if isinstance(t0, ast.Call) and norm(t0.func) == "isinstance" and len(t0.args) == 2:
            tys = [norm(x) for x in (t0.args[1].elts if isinstance(t0.args[1], ast.Tuple) else [t0.args[1]])]
            if any(("np." in x or "numpy." in x or "numbers." in x or x in ("Number", "Real", "Integral")) for x in tys):
                rc.ok("numeric z values recognised by isinstance(%s)" % ", ".join(tys))
            elif set(tys) <= {"int", "float", "complex", "bool"}:
                rc.bad(ctx.finding(rid_color, cl, t0, "`%s` decides whether the z values are numeric, but they are elements of a numpy array: np.int64 / np.int32 are not instances of int, so integer z coordinates are coloured by their position "
                                   "(linspace) instead of by their value" % norm(t0), construct="numeric-test-python-types"), "numeric test")
            else:
                raise AnalysisError("idiom changed: numeric test `%s` in calc_line_colors" % norm(t0))
        elif isinstance(t0, ast.Call) and norm(t0.func).rsplit(".", 1)[-1] in ("isreal", "isrealobj", "issubdtype", "isscalar", "is_numeric_dtype"):
            rc.ok("numeric z values recognised by %s" % norm(t0.func))
        elif isinstance(t0, ast.Compare) and ("dtype" in norm(t0) or "kind" in norm(t0)):
            rc.ok("numeric z values recognised by dtype test `%s`" % norm(t0))
        elif "c_coo" in norm(t0):
            rc.ok("colour quantity test `%s`" % norm(t0))
        else:
            raise AnalysisError("idiom changed: test selecting the non-numeric colour fallback: `%s`" % norm(t0))
    over_rvals = [(n, gshape(n.ast.value)) for n in g.nodes if n.kind == "stmt" and isinstance(n.ast, ast.Assign) and gshape(n.ast.value) and gshape(n.ast.value)[1] == "rvals"]
    cols = [n for n in g.nodes if n.kind == "stmt" and isinstance(n.ast, ast.Assign) and norm(n.ast.targets[0]) == "self._cols"]
    need(cols, "anchor lost: self._cols in calc_line_colors")
    if len(over_rvals) == 1 and over_rvals[0][1][0] == "self.cmap(_)":
        t = norm(over_rvals[0][0].ast.targets[0])
        last = max(cols, key=lambda n: n.ast.lineno)
        if t == "self._cols" or any(norm(x) == t for x in ast.walk(last.ast.value)):
            rc.ok("colours = cmap(rval) for each normalised value")
        else:
            rc.bad(ctx.finding(rid_color, cl, last.ast, "self._cols is not built from the colour map applied to the normalised values", construct="cols"), "cols")
    elif over_rvals:
        rc.bad(ctx.finding(rid_color, cl, over_rvals[0][0].ast, "colours are not the colour map applied to the normalised values", construct="cols"), "cols")
    else:
        raise AnalysisError("idiom changed: no comprehension over rvals in calc_line_colors")
    coo = single_def(cn, "coo")
    need(coo, "anchor lost: `coo` in calc_color_norm")
    ce = coo[1]
    verdict = None
    if isinstance(ce, ast.IfExp) and isinstance(ce.test, ast.Compare) and len(ce.test.ops) == 1 and norm(ce.test.comparators[0]) == "None" and norm(ce.test.left) == "self.c_coo":
        if_none, if_some = (ce.body, ce.orelse) if isinstance(ce.test.ops[0], ast.Is) else (ce.orelse, ce.body) if isinstance(ce.test.ops[0], ast.IsNot) else (None, None)
        if if_none is not None:
            verdict = norm(if_none) == "self.z_coo" and norm(if_some) == "self.c_coo"
    if verdict is True:
        rc.ok("the norm's limits come from the colour quantity (c if given else z)")
    elif verdict is False or norm(ce) in ("self.z_coo", "self.c_coo"):
        rc.bad(ctx.finding(rid_color, cn, ce, "the colour norm's limits are not taken from `z_coo if c_coo is None else c_coo`", construct="norm-quantity"), "norm quantity")
    else:
        raise AnalysisError("idiom changed: colour quantity in calc_color_norm: %s" % norm(ce))
    LIM = ("zlims", "vmin", "vmax", "zmin", "zmax")
    ors = [b for b in ast.walk(cn.node) if isinstance(b, ast.BoolOp) and isinstance(b.op, ast.Or) and any(w in norm(b.values[0]) for w in LIM)]
    truthy = [t.test for t in ast.walk(cn.node) if isinstance(t, (ast.If, ast.IfExp)) and
              (isinstance(t.test, (ast.Name, ast.Attribute, ast.Subscript)) or (isinstance(t.test, ast.UnaryOp) and isinstance(t.test.op, ast.Not) and isinstance(t.test.operand, (ast.Name, ast.Attribute, ast.Subscript))))
              and any(w in norm(t.test) for w in LIM)]
    if ors:
        rc.bad(ctx.finding(rid_color, cn, ors[0], "`%s` treats a requested limit of 0 as 'not given' (falsy test instead of `is None`): colours and colour bar use the data extreme instead of the requested 0" % norm(ors[0]), construct="limit-or"), "limits is None")
    elif truthy:
        rc.bad(ctx.finding(rid_color, cn, truthy[0], "`%s` treats a requested limit of 0 as 'not given'" % norm(truthy[0]), construct="limit-falsy"), "limits is None")
    else:
        tests = [t for t in ast.walk(cn.node) if isinstance(t, ast.Compare) and len(t.ops) == 1 and isinstance(t.ops[0], (ast.Is, ast.IsNot)) and norm(t.comparators[0]) == "None" and any(w in norm(t.left) for w in LIM)]
        if len(tests) >= 4:
            rc.ok("absent limits are detected with `is None` (a limit of 0 is honoured)")
        else:
            raise AnalysisError("idiom changed: limit defaulting in calc_color_norm")
    return rr


def panel_rule(ctx, rid):
    rr = ctx.rule(rid, "grid panels: outer index = row coordinate, inner = column, consistent in the data split, GridSpec position and titles", floor=4)
    prog = ctx.prog
    f = prog.need_func(CORE + ".calc_row_col_datasets")
    ctx.touch(f)
    rets = [s for s in walk_shallow(f.node) if isinstance(s, ast.Return)]
    want = {"[[ds.loc[{col: c}] for c in cs]]", "[[ds.loc[{row: r}]] for r in rs]", "[[ds.loc[{row: r, col: c}] for c in cs] for r in rs]"}
    got = {norm(r.value.elts[0]) for r in rets if isinstance(r.value, ast.Tuple)}
    if got == want and norm(single_def(f, "rs")[1]) == "ds[row].values" and norm(single_def(f, "cs")[1]) == "ds[col].values":
        rr.ok("calc_row_col_datasets: rows outer (ds[row].values order), columns inner, each cell = ds.loc[{row: r, col: c}]")
    else:
        rr.bad(ctx.finding(rid, f, f.node, "calc_row_col_datasets no longer nests rows (outer) over columns (inner) with each cell selected by its own (row, col) coordinates: %s" % sorted(got), construct="row-col-split"), "split")
    mp = prog.need_func(MPL + ".mpl_multi_plot")
    mf = mp.nested.get("multi_plotter")
    need(mf is not None, "anchor lost: multi_plotter")
    ctx.touch(mf)
    loops = [n for n in walk_shallow(mf.node) if isinstance(n, ast.For)]
    outer = [l for l in loops if norm(l.iter) == "enumerate(ds_r_c)"]
    inner = [l for l in loops if norm(l.iter) == "enumerate(ds_r)"]
    if outer and inner and norm(outer[0].target) == "(i, ds_r)" and norm(inner[0].target) == "(j, sub_ds)" and inner[0] in outer[0].body:
        rr.ok("multi_plotter: i enumerates rows, j enumerates the row's columns")
    else:
        raise AnalysisError("idiom changed: multi_plotter loops")
    txt = " ".join(norm(s) for s in inner[0].body)
    checks = [("subplot=gs[i, j]", "GridSpec position gs[i, j]"), ("col_val = prettify(ds[col].values[j])", "column title from ds[col].values[j]"),
              ("row_val = prettify(ds[row].values[i])", "row title from ds[row].values[i]")]
    for needle, what in checks:
        if needle in txt:
            rr.ok("multi_plotter: %s" % what)
        else:
            rr.bad(ctx.finding(rid, mf, inner[0], "multi_plotter: %s is no longer `%s`: a slice is drawn in the panel (or under the title) of another coordinate" % (what, needle), construct="panel " + what), what)
    calls = [c for c in ast.walk(inner[0]) if isinstance(c, ast.Call) and isinstance(c.func, ast.Name) and c.func.id == "fn"]
    if calls and norm(calls[0].args[0]) == "sub_ds":
        rr.ok("each panel plots its own sub-dataset")
    else:
        rr.bad(ctx.finding(rid, mf, inner[0], "the panel plot does not receive the panel's own sub-dataset", construct="panel-data"), "panel data")
    return rr


# ====================================================================== C18
def _splat_value(fi, call, key):
    """value of keyword `key` when it is passed through a `**name` splat of a local dict literal"""
    for k in call.keywords:
        if k.arg is None and isinstance(k.value, ast.Name):
            d = single_def(fi, k.value.id)
            lit = d[1] if d else None
            if isinstance(lit, ast.Dict):
                for kk, vv in zip(lit.keys, lit.values):
                    if isinstance(kk, ast.Constant) and kk.value == key:
                        return vv
            elif isinstance(lit, ast.Call) and norm(lit.func) == "dict":
                for k2 in lit.keywords:
                    if k2.arg == key:
                        return k2.value
    return None


def method_text(ctx, f, depth=2, seen=None):
    """normalised statements of f followed by those of the same-class helper methods it calls (virtual inlining for rules
    that look for a statement wherever the method keeps it)"""
    seen = seen if seen is not None else set()
    seen.add(f.qualname)
    out = [norm(s_) for s_ in f.node.body]
    if depth > 0 and f.cls is not None:
        for c in ast.walk(f.node):
            if isinstance(c, ast.Call) and isinstance(c.func, ast.Attribute) and isinstance(c.func.value, ast.Name) and c.func.value.id == "self":
                m = f.cls.methods.get(c.func.attr)
                if m is not None and m.qualname not in seen:
                    ctx.touch(m)
                    out.append(method_text(ctx, m, depth - 1, seen))
    return " ".join(out)


def c18_rules(ctx):
    prog = ctx.prog
    I = prog.need_cls(INF + ".Infiniplotter")
    pl = I.methods.get("plot_lines")
    ph = I.methods.get("plot_heatmap")
    imd = I.methods.get("init_mapped_dim")
    init = I.methods.get("__init__")
    need(pl and ph and imd and init, "anchor lost: Infiniplotter methods")
    for f in (pl, ph, imd, init):
        ctx.touch(f)
    roles = {"x", "y", "z", "err", "text"}
    # ---- R2 roles at sinks
    rr = ctx.rule("C18.R2", "role agreement at ax.plot / errorbar / fill_between / pcolormesh / text sinks", floor=5)
    def sink(f, meth, spec):
        calls = [c for c in walk_shallow(f.node) if isinstance(c, ast.Call) and isinstance(c.func, ast.Attribute) and c.func.attr == meth and norm(c.func.value) == "ax"]
        need(calls, "anchor lost: ax.%s in %s" % (meth, f.name))
        for c in calls:
            for key, want in spec.items():
                e = c.args[key] if isinstance(key, int) and key < len(c.args) else arg(c, None, key) if isinstance(key, str) else None
                if e is None and isinstance(key, str):
                    e = _splat_value(f, c, key)
                if e is None:
                    continue
                got = roles_of(e, f, roles)
                if isinstance(want, set) and not (got & want and got <= want | {"y"} if "err" in want else got == want):
                    rr.bad(ctx.finding("C18.R2", f, c, "ax.%s receives data derived from %s in its %s slot (expected %s)" % (meth, sorted(got), key, sorted(want)), construct="sink %s %s" % (meth, key)), "ax.%s %s" % (meth, key))
                else:
                    rr.ok("%s: ax.%s %s <- %s" % (f.name, meth, key, sorted(got)), "%s|%s|%s|%s" % (f.name, meth, key, norm(e)))
    sink(pl, "plot", {0: {"x"}, 1: {"y"}})
    sink(pl, "errorbar", {"x": {"x"}, "y": {"y"}})
    sink(pl, "text", {0: {"x"}, 1: {"y"}})
    sink(ph, "pcolormesh", {0: {"x"}, 1: {"y"}})
    # fill_between: x <- x ; y1/y2 from y (+ error ranges)
    for c in [c for c in walk_shallow(pl.node) if isinstance(c, ast.Call) and isinstance(c.func, ast.Attribute) and c.func.attr == "fill_between"]:
        got = roles_of(arg(c, None, "x"), pl, roles)
        if got == {"x"}:
            rr.ok("plot_lines: ax.fill_between x <- x")
        else:
            rr.bad(ctx.finding("C18.R2", pl, c, "fill_between x slot receives %s" % sorted(got), construct="sink fill_between x"), "fill_between x")
    zd = [n for n in walk_shallow(ph.node) if isinstance(n, ast.Assign) and norm(n.targets[0]) == "zdata" and "isel(loc)" in norm(n.value)]
    if zd and all(".transpose(self.y, self.x)" in norm(n.value) and "self.ds[self.z]" in norm(n.value) for n in zd):
        rr.ok("plot_heatmap: mesh values = ds[z].isel(loc).transpose(y, x) by name")
    else:
        rr.bad(ctx.finding("C18.R2", ph, zd[0] if zd else ph.node, "the heat-map values are not ds[z].isel(loc).transpose(self.y, self.x)", construct="heatmap-values"), "heatmap values")

    # ---- R3 one ax.plot per visited location
    r3 = ctx.rule("C18.R3", "exactly one ax.plot per visited location, except all-null slices which are skipped before any artist is created", floor=2)
    g = build_cfg(pl.node)
    heads = [n for n in g.nodes if n.kind == "for" and "self.ranges" in norm(n.ast.iter)]
    need(len(heads) == 1, "anchor lost: location loop in plot_lines")
    H = heads[0]
    it = [b for b, l in g.succ[H.id] if l == "iter"][0]
    plots = [n for n in g.nodes if any(isinstance(c.func, ast.Attribute) and c.func.attr == "plot" and norm(c.func.value) == "ax" for c in node_calls(n))]
    conts = [n for n in g.nodes if n.kind == "stmt" and isinstance(n.ast, ast.Continue)]
    artists = [n for n in g.nodes if any(isinstance(c.func, ast.Attribute) and norm(c.func.value) == "ax" and c.func.attr in ("plot", "errorbar", "fill_between", "text", "scatter") for c in node_calls(n))]
    skip = g.reachable(start=it, blocked_nodes=[p.id for p in plots] + [c.id for c in conts], skip_labels=("exc",)) | {it}
    if len(plots) != 1:
        r3.bad(ctx.finding("C18.R3", pl, pl.node, "%d ax.plot calls in the location loop" % len(plots), construct="plot-count"), "one plot")
    elif H.id in skip:
        r3.bad(ctx.finding("C18.R3", pl, plots[0].stmt, "a location can go round the loop without ax.plot and without the all-null `continue`: a slice that has data is not drawn", construct="plot-skipped"), "plot not skipped")
    else:
        r3.ok("every iteration either draws exactly one line or takes the all-null continue")
    okc = False
    for c in conts:
        p = getattr(c.ast, "_parent", None)
        if isinstance(p, ast.If) and norm(p.test) == "not np.any(mask)":
            tnode = [n for n in g.nodes if n.kind == "test" and n.ast is p.test][0]
            if all(g.dominates(tnode.id, a.id) for a in artists):
                okc = True
    if okc:
        r3.ok("all-null slices are skipped before any artist is created")
    else:
        r3.bad(ctx.finding("C18.R3", pl, pl.node, "the all-null skip (`if not np.any(mask): continue`) no longer precedes every artist-creating call", construct="null-skip"), "null skip")

    # ---- R4 panel orientation
    r4 = ctx.rule("C18.R4", "panel placement: axs[i_ax, j_ax] with i from the row mapping and j from the column mapping", floor=4)
    for f in (pl, ph):
        axd = [v for _, v in assignments_to(f, "ax") if v is not None]
        need(len(axd) == 1, "anchor lost: the `ax` a slice is drawn on in %s" % f.name)
        for rv, cv in ((NOTNONE, NOTNONE), (NOTNONE, NONE), (NONE, NOTNONE), (NONE, NONE)):
            got = sym_expand(ctx, f, axd[0], {"self.row": rv, "self.col": cv}, stop=("loc",))
            want = "self.axs[%s, %s]" % ("loc[self.row]" if rv == NOTNONE else "0", "loc[self.col]" if cv == NOTNONE else "0")
            tag = "row %s, col %s" % ("mapped" if rv == NOTNONE else "absent", "mapped" if cv == NOTNONE else "absent")
            if got == want:
                r4.ok("%s, %s: ax = %s" % (f.name, tag, want))
            elif got.startswith("self.axs[") and set(names_in(ast.parse(got, mode="eval").body)) <= {"self", "loc"}:
                r4.bad(ctx.finding("C18.R4", f, axd[0], "%s: with %s a slice is drawn on `%s`; expected `%s`: slices are drawn in the wrong panel" % (f.name, tag, got, want), construct="panel-index " + f.name), "%s panels" % f.name)
            else:
                raise AnalysisError("idiom changed: panel of a slice in %s is `%s`" % (f.name, got))
    sub = [c for c in ast.walk(I.node) if isinstance(c, ast.Call) and norm(c.func).endswith("subplots")]
    if sub and any('self.sizes["row"]' in norm(c).replace("'", '"') and norm(c).replace("'", '"').index('self.sizes["row"]') < norm(c).replace("'", '"').index('self.sizes["col"]') for c in sub if 'self.sizes["col"]' in norm(c).replace("'", '"')):
        r4.ok("subplots(sizes[row], sizes[col])")
    else:
        r4.bad(ctx.finding("C18.R4", init, sub[0] if sub else init.node, "the axes grid is not created as (rows, cols) = (sizes['row'], sizes['col'])", construct="subplots-shape"), "subplots shape")
    da = I.methods.get("do_axes_formatting")
    if da is not None:
        ctx.touch(da)
        t = " ".join(norm(s) for s in da.node.body).replace("'", '"')
        if 'self.domains["col"][j]' in t and 'self.domains["row"][i]' in t:
            r4.ok("panel titles: domains['col'][j] / domains['row'][i]")
        else:
            r4.bad(ctx.finding("C18.R4", da, da.node, "panel titles are not taken from domains['col'][j] / domains['row'][i]", construct="panel-titles"), "titles")

    # ---- R5 style <-> key share one index
    r5 = ctx.rule("C18.R5", "for each mapped property the style value and the legend key use the same index (equal coordinates share a style)", floor=3)
    t = method_text(ctx, pl).replace("'", '"')
    pairs = [("idx = loc[dim]", "prop_in = self.domains[prop][idx]", "prop_out = self.values[prop][idx]"),
             ("icolor = loc[self.color]", 'color_in = self.domains["color"][icolor]', None),
             ("ihue = loc[self.hue]", 'hue_in = self.domains["hue"][ihue]', 'self.cmap_or_colors = self.values["hue"][ihue]')]
    for a, b, c in pairs:
        if a in t and b in t and (c is None or c in t):
            r5.ok("`%s` feeds both `%s`%s" % (a, b, (" and `%s`" % c) if c else ""))
        elif a in t and (b.split("[")[0] in t or (c and c.split("[")[0] in t)):
            r5.bad(ctx.finding("C18.R5", pl, pl.node, "the style lookup and the key lookup of a mapped property no longer share one index (`%s`; `%s`; `%s`)" % (a, b, c), construct="style-index " + a), "style index %s" % a)
        else:
            raise AnalysisError("idiom changed: style / key look-up of a mapped property (`%s`) not found in plot_lines or its helpers" % a)
    if "color_out = self.cmap_or_colors[icolor]" in t and 'self.cmap_or_colors(self.values["color"][icolor])' in t:
        r5.ok("colour style is looked up with the same icolor as the colour key")
    elif "icolor" in t and "color_out" in t:
        r5.bad(ctx.finding("C18.R5", pl, pl.node, "the colour style is not looked up with the colour key's index", construct="style-index color"), "style index color")
    else:
        raise AnalysisError("idiom changed: colour style look-up not found in plot_lines or its helpers")

    # ---- R7 domains are read after the dataset's index along the dimension was fixed
    r7 = ctx.rule("C18.R7", "init_mapped_dim records the dimension's coordinates after every re-indexing (sel(order), dropna) of the dataset along it", floor=1)
    g = build_cfg(imd.node)
    stores = [n for n in g.nodes if n.kind == "stmt" and isinstance(n.ast, ast.Assign) and norm(n.ast.targets[0]) == "self.domains[name]"]
    need(len(stores) == 1, "anchor lost: self.domains[name] assignment")
    got = sym_expand(ctx, imd, stores[0].ast.value, {"dim": NOTNONE})
    # the statement at which the coordinate values are actually read
    R = stores[0]
    if isinstance(R.ast.value, ast.Name):
        src = [n for n in g.nodes if n.kind == "stmt" and isinstance(n.ast, ast.Assign) and norm(n.ast.targets[0]) == R.ast.value.id]
        need(len(src) == 1, "idiom changed: alias of the coordinate values in init_mapped_dim")
        R = src[0]
    if got != "self.ds[dim].values":
        if "self.ds" in got or "dim" in got or "order" in got:
            r7.bad(ctx.finding("C18.R7", imd, stores[0].ast, "domains[name] is `%s`, not the dataset's current coordinate values" % got, construct="domains-source"), "domains source")
        else:
            raise AnalysisError("idiom changed: domains[name] = %s" % got)
    rebinds = [n for n in g.nodes if n.kind == "stmt" and isinstance(n.ast, ast.Assign) and norm(n.ast.targets[0]) == "self.ds" and any(k in norm(n.ast.value) for k in (".sel(", ".dropna(", ".isel(", ".drop_sel(", ".sortby(", ".reindex("))]
    late = [n for n in rebinds if n.id in g.reachable(start=R.id) and n.id != R.id]
    if late:
        r7.bad(ctx.finding("C18.R7", imd, late[0].ast, "`%s` re-indexes the dataset along the dimension *after* its coordinates were recorded in domains[name]: positions used by isel(loc) and positions in domains / values denote different coordinates, so slices are labelled, styled and placed under the wrong coordinate (and an empty panel appears)"
                           % norm(late[0].ast)[:60], construct="reindex-after-domains"), "domains after re-indexing")
    elif len(rebinds) >= 2:
        r7.ok("sel(order) and dropna both complete before domains[name] is read")
    else:
        raise AnalysisError("idiom changed: init_mapped_dim re-indexing statements (%d found)" % len(rebinds))
    sz = [n for n in g.nodes if n.kind == "stmt" and isinstance(n.ast, ast.Assign) and norm(n.ast.targets[0]) == "self.sizes[name]" and "domains" in norm(n.ast.value)]
    if sz and norm(sz[0].ast.value) == "len(self.domains[name])":
        r7.ok("sizes[name] = len(domains[name])")


    # ---- R8 mask polarity
    r8 = ctx.rule("C18.R8", "join_across_missing: truthy -> x and y filtered by the both-non-null mask; falsy -> unfiltered (NaNs stay as gaps)", floor=2)
    gp = build_cfg(pl.node)
    for val, want in ((TRUTHY, "mask"), (FALSY, "()")):
        fl = Flow(gp, {"self.join_across_missing": val}).run()
        dm = [n for n in gp.nodes if n.id in fl.visited and n.kind == "stmt" and isinstance(n.ast, ast.Assign) and norm(n.ast.targets[0]) == "data_mask"]
        if len(dm) == 1 and norm(dm[0].ast.value) == want:
            r8.ok("join_across_missing %s -> data_mask = %s" % ("truthy" if val == TRUTHY else "falsy", want))
        else:
            r8.bad(ctx.finding("C18.R8", pl, dm[0].ast if dm else pl.node, "with join_across_missing %s the data mask is %s (expected %s): %s" % ("truthy" if val == TRUTHY else "falsy", [norm(d.ast.value) for d in dm], want,
                               "NaNs are kept although lines should join across them" if val == TRUTHY else "NaN gaps are removed although they should stay"), construct="mask-polarity %s" % want), "mask polarity %s" % want)
    mk = [norm(n) for n in sorted((n for n in walk_shallow(pl.node) if isinstance(n, (ast.Assign, ast.AugAssign)) and norm(n.targets[0] if isinstance(n, ast.Assign) else n.target) == "mask"), key=lambda n: n.lineno)]
    if mk == ["mask = ds_loc[self.y].notnull().values", "mask &= ds_loc[self.x].notnull().values"]:
        r8.ok("mask = y non-null (& x non-null when x varies)")
    else:
        r8.bad(ctx.finding("C18.R8", pl, pl.node, "the null mask is %s" % mk, construct="mask-def"), "mask def")
    xm = single_def(pl, "xmdata")
    ym = single_def(pl, "ymdata")
    if xm and ym and norm(xm[1]) == "xdata[data_mask]" and norm(ym[1]) == "ds_loc[self.y].values[data_mask]":
        r8.ok("x and y are filtered with the same data_mask")
    else:
        r8.bad(ctx.finding("C18.R8", pl, pl.node, "x and y are not filtered with the same data_mask", construct="mask-apply"), "mask apply")

    # ---- R9 histogram density delegated to numpy
    r9 = ctx.rule("C18.R9", "histogram mode: counts / density come from np.histogram(x, bins=self.bins, density=self.bins_density)", floor=1)
    hs = []
    for fi in [init] + list(init.nested.values()) + [f for f in prog.modules[INF].all_funcs if f.cls is None]:
        for c in ast.walk(fi.node):
            if isinstance(c, ast.Call) and norm(c.func) in ("np.histogram", "numpy.histogram"):
                hs.append((fi, c))
    if not hs:
        raise AnalysisError("anchor lost: np.histogram call in infiniplot")
    for fi, c in hs[:1]:
        b, d = arg(c, 1, "bins"), arg(c, None, "density")

        def _ex(e):
            # a local alias (possibly a closure variable of the enclosing function) of self.bins / self.bins_density
            fcur = fi
            while e is not None and isinstance(e, ast.Name) and fcur is not None:
                dd = single_def(fcur, e.id)
                if dd and dd[1] is not None:
                    e = dd[1]
                    break
                fcur = fcur.parent
            return norm(e) if e is not None else None
        if _ex(b) == "self.bins" and _ex(d) == "self.bins_density":
            r9.ok("np.histogram(x, bins=self.bins, density=self.bins_density)[0]")
        else:
            r9.bad(ctx.finding("C18.R9", fi, c, "the histogram is computed by `%s`: density normalisation is not delegated to np.histogram(..., bins=self.bins, density=self.bins_density), so with unevenly spaced bin edges the drawn density is not the true density" % norm(c)[:70],
                               construct="histogram-density"), "histogram density")

    # ---- R10 heat-map colour scale shared by all panels
    r10 = ctx.rule("C18.R10", "heat map without palette: every panel and the legend use one colour scale (max_mag of all data)", floor=1)
    tc = [c for c in ast.walk(ph.node) if isinstance(c, ast.Call) and norm(c.func) == "to_colors"]
    lg = [c for c in ast.walk(ph.node) if isinstance(c, ast.Call) and norm(c.func) == "add_visualize_legend"]
    need(tc and lg, "anchor lost: to_colors / add_visualize_legend in plot_heatmap")
    mm_t = arg(tc[0], None, "max_mag")
    mm_l = arg(lg[0], None, "max_mag")
    d = single_def(ph, "max_mag")
    outside = d is not None and not any(isinstance(p, ast.For) for p in _parents(d[0].ast))
    if mm_t is not None and mm_l is not None and norm(mm_t) == norm(mm_l) == "max_mag" and outside and "zdata_all" in " ".join(norm(v) for nm in names_in(d[1]) for _, v in assignments_to(ph, nm) if v is not None):
        r10.ok("to_colors(..., max_mag=max_mag) and the legend share max_mag computed once from all finite data")
    else:
        r10.bad(ctx.finding("C18.R10", ph, tc[0], "the per-panel colours (`%s`) and the legend do not share the global max_mag: each panel is normalised to its own maximum, so equal z values get different colours in different panels and disagree with the legend" % norm(tc[0])[:70],
                            construct="heatmap-max_mag"), "shared colour scale")

    # ---- R12 heat map: whatever aggregate was given, every unmapped dimension is aggregated away
    r12 = ctx.rule("C18.R12", "heat map with unmapped dimensions: aggregate None / a name / a list of names are all widened to 'all unmapped dimensions' (one mesh per panel)", floor=3)
    blocks = [n for n in ast.walk(init.node) if isinstance(n, ast.If) and "is_heatmap" in norm(n.test) and "unmapped" in norm(n.test)]
    need(len(blocks) == 1, "anchor lost: the heat-map aggregation default in Infiniplotter.__init__")
    wrapper = ast.parse("def _blk(self):\n    pass\n").body[0]
    wrapper.body = [blocks[0]]
    gb = build_cfg(wrapper)
    for label, val in (("None", NONE), ("True", TRUE), ("a dimension name", const("dim_a")), ("a list of names", const(("dim_a", "dim_b")))):
        flb = Flow(gb, {"self.is_heatmap": TRUE, "self.unmapped": TRUTHY, "self.aggregate": val}).run()
        env_x = flb.IN.get(gb.exit.id)
        need(env_x is not None, "idiom changed: heat-map aggregation block does not complete normally")
        got = env_x.get("self.aggregate") if hasattr(env_x, "get") else None
        if got == TRUE:
            r12.ok("aggregate=%s -> True (all unmapped dimensions)" % label)
        elif is_const(got) or got == NONE:
            r12.bad(ctx.finding("C18.R12", init, blocks[0], "in heat-map mode with unmapped dimensions aggregate=%s is left as %r instead of being widened to all unmapped dimensions: the remaining dimension is iterated and several meshes are stacked in one panel "
                                "(the visible one is not the aggregated z)" % (label, got[1]), construct="heatmap-aggregate-not-widened"), "aggregate %s" % label)
        else:
            raise AnalysisError("idiom changed: heat-map aggregation default leaves aggregate=%s as %r" % (label, got))

    # ---- R11 automatic hues of distinct coordinates are distinct
    r11 = ctx.rule("C18.R11", "automatic hues: N equally spaced hues over the sweep exclude the end point whenever the default sweep is a whole number of turns (hue is periodic)", floor=1)
    ls = []
    for fn in [init] + list(init.nested.values()):
        for c in walk_shallow(fn.node):
            if isinstance(c, ast.Call) and norm(c.func).rsplit(".", 1)[-1] in ("linspace", "arange") and "autohue_sweep" in norm(c):
                ls.append((fn, c))
    need(len(ls) == 1, "anchor lost: the generator of the automatic hues (linspace over autohue_sweep)")
    fn, c = ls[0]
    ctx.touch(fn)
    dflt = None
    cands = []
    for node in ast.walk(init.module.tree):
        if isinstance(node, (ast.FunctionDef, ast.AsyncFunctionDef)):
            a = node.args
            names = [x.arg for x in a.args][len(a.args) - len(a.defaults):]
            cands += [d for nme, d in list(zip(names, a.defaults)) + [(x.arg, d) for x, d in zip(a.kwonlyargs, a.kw_defaults) if d is not None] if nme == "autohue_sweep"]
        elif isinstance(node, ast.Call) and norm(node.func) == "dict" and getattr(node, "_parent", None) is not None and isinstance(getattr(node, "_parent"), ast.Assign) and getattr(getattr(node, "_parent"), "_parent", None) is init.module.tree:
            cands += [k.value for k in node.keywords if k.arg == "autohue_sweep"]
        elif isinstance(node, ast.Dict) and isinstance(getattr(node, "_parent", None), ast.Assign) and getattr(getattr(node, "_parent"), "_parent", None) is init.module.tree:
            cands += [v for k, v in zip(node.keys, node.values) if isinstance(k, ast.Constant) and k.value == "autohue_sweep"]
    need(len(cands) == 1, "anchor lost: the default of autohue_sweep (%d candidates)" % len(cands))
    try:
        dflt = float(ast.literal_eval(cands[0]))
    except Exception:
        raise AnalysisError("idiom changed: default of autohue_sweep is not a literal")
    need(dflt is not None, "anchor lost: default of autohue_sweep")
    ep = arg(c, None, "endpoint")
    if norm(c.func).endswith("arange"):
        raise AnalysisError("idiom changed: automatic hues built with arange")
    if dflt != int(dflt) or dflt == 0:
        r11.ok("default sweep %s is not a whole number of turns: the end point does not coincide with the start" % dflt)
    elif isinstance(ep, ast.Constant) and ep.value is False:
        r11.ok("linspace(start, start + sweep, N, endpoint=False) with default sweep %s: N distinct hues" % dflt)
    elif ep is None or (isinstance(ep, ast.Constant) and ep.value is True):
        r11.bad(ctx.finding("C18.R11", fn, c, "the automatic hues include the end point of the sweep; with the default sweep of %s turn(s) the last hue equals the first (hue is periodic), so the first and the last coordinate mapped to `hue` are drawn with the same colours although distinct default hues remain" % dflt,
                            construct="autohue-endpoint"), "autohue endpoint")
    else:
        raise AnalysisError("idiom changed: endpoint=%s in the automatic hue generator" % norm(ep))


def _parents(n):
    p = getattr(n, "_parent", None)
    while p is not None:
        yield p
        p = getattr(p, "_parent", None)
