"""C07 -- batches partition the work exactly and honour the requested size or count."""
import ast

from ..loader import AnalysisError, norm
from ..cfg import build_cfg
from ..util import callee_name, all_calls, arg, need, single_def
from .. import base_rules
from . import shared, batching
from .shared import CROP

LEVEL = "other"
CLAIM = {
    "text": ("Decides the structural clauses of C07 for all N, sizes and counts at once: (R1) the Sower is a counter machine that appends each setting exactly once, cuts a batch when the "
             "in-batch counter equals batchsize + [extra], names the file after incrementing the id counter (ids 1..B, no gaps), resets buffer and counter after each write, flushes a non-empty "
             "remainder on exit and never writes an empty batch; (R2) the extra-setting predicate normalises (linear integer forms) to id <= remainder; (R3) choose_batch_settings uses an accepted "
             "ceiling form for a batch size, caps with min(n, k) before divmod(n, k) for a batch count, keeps (size, count, remainder) untouched afterwards, and accepts a pre-set pair iff "
             "n <= size*count(+rem) < n + size; (R4) these numbers are chosen before anything is written and the persisted ones are the ones restored; (R5) sown kwargs precedence equals a direct run. "
             "With the divmod identity these give sum of sizes = N, sizes differing by <= 1, B = ceil(N/s) / min(k, N) -- the arithmetic identity itself is argued, not machine-proved."),
    "note": "Trusted base: integer arithmetic identities (divmod), CPython semantics of the parsed ast; recognised idioms are listed in xyzsa/props/batching.py; an unrecognised rewrite ends as exit 2.",
    "technique": "static analysis: CFG path rules (exactly-once / completes-before), linear-form normalisation of predicates and windows, available-expression rule for the divmod triple",
}
EXPLANATION = ("Path rules over the CFGs of Sower.__init__/__call__/save_batch/__exit__ and Crop.choose_batch_settings/sow_*; predicates and the consistency window are normalised as "
               "linear integer forms (D-AFFINE) and compared with the documented normal forms; dict-merge precedence in Crop.parse_constants is compared with Runner.run_combos.")
ASSUMPTIONS = ["divmod(n, k) returns (q, r) with n = q*k + r and 0 <= r < k for k >= 1", "combo_runner_core calls the sowing function once per setting in enumeration order (C01)"]
NOT_DECIDED = ["(V) the partition arithmetic for all (N, s, k) as a machine-checked theorem (argued from the normal forms)",
               "(V) that the enumeration feeds exactly the direct run's keyword arguments (C01.R3 decides the construction)"]


def order_rule(ctx, rid):
    """R4: batch numbers are chosen before anything is written, in every sow
    entry; the persisted numbers are the ones restored."""
    rr = ctx.rule(rid, "choose_batch_settings completes before prepare in every sow entry; persisted numbers are restored like-named", floor=5)
    crop = ctx.prog.need_cls(CROP + ".Crop")
    n = 0
    for name in ("sow_combos", "sow_cases"):
        f = crop.methods.get(name)
        need(f is not None, "anchor lost: Crop." + name)
        g = build_cfg(f.node)
        ctx.touch(f, g)
        ch = [(nd, c) for nd, c, nm in all_calls(ctx, f, g) if nm == CROP + ".Crop.choose_batch_settings"]
        pr = [(nd, c) for nd, c, nm in all_calls(ctx, f, g) if nm == CROP + ".Crop.prepare"]
        sw = [(nd, c) for nd, c, nm in all_calls(ctx, f, g) if nm == CROP + ".Sower"]
        need(pr and sw, "anchor lost: %s no longer calls prepare / Sower" % name)
        for pn, pc in pr + sw:
            if not any(g.completes_before(cn.id, pn.id) for cn, _ in ch):
                rr.bad(ctx.finding(rid, f, pc, "`%s` can run before the batch numbers were chosen: the settings file / Sower uses stale or unset batchsize, num_batches, remainder" % norm(pc)[:50],
                                   construct="prepare-before-choose " + norm(pc.func)), "%s order" % name)
            else:
                rr.ok("%s: choose_batch_settings completes before `%s`" % (name, norm(pc.func)))
        # a batch size / count (/ shuffle) given at sow time replaces the crop's own exactly when it is given
        from ..util import store_polarity, callee_func
        for par_ in [x for x in ("batchsize", "num_batches", "shuffle") if x in f.params]:
            sn, sg = store_polarity(f, par_, "self." + par_, g)
            if (sn, sg) == (False, False):
                # applied in a helper that receives the parameter
                fwd = [c_ for _, c_, _nm in all_calls(ctx, f, g) if callee_func(ctx, f, c_) is not None and any(isinstance(a_, ast.Name) and a_.id == par_ for a_ in list(c_.args) + [k.value for k in c_.keywords])]
                if fwd:
                    h_ = callee_func(ctx, f, fwd[0])
                    hp_ = None
                    for pos_, a_ in enumerate(fwd[0].args):
                        if isinstance(a_, ast.Name) and a_.id == par_ and pos_ + (1 if h_.cls is not None else 0) < len(h_.positional):
                            hp_ = h_.positional[pos_ + (1 if h_.cls is not None else 0)]
                    for k_ in fwd[0].keywords:
                        if isinstance(k_.value, ast.Name) and k_.value.id == par_:
                            hp_ = k_.arg
                    if hp_ is not None:
                        ctx.touch(h_)
                        sn, sg = store_polarity(h_, hp_, "self." + par_)
            if (sn, sg) == (False, True):
                rr.ok("%s: a given `%s` replaces the crop's, an omitted one leaves it" % (name, par_))
            elif (sn, sg) == (True, False):
                rr.bad(ctx.finding(rid, f, f.node, "%s stores `%s` on the crop when it is omitted (None) and ignores it when it is given: the requested batch size / count / shuffle is not honoured" % (name, par_), construct="override-polarity %s %s" % (name, par_)), "%s %s override" % (name, par_))
            elif (sn, sg) == (False, False) and any(isinstance(a_, ast.Name) and a_.id == par_ for _, c_, _nm in all_calls(ctx, f, g) for a_ in list(c_.args) + [k.value for k in c_.keywords]):
                raise AnalysisError("idiom changed: %s hands `%s` to a helper in which the store on the crop is not recognised" % (name, par_))
            elif (sn, sg) == (False, False):
                rr.bad(ctx.finding(rid, f, f.node, "%s never applies a given `%s` to the crop" % (name, par_), construct="override-missing %s %s" % (name, par_)), "%s %s override" % (name, par_))
            else:
                raise AnalysisError("idiom changed: how %s applies `%s`" % (name, par_))
        # the combos / cases counted are the ones sown
        for cn, cc in ch:
            kws = {k.arg: norm(k.value) for k in cc.keywords}
            ekw = {}
            enum_calls = [(nd, c) for nd, c, nm in all_calls(ctx, f, g) if nm in ("xyzpy.gen.combo_runner.combo_runner_core", "xyzpy.gen.case_runner.case_runner")]
            need(enum_calls, "anchor lost: %s enumerator call" % name)
            for en, ec in enum_calls:
                ekw = {k.arg: norm(k.value) for k in ec.keywords}
                for key in ("combos", "cases"):
                    if kws.get(key) != ekw.get(key):
                        rr.bad(ctx.finding(rid, f, cc, "batch numbers are computed from %s=%s but the enumeration sows %s=%s" % (key, kws.get(key), key, ekw.get(key)),
                                           construct="count-vs-sown " + key), "%s counts what it sows" % name)
                    else:
                        # same variable, and not re-assigned in between
                        rr.ok("%s: %s counted == %s sown (`%s`)" % (name, key, key, kws.get(key)))
    # persisted <-> restored
    si, rec, written, restored = shared.record_table(ctx)
    sy = crop.methods.get("_sync_info_from_disk")
    ctx.touch(si), ctx.touch(sy)
    for key, attr in (("batchsize", "self.batchsize"), ("num_batches", "self.num_batches"), ("_batch_remainder", "self._batch_remainder")):
        if written.get(key) != attr:
            rr.bad(ctx.finding(rid, si, rec, "settings record stores %r = %s instead of %s" % (key, written.get(key), attr), construct="record " + key), "record %s" % key)
            continue
        if restored.get(attr) == key:
            rr.ok("%s persisted as %r and restored from %r" % (attr, key, key))
        else:
            rr.bad(ctx.finding(rid, sy, sy.node, "%s is not restored from the like-named key %r (restored from %r)" % (attr, key, restored.get(attr)), construct="restore " + key), "restore %s" % key)
    return rr


def run(ctx):
    rr1, f = batching.sower_machine_rule(ctx, "C07.R1")
    batching.extra_predicate_rule(ctx, "C07.R2", f, with_reaper=False)
    batching.formulas_rule(ctx, "C07.R3")
    order_rule(ctx, "C07.R4")
    shared.precedence_rule(ctx, "C07.R5")
    prog = ctx.prog
    crop = prog.need_cls(CROP + ".Crop")
    sl = [crop.methods[n] for n in ("choose_batch_settings", "sow_combos", "sow_cases", "sow_samples", "prepare", "save_info", "_sync_info_from_disk", "parse_constants") if n in crop.methods]
    sl += list(f.cls.methods.values())
    base_rules.run_link_rules(ctx, "C07", sl)
