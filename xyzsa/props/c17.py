"""C17 -- classic line, scatter, histogram and heat-map plots draw exactly the data."""
from .. import base_rules
from . import plots
from .plots import CORE, MPL

LEVEL = "other"
CLAIM = {
    "text": ("Fidelity of the drawn artists is library / value dependent and not decided. Decided are structural conditions without which the statement fails for every input on some option path: (R1) every numpy / matplotlib / xarray reference in "
             "plot/core.py and plot/plotter_matplotlib.py resolves against the installed distributions and every attribute name used on an untyped receiver is defined somewhere (closed world); (R2) every Figure.colorbar call for the free-standing "
             "ScalarMappable definitely passes ax or cax, for every grid / relative-position valuation; (R3) the x / y / error / colour names reach the matching slot of plot / errorbar / scatter / hist / pcolormesh and the heat-map array is transposed to (y, x) "
             "by dimension name on every path; (R4) each series is masked by exactly isfinite(x) & isfinite(y) applied to all its components, exactly one series is yielded per z value on every path through the generator's loop body (no skip, no repeat), and in each draw loop the label iterator advances once and one artist is created per series on "
             "every path; (R5) grid panels: rows outer / columns inner consistently in the data split, GridSpec[i, j] and titles; (R6) no store, augmented assignment or in-place method on a value that may alias the caller's dataset; (R7) line colours are "
             "cmap(norm(v)) with v and the norm's limits from the same quantity and absent limits are tested with `is None`, and the numeric / non-numeric test on z values holds for numpy scalars. In R4: the per-series arrays are aligned with xr.broadcast before flattening; the histogram loop advances its label iterator and yields once per series on every path. "
             "In R5 also: each cell of the split is selected by its own coordinates, the grid iterates ds[row].values / ds[col].values themselves (a re-ordered iterable is reported), and on a window of 1..3 x 1..3 grids every column / row has a panel that carries its title. "
             "(R8) colour limits: zmin from zlims[0] / the data minimum, zmax from zlims[1] / the maximum; the numeric test looks at an element every non-empty series list has; non-numeric z values are spread over [0, 1], one value per series. "
             "(R9) prepare_z_vals: the multi-variable flag is on exactly on the paths where the series are variable names. (R10) the selection along z is made only where the path's own tests say z is a coordinate value; line colours from a variable are collected "
             "once per series in line mode, per-point colours in scatter mode, iff c is given (truth table over path conditions, through sibling helper closures). (R11) heat-map cell edges: on a uniform mesh a + h*i with h of either sign the n + 1 edges are "
             "a - h/2 + h*i (abstract evaluation over arithmetic sequences; a necessary condition only -- non-uniform meshes are not decided). (R12) scatter points coloured by a variable use the plot's one norm. (R13) the colour map is resolved from the plot's own option by functions that read no module-level container written at run time. (B6) builtin calls are given plausible argument kinds."),
    "note": "Trusted base: the matplotlib slot table (plot(x, y), errorbar(x, y, yerr=, xerr=), scatter(x, y), hist(x), pcolormesh(X, Y, C[y, x]), Figure.colorbar(mappable, ax=|cax=)); view / fresh-array producer tables in xyzsa/props/plots.py.",
    "technique": "static analysis: reference resolution against installed packages (closed-world attribute check), definite-key dataflow, role-provenance rules at draw sinks, CFG lock-step path rules, alias/taint no-mutation rule, path-condition truth tables, reaching definitions, abstract evaluation of the edge arithmetic over arithmetic sequences",
}
EXPLANATION = "B4/B5/B6 link rules over the plotting modules; definite keys of the colorbar options per valuation; provenance of draw-call arguments; mask / lock-step / panel rules; view-taint no-mutation rule; colour provenance and limits; multi-variable flag by reaching definitions; path-condition truth tables of the series generators; uniform-mesh abstract evaluation of the heat-map edges."
ASSUMPTIONS = ["matplotlib draws what it is given", "boolean-mask indexing, .flatten(), arithmetic produce fresh arrays; .values / basic indexing may be views"]
NOT_DECIDED = ["(L/V) the drawn artists equal the data (matplotlib on runtime arrays); legend / colour-bar rendering; log axes; jitter"]


def run(ctx):
    prog = ctx.prog
    funcs = [f for m in (CORE, MPL) for f in prog.modules[m].all_funcs]
    r = ctx.rule("C17.R1", "(see C17.R1.B4 / C17.R1.B5) the calls exist in the installed numpy / matplotlib / xarray", floor=0)
    base_rules.run_link_rules(ctx, "C17.R1", funcs, externals=True, closed_world=True)
    plots.colorbar_contract_rule(ctx, "C17.R2")
    plots.c17_data_rules(ctx, "C17.R3", "C17.R4a", "C17.R4b", "C17.R7")
    plots.panel_rule(ctx, "C17.R5")
    plots.c17_extra_rules(ctx, "C17.R8", "C17.R9", "C17.R10")
    plots.c17_mesh_rule(ctx, "C17.R11")
    plots.c17_scatter_norm_rule(ctx, "C17.R12")
    plots.c17_cmap_state_rule(ctx, "C17.R13")
    plots.c17_cmap_sites_rule(ctx, "C17.R14")

    def sources(fi):
        s = set()
        if fi.cls is not None or (fi.parent is not None and fi.parent.cls is not None):
            s.add("self._ds")
        for p in fi.params:
            if p in ("ds", "sub_ds", "obj"):
                s.add(p)
        return s
    plots.no_mutation_rule(ctx, "C17.R6", funcs, sources)
