"""Rules over Harvester / Sampler / manage (C05, C14, C15, parts of C06)."""
import ast

from ..loader import AnalysisError, norm, walk_shallow
from ..cfg import build_cfg, node_calls
from ..flow import Flow, NONE, NOTNONE, TRUE, FALSE, TRUTHY, FALSY, TOP, const, path_key
from ..util import callee_name, all_calls, arg, need, single_def, names_in, assignments_to, stmt_of

FARM = "xyzpy.gen.farming"
MAN = "xyzpy.manage"
FS_CALLS = {"os.access", "os.path.isfile", "os.path.exists", "os.path.isdir", "os.remove", "os.unlink", "shutil.rmtree", "shutil.copy", "shutil.copyfile",
            "shutil.move", "os.replace", "os.rename", "os.stat", "os.path.getsize"}
NORMALISER = MAN + ".auto_add_extension"


def _raw_names(f):
    """Expressions denoting the un-normalised data name in function f."""
    out = {"self.data_name"}
    for p in f.positional:
        if p in ("fname", "file_name", "name", "data_name"):
            out.add(p)
    return out


def physical_name_rule(ctx, rid, only_harvester=False):
    """C05.R1 / C14.R1: one logical file, one physical name."""
    rr = ctx.rule(rid, "every file-system call on the dataset file uses the extension-normalised name, normalised with the engine actually used", floor=8)
    prog = ctx.prog
    funcs = [FARM + ".Harvester.load_full_ds", FARM + ".Harvester.save_full_ds", FARM + ".Harvester.delete_ds", MAN + ".save_merge_ds", MAN + ".save_ds", MAN + ".load_ds"]
    if only_harvester:
        funcs = [q for q in funcs if ".Harvester." in q or q.endswith((".save_ds", ".load_ds"))]
    # a per-object memo of the physical name: data_name is a plain public attribute, so a name remembered in another
    # attribute (and read back on later calls) survives a reassignment of data_name -- every later load / save / delete
    # then goes to the first file
    H_ = prog.need_cls(FARM + ".Harvester")
    for m_ in H_.methods.values():
        if m_.name == "__init__":
            continue
        for st_ in ast.walk(m_.node):
            if not (isinstance(st_, ast.Assign) and len(st_.targets) == 1):
                continue
            t_ = st_.targets[0]
            holder = t_.value if isinstance(t_, ast.Subscript) else t_
            if not (isinstance(holder, ast.Attribute) and norm(holder.value) == "self"):
                continue
            v_ = st_.value
            if isinstance(v_, ast.Name):
                d_ = single_def(m_, v_.id)
                v_ = d_[1] if d_ is not None else v_
            if not (isinstance(v_, ast.Call) and callee_name(ctx, m_, v_) == NORMALISER and any(norm(a_) == "self.data_name" for a_ in v_.args)):
                continue
            keytxt = norm(t_.slice) if isinstance(t_, ast.Subscript) else ""
            reads_back = any(isinstance(x_, ast.Attribute) and isinstance(x_.ctx, ast.Load) and norm(x_) == norm(holder) for x_ in ast.walk(m_.node))
            is_prop = "data_name" in H_.methods
            if reads_back and "data_name" not in keytxt and not is_prop:
                ctx.touch(m_)
                rr.bad(ctx.finding(rid, m_, st_, "%s remembers the normalised file name in `%s`%s and reads it back on later calls; data_name is a plain attribute, so after `h.data_name = <other>` every load / save / delete still goes to the first file (the new file is never written, the old one is overwritten or deleted)" % (
                    m_.name, norm(holder), (" keyed by `%s`" % keytxt) if keytxt else ""), construct="file-name-memo " + m_.name), "%s memo" % m_.name)
            else:
                raise AnalysisError("idiom changed: %s stores the normalised file name in `%s`; whether it can go stale is not analysed" % (m_.name, norm(holder)))
    for q in funcs:
        f = prog.need_func(q)
        g = build_cfg(f.node)
        ctx.touch(f, g)
        raw = _raw_names(f)
        if q in (MAN + ".save_ds", MAN + ".load_ds"):
            # the normalising layer itself: file_name = auto_add_extension(file_name, engine) dominates every use
            nz = [n for n in g.nodes if n.kind == "stmt" and isinstance(n.ast, ast.Assign) and isinstance(n.ast.value, ast.Call) and callee_name(ctx, f, n.ast.value) == NORMALISER]
            uses = [(n, c, nm) for n, c, nm in all_calls(ctx, f, g) if nm != NORMALISER and any(isinstance(a, ast.Name) and a.id == "file_name" for a in c.args)]
            if len(nz) == 1 and norm(nz[0].ast) == "file_name = auto_add_extension(file_name, engine)" and all(g.completes_before(nz[0].id, n.id) for n, _, _ in uses) and uses:
                rr.ok("%s normalises the name with its engine before %d uses" % (f.name, len(uses)))
            else:
                rr.bad(ctx.finding(rid, f, nz[0].ast if nz else f.node, "%s does not normalise file_name with auto_add_extension(file_name, engine) before every use" % f.name, construct="layer-normalise " + f.name), "%s normalises" % f.name)
            continue
        # local names that are plain copies of one another (`a = b`, `(a, x) = (b, ...)`) name the same engine
        alias = {}

        def _find(x_):
            while alias.get(x_, x_) != x_:
                x_ = alias[x_]
            return x_
        for st_ in ast.walk(f.node):
            if isinstance(st_, ast.Assign) and len(st_.targets) == 1:
                prs_ = []
                if isinstance(st_.targets[0], ast.Name) and isinstance(st_.value, ast.Name):
                    prs_ = [(st_.targets[0].id, st_.value.id)]
                elif isinstance(st_.targets[0], ast.Tuple) and isinstance(st_.value, ast.Tuple) and len(st_.targets[0].elts) == len(st_.value.elts):
                    prs_ = [(t_.id, v_.id) for t_, v_ in zip(st_.targets[0].elts, st_.value.elts) if isinstance(t_, ast.Name) and isinstance(v_, ast.Name)]
                for a_, b_ in prs_:
                    alias[_find(a_)] = _find(b_)

        def _same_engine(e1, e2):
            return e1 == e2 or (e1 is not None and e2 is not None and e1.isidentifier() and e2.isidentifier() and _find(e1) == _find(e2))
        # which engine expression is used for the actual load / save in this function
        io_eng = set()
        for n, c, nm in all_calls(ctx, f, g):
            if nm in (MAN + ".load_ds", MAN + ".save_ds"):
                e = arg(c, None, "engine")
                if e is not None:
                    io_eng.add(norm(e))
                elif any(k.arg is None for k in c.keywords):
                    io_eng.add("**" + norm([k.value for k in c.keywords if k.arg is None][0]))
        for n, c, nm in all_calls(ctx, f, g):
            if nm not in FS_CALLS or not c.args:
                continue
            for a in c.args[:2]:
                txt = norm(a)
                if txt in ("os.W_OK", "os.R_OK"):
                    continue
                root = a
                chain = []
                # follow local definitions: file_name -> auto_add_extension(...), tmp -> file_name + '.tmp'
                seen = 0
                verdict = None
                cur = root
                while seen < 6:
                    seen += 1
                    if isinstance(cur, ast.BinOp) and isinstance(cur.op, ast.Add):
                        cur = cur.left
                        continue
                    if isinstance(cur, ast.Call) and callee_name(ctx, f, cur) == NORMALISER:
                        eng = norm(cur.args[1]) if len(cur.args) > 1 else None
                        base = norm(cur.args[0])
                        verdict = ("norm", base, eng)
                        break
                    if norm(cur) in raw:
                        verdict = ("raw", norm(cur), None)
                        break
                    if isinstance(cur, ast.Attribute) and isinstance(cur.value, ast.Name) and cur.value.id == "self" and f.cls is not None and cur.attr in f.cls.methods \
                            and any(norm(d_) in ("property", "functools.cached_property", "cached_property") for d_ in f.cls.methods[cur.attr].node.decorator_list):
                        # a property of the same class: its (single) returned expression
                        pm = f.cls.methods[cur.attr]
                        prets = [r for r in walk_shallow(pm.node) if isinstance(r, ast.Return) and r.value is not None]
                        if len(prets) != 1:
                            raise AnalysisError("idiom changed: property %s has %d return statements" % (pm.qualname, len(prets)))
                        ctx.touch(pm)
                        cur = prets[0].value
                        continue
                    if isinstance(cur, ast.Name):
                        d = single_def(f, cur.id, g)
                        if d is None:
                            break
                        cur = d[1]
                        continue
                    break
                if verdict is None:
                    continue     # not the data file (e.g. a backup suffix string)
                if verdict[0] == "raw":
                    rr.bad(ctx.finding(rid, f, c, "`%s` is applied to the raw data name `%s`, but save_ds / load_ds add the engine's extension: with an extension-less name this call looks at a different file than the one that holds the data (a new session never finds, or removes the wrong, file)"
                                       % (norm(c)[:60], verdict[1]), construct="raw-name " + norm(c.func)), "%s: %s" % (f.name, norm(c)[:40]))
                else:
                    eng = verdict[2]
                    # engine consistency: the normalising engine must be the one used for the I/O in this function
                    if q == FARM + ".Harvester.delete_ds":
                        good = eng == "self.engine"
                    elif q == MAN + ".save_merge_ds":
                        good = any(_same_engine(eng, e_) for e_ in io_eng)
                    else:
                        good = any(_same_engine(eng, e_) for e_ in io_eng) if io_eng else True
                    if good:
                        rr.ok("%s: `%s` on the normalised name (engine %s)" % (f.name, norm(c)[:40], eng))
                    else:
                        rr.bad(ctx.finding(rid, f, c, "`%s` uses the name normalised with `%s` while this function reads / writes with engine `%s`: with a per-call engine override it looks at a file with another extension than the one written"
                                           % (norm(c)[:50], eng, ", ".join(sorted(io_eng))), construct="engine-mismatch " + norm(c.func)), "%s engine" % f.name)
    if only_harvester:
        return rr
    # save_merge_ds: the engine used to load is the engine used to save
    sm = prog.need_func(MAN + ".save_merge_ds")
    muts = [c for c in walk_shallow(sm.node) if isinstance(c, ast.Call) and isinstance(c.func, ast.Attribute) and c.func.attr in ("pop", "popitem", "clear") and norm(c.func.value) == "kwargs"]
    dels = [d for d in walk_shallow(sm.node) if isinstance(d, ast.Delete) and "kwargs" in norm(d)]
    saves = [c for n, c, nm in all_calls(ctx, sm) if nm == MAN + ".save_ds"]
    loads = [c for n, c, nm in all_calls(ctx, sm) if nm == MAN + ".load_ds"]
    need(saves and loads, "anchor lost: save_merge_ds load / save")
    explicit = arg(saves[0], None, "engine")
    splat = [k for k in saves[0].keywords if k.arg is None and norm(k.value) == "kwargs"]
    e_load = arg(loads[0], None, "engine")
    src = e_load
    if isinstance(e_load, ast.Name):
        d = single_def(sm, e_load.id)
        src = d[1] if d and d[1] is not None else e_load
    if (muts or dels) and explicit is None:
        rr.bad(ctx.finding(rid, sm, (muts + dels)[0], "save_merge_ds removes `engine` from kwargs before forwarding them to save_ds: the merged dataset is written with the default engine, to another file than the one it was loaded from", construct="engine-dropped"), "save_merge engine kept")
    elif e_load is None:
        rr.bad(ctx.finding(rid, sm, loads[0], "save_merge_ds loads the existing file without the caller's engine", construct="load-no-engine"), "save_merge load engine")
    elif isinstance(src, ast.Name) and src.id in sm.params:
        # the engine is a named parameter: it is not part of **kwargs any more and must be forwarded explicitly
        if explicit is not None and norm(explicit) == src.id:
            rr.ok("save_merge_ds loads and saves with its `%s` parameter" % src.id)
        else:
            rr.bad(ctx.finding(rid, sm, saves[0], "save_merge_ds loads the existing file with its `%s` parameter but `%s` does not pass it on (a named parameter is no longer part of **kwargs): the merged dataset is written with save_ds's default engine, "
                               "into another file (or format) than the one that was loaded" % (src.id, norm(saves[0])[:50]), construct="engine-not-forwarded"), "save_merge engine forwarded")
    elif isinstance(src, ast.Call) and norm(src.func) == "kwargs.get" and src.args and isinstance(src.args[0], ast.Constant) and src.args[0].value == "engine":
        sd = prog.need_func(MAN + ".save_ds")
        dflt = sd.defaults().get("engine")
        same_default = len(src.args) == 2 and dflt is not None and norm(src.args[1]) == norm(dflt)
        if (splat or (explicit is not None and norm(explicit) == norm(e_load))) and same_default:
            rr.ok("save_merge_ds loads and saves with the same engine (kwargs['engine'], default %s = save_ds's default)" % norm(dflt))
        elif not same_default:
            rr.bad(ctx.finding(rid, sm, src, "save_merge_ds falls back to engine %s when none is given, save_ds to %s: the file is loaded with one engine and saved with another" % (norm(src.args[1]) if len(src.args) == 2 else None, norm(dflt) if dflt is not None else None),
                               construct="engine-default-mismatch"), "save_merge default engine")
        else:
            rr.bad(ctx.finding(rid, sm, saves[0], "save_merge_ds does not forward the caller's engine to save_ds", construct="engine-not-forwarded"), "save_merge engine forwarded")
    elif isinstance(src, ast.Constant) and isinstance(src.value, str) and (splat or (explicit is not None and not isinstance(explicit, ast.Constant))):
        rr.bad(ctx.finding(rid, sm, loads[0], "save_merge_ds looks for / loads the existing file with the fixed engine %s while the merged dataset is saved with the caller's engine: with engine='joblib' (or any other than %s) the existing file is not found "
                           "(its earlier contents are overwritten, conflicts are not refused) or is opened with the wrong library" % (norm(src), norm(src)), construct="load-engine-constant"), "save_merge load engine")
    else:
        raise AnalysisError("idiom changed: engine used by save_merge_ds to load (`%s`)" % norm(src))
    return rr


def _policy_table(ctx, rr, rid, f, old_names, new_names, valuation_key="overwrite", only=None, _depth=0):
    g = build_cfg(f.node)
    ctx.touch(f, g)
    # local aliases of the old / new datasets (`old_ds = self._full_ds`), single definitions only
    old_names, new_names = set(old_names), set(new_names)
    for st_ in walk_shallow(f.node):
        if isinstance(st_, ast.Assign) and len(st_.targets) == 1 and isinstance(st_.targets[0], ast.Name) and single_def(f, st_.targets[0].id) is not None:
            if norm(st_.value) in old_names:
                old_names.add(st_.targets[0].id)
            elif norm(st_.value) in new_names:
                new_names.add(st_.targets[0].id)
    for val, label in ((TRUE, "True"), (FALSE, "False"), (NONE, "None")):
        if only is not None and label != only:
            continue
        init = {valuation_key: val, "self._full_ds": NOTNONE}
        for x in old_names | new_names:
            init.setdefault(x, NOTNONE)
        fl = Flow(g, init).run()
        # assignments producing the merged dataset
        prods = []
        for n in g.nodes:
            if n.id in fl.visited and n.kind == "stmt" and isinstance(n.ast, (ast.Assign, ast.Return)) and isinstance(n.ast.value, ast.Call):
                c = n.ast.value
                if callee_name(ctx, f, c) in ("xarray.merge", "xarray.combine_by_coords", "xarray.concat"):
                    prods.append((n, c))
                elif isinstance(c.func, ast.Attribute) and c.func.attr in ("combine_first", "merge", "update", "combine"):
                    prods.append((n, c))
        if not prods:
            # the merge may live in a helper that is handed old, new and the policy
            from ..util import callee_func
            from ..callgraph import bind_call
            delegated = False
            for n in g.nodes:
                if n.id not in fl.visited:
                    continue
                for c in node_calls(n):
                    cf = callee_func(ctx, f, c)
                    if cf is None or _depth > 2:
                        continue
                    b, _, _ = bind_call(c, cf)
                    inv = {norm(a): p_ for p_, a in b.items()}
                    o2 = {inv[x] for x in old_names if x in inv}
                    n2 = {inv[x] for x in new_names if x in inv}
                    if cf.cls is not None and cf.cls is f.cls and isinstance(c.func, ast.Attribute) and norm(c.func.value) == "self":
                        # a method of the same object sees the object's own attributes under the same name
                        o2 |= {x for x in old_names if x.startswith("self.")}
                        n2 |= {x for x in new_names if x.startswith("self.")}
                    pol = [p_ for p_, a in b.items() if norm(a) == valuation_key]
                    if o2 and n2 and pol:
                        _policy_table(ctx, rr, rid, cf, o2, n2, pol[0], only=label, _depth=_depth + 1)
                        delegated = True
            if not delegated:
                raise AnalysisError("%s: with overwrite=%s no merge of old and new data was found (neither inline nor in a helper receiving both datasets and the policy)" % (f.name, label))
            continue
        # a path on which, with existing data present, the kept dataset is produced without combining old and new (a fast path
        # that copies one side): whether its guard implies "nothing of the other side is lost" is not something this analysis
        # can evaluate -- an unguarded bypass was already a missing production above
        targets = {n.ast.targets[0].id for n, c in prods if isinstance(n.ast, ast.Assign) and len(n.ast.targets) == 1 and isinstance(n.ast.targets[0], ast.Name)}
        prod_ids = {n.id for n, c in prods}
        for n in g.nodes:
            if n.id in fl.visited and n.id not in prod_ids and n.kind == "stmt" and isinstance(n.ast, ast.Assign) and len(n.ast.targets) == 1 \
                    and isinstance(n.ast.targets[0], ast.Name) and n.ast.targets[0].id in targets and not isinstance(n.ast.value, ast.Constant):
                used = {x.id for x in ast.walk(n.ast.value) if isinstance(x, ast.Name)} | {norm(x) for x in ast.walk(n.ast.value) if isinstance(x, ast.Attribute)}
                if n.ast.targets[0].id in used:
                    continue      # a transformation of the combined dataset itself
                raise AnalysisError("%s: with overwrite=%s and existing data present a path produces `%s = %s` without combining old and new data; whether its guard makes that equivalent is not analysed" % (
                    f.name, label, n.ast.targets[0].id, norm(n.ast.value)[:60]))
        for n, c in prods:
            txt = norm(c)
            recv = norm(c.func.value) if isinstance(c.func, ast.Attribute) else None
            a0 = norm(c.args[0]) if c.args else None
            meth = callee_name(ctx, f, c)
            if not meth.startswith("xarray."):
                meth = c.func.attr if isinstance(c.func, ast.Attribute) else meth
            if label == "True":
                good = meth == "combine_first" and recv in new_names and a0 in old_names
                want = "new.combine_first(old)"
            elif label == "False":
                good = meth == "combine_first" and recv in old_names and a0 in new_names
                want = "old.combine_first(new)"
            else:
                if meth == "merge":
                    cp = arg(c, None, "compat")
                    good = recv in old_names and a0 in new_names and cp is not None and isinstance(cp, ast.Constant) and cp.value == "no_conflicts"
                elif meth == "xarray.merge":
                    lst = c.args[0] if c.args else None
                    cp = arg(c, None, "compat")
                    els = [norm(x) for x in lst.elts] if isinstance(lst, (ast.List, ast.Tuple)) else []
                    good = len(els) == 2 and els[0] in old_names and els[1] in new_names \
                        and (cp is None or (isinstance(cp, ast.Constant) and cp.value == "no_conflicts"))
                    if good and cp is None:
                        ctx.extra.setdefault("relies_on_xarray_merge_default", [])
                        if f.qualname not in ctx.extra["relies_on_xarray_merge_default"]:
                            ctx.extra["relies_on_xarray_merge_default"].append(f.qualname)
                else:
                    good = False
                want = "merge(old, new, compat='no_conflicts')"
            if good:
                rr.ok("%s overwrite=%s -> %s" % (f.name, label, txt[:60]))
            else:
                rr.bad(ctx.finding(rid, f, c, "%s: with overwrite=%s the datasets are combined by `%s`, documented policy is %s%s" % (f.name, label, txt[:70], want,
                                   ": conflicting values are silently resolved instead of raising" if label == "None" else ": the wrong side wins where both have data"),
                                   construct="policy %s %s" % (label, txt[:60])), "%s overwrite=%s" % (f.name, label))


def policy_rule(ctx, rid):
    """C05.R2: the overwrite policy table, in both siblings."""
    rr = ctx.rule(rid, "overwrite policy: True -> new.combine_first(old), False -> old.combine_first(new), None -> merge no_conflicts (both siblings)", floor=6)
    prog = ctx.prog
    _policy_table(ctx, rr, rid, prog.need_func(FARM + ".Harvester.add_ds"), {"self._full_ds"}, {"new_ds"})
    sm = prog.need_func(MAN + ".save_merge_ds")
    olds = {n.ast.targets[0].id for n, c, nm in all_calls(ctx, sm) if nm == MAN + ".load_ds" and n.kind == "stmt" and isinstance(n.ast, ast.Assign) and isinstance(n.ast.targets[0], ast.Name)}
    need(len(olds) == 1, "idiom changed: save_merge_ds does not bind the loaded dataset to one name")
    _policy_table(ctx, rr, rid, sm, olds, {sm.positional[0]})
    return rr


def _expands_to(fi, e, allowed, depth=0):
    """e is one of the allowed expressions, or a local alias / conditional
    choice between them."""
    if norm(e) in allowed:
        return True
    if depth > 4:
        return False
    if isinstance(e, ast.IfExp):
        return _expands_to(fi, e.body, allowed, depth + 1) and _expands_to(fi, e.orelse, allowed, depth + 1)
    if isinstance(e, ast.Name):
        defs = [v for _, v in assignments_to(fi, e.id) if v is not None]
        return bool(defs) and all(_expands_to(fi, d, allowed, depth + 1) for d in defs)
    return False


def sync_order_rule(ctx, rid, cls="Harvester"):
    """C05.R3 / C15.R5: with sync: (re)load, then merge, then save; a failing
    merge leaves memory and disk untouched."""
    what = {"Harvester": ("add_ds", "load_full_ds", "save_full_ds", "_full_ds", "new_full_ds", MAN + ".save_ds"),
            "Sampler": ("add_df", "load_full_df", "save_full_df", "_full_df", "new_full_df", MAN + ".save_df")}[cls]
    mname, lname, sname, attr, newv, saver = what
    rr = ctx.rule(rid, "%s.%s with sync: reload from disk, then merge, then save; memory untouched before the merge succeeded" % (cls, mname), floor=5)
    prog = ctx.prog
    f = prog.need_func("%s.%s.%s" % (FARM, cls, mname))
    g = build_cfg(f.node)
    ctx.touch(f, g)
    # the local that holds the merged data: what is handed to save_full_*
    sv_names = {norm(c.args[0]) for n, c, nm in all_calls(ctx, f, g) if nm == "%s.%s.%s" % (FARM, cls, sname) and c.args and isinstance(c.args[0], ast.Name)}
    if len(sv_names) == 1 and list(sv_names)[0] not in f.params:
        newv = sv_names.pop()
    for mem in (NOTNONE, NONE):
        fl = Flow(g, {"sync": TRUE, "self.data_name": NOTNONE, "self." + attr: mem, "chunks": NONE, "self.chunks": NONE}).run()
        tag = "in-memory data %s" % ("present" if mem == NOTNONE else "absent")
        loads = [(n, c) for n, c, nm in all_calls(ctx, f, g) if nm == "%s.%s.%s" % (FARM, cls, lname) and n.id in fl.visited]
        saves = [(n, c) for n, c, nm in all_calls(ctx, f, g) if nm == "%s.%s.%s" % (FARM, cls, sname) and n.id in fl.visited]
        def _merge_call(c, depth=0):
            if isinstance(c, ast.Call) and isinstance(c.func, ast.Attribute) and c.func.attr in ("concat", "merge", "combine_first", "copy") and \
                    ("new_d" in norm(c) or attr in norm(c)):
                return True
            # a helper method of the same class that does the merging
            if isinstance(c, ast.Call) and isinstance(c.func, ast.Attribute) and norm(c.func.value) == "self" and f.cls is not None and c.func.attr in f.cls.methods and depth < 2 \
                    and c.func.attr not in (lname, sname):
                hm = f.cls.methods[c.func.attr]
                if any(isinstance(x, ast.Call) and isinstance(x.func, ast.Attribute) and x.func.attr in ("concat", "merge", "combine_first") for x in ast.walk(hm.node)):
                    ctx.touch(hm)
                    return True
            return False

        def _is_merge(n):
            if n.kind != "stmt" or not isinstance(n.ast, (ast.Assign, ast.Expr, ast.Return)):
                return False
            if isinstance(n.ast, ast.Assign) and norm(n.ast.targets[0]) == newv:
                return True
            val_ = n.ast.value
            return val_ is not None and any(_merge_call(c) for c in ast.walk(val_))
        merges = [n for n in g.nodes if n.id in fl.visited and _is_merge(n)]
        stores = [n for n in g.nodes if n.id in fl.visited and n.kind == "stmt" and isinstance(n.ast, ast.Assign) and any(path_key(t) == "self." + attr for t in n.ast.targets) and not _is_merge(n)]

        def _in_helper(target):
            """a helper method of the class (other than the loader / saver themselves) that calls `target`"""
            for n_, c_, nm_ in all_calls(ctx, f, g):
                if n_.id in fl.visited and isinstance(c_.func, ast.Attribute) and norm(c_.func.value) == "self" and f.cls is not None and c_.func.attr not in (lname, sname):
                    hm_ = f.cls.find_method(c_.func.attr)
                    if hm_ is not None and hasattr(hm_, "node") and any(nm2 == "%s.%s.%s" % (FARM, cls, target) for _, _, nm2 in all_calls(ctx, hm_)):
                        return hm_
            return None
        if not merges:
            raise AnalysisError("idiom changed: no statement of %s recognised as the merge of old and new data" % mname)
        if not loads and _in_helper(lname) is not None:
            raise AnalysisError("idiom changed: %s reloads through the helper `%s`" % (mname, _in_helper(lname).name))
        if not saves and _in_helper(sname) is not None:
            raise AnalysisError("idiom changed: %s saves through the helper `%s`; whether the helper saves on every path with sync is not analysed" % (mname, _in_helper(sname).name))
        if not loads or not all(g.completes_before(loads[0][0].id, m.id, feasible=fl.feasible) for m in merges) or not merges:
            rr.bad(ctx.finding(rid, f, f.node, "with sync and %s, %s does not (re)load the on-disk data before merging: data written by another %s object / session on the same file is silently dropped at the next save" % (tag, mname, cls),
                               construct="no-reload " + ("mem" if mem == NOTNONE else "nomem")), "%s reload [%s]" % (mname, tag))
        else:
            rr.ok("%s [%s]: %s() completes before the merge" % (mname, tag, lname))
        def after_merges(sn):
            if sn.id in g.reachable(blocked_nodes=[m.id for m in merges], feasible=fl.feasible):
                return False
            for m in merges:
                for b, l in g.succ[m.id]:
                    if l == "exc" and (b == sn.id or sn.id in g.reachable(start=b, feasible=fl.feasible)):
                        return False
            return True
        if not saves or not all(after_merges(s) for s, _ in saves) or \
                not all(g.completes_before(s.id, g.exit.id, feasible=fl.feasible) for s, _ in saves[:1]):
            rr.bad(ctx.finding(rid, f, f.node, "with sync, %s does not save after merging on every normal path" % mname, construct="no-save-after-merge"), "%s saves [%s]" % (mname, tag))
        else:
            sv = arg(saves[0][1], 0)
            merged_into_self = any(any(path_key(t) == "self." + attr for t in getattr(m.ast, "targets", [])) for m in merges)
            if sv is not None and _merge_call(sv):
                rr.ok("%s [%s]: %s(<merged by %s>) after the reload" % (mname, tag, sname, norm(sv.func)))
            elif (sv is None and not merged_into_self) or (sv is not None and norm(sv) != newv and not _expands_to(f, sv, {newv})):
                rr.bad(ctx.finding(rid, f, saves[0][1], "%s saves `%s`, not the merged data" % (mname, norm(sv) if sv else None), construct="save-arg"), "%s save arg" % mname)
            else:
                rr.ok("%s [%s]: %s(%s) after the merge on every normal path" % (mname, tag, sname, newv))
        early = [s for s in stores if not after_merges(s)]
        if early:
            rr.bad(ctx.finding(rid, f, early[0].ast, "the in-memory data is replaced before the (possibly failing) merge completed", construct="store-before-merge"), "%s memory after merge" % mname)
    # without sync: memory only
    fl = Flow(g, {"sync": FALSE}).run()
    disk = [(n, c) for n, c, nm in all_calls(ctx, f, g) if n.id in fl.visited and nm.rsplit(".", 1)[-1] in (lname, sname)]
    if disk:
        rr.bad(ctx.finding(rid, f, disk[0][1], "with sync=False %s still touches the disk" % mname, construct="nosync-disk"), "nosync")
    else:
        rr.ok("%s with sync=False: memory only" % mname)
    # save_full_*: saves the very object it keeps in memory
    sf = prog.need_func("%s.%s.%s" % (FARM, cls, sname))
    gs = build_cfg(sf.node)
    ctx.touch(sf, gs)
    sv = [(n, c) for n, c, nm in all_calls(ctx, sf, gs) if nm == saver]
    need(sv, "anchor lost: %s does not call %s" % (sname, saver))
    if cls == "Sampler":
        pass      # identity and ordering for the Sampler are checked by failed_save_rule
    elif all(_expands_to(sf, c.args[0], {"self." + attr, [p for p in sf.positional if p.startswith("new_full")][0]}) for n, c in sv):
        st = [n for n in gs.nodes if n.kind == "stmt" and isinstance(n.ast, ast.Assign) and any(path_key(t) == "self." + attr for t in n.ast.targets)]
        p_new = [p for p in sf.positional if p.startswith("new_full")][0]
        fl2 = Flow(gs, {p_new: NOTNONE, "engine": const("h5netcdf" if cls == "Harvester" else "pickle")}).run()
        okst = [s for s in st if _expands_to(sf, s.ast.value, {p_new}) and (all(gs.completes_before(s.id, n.id, feasible=fl2.feasible) for n, c in sv if n.id in fl2.visited)
                                                                             or all(gs.completes_before(n.id, s.id, feasible=fl2.feasible) for n, c in sv if n.id in fl2.visited))]
        if okst:
            rr.ok("%s: memory := new data, then exactly that object is saved (memory = disk)" % sname)
        elif not st and any(isinstance(c_, ast.Call) and isinstance(c_.func, ast.Attribute) and norm(c_.func.value) == "self" and c_.func.attr in sf.cls.methods and
                            any(isinstance(x_, ast.Assign) and any(path_key(t_) == "self." + attr for t_ in x_.targets) for x_ in ast.walk(sf.cls.methods[c_.func.attr].node)) for c_ in ast.walk(sf.node)):
            raise AnalysisError("idiom changed: %s stores self.%s through a helper method" % (sname, attr))
        else:
            rr.bad(ctx.finding(rid, sf, sf.node, "%s does not store the new data in memory before saving `self.%s`: disk and memory diverge" % (sname, attr), construct="save-identity"), "%s identity" % sname)
    else:
        rr.bad(ctx.finding(rid, sf, sv[0][1], "%s saves `%s`, not the object it keeps as self.%s" % (sname, norm(sv[0][1].args[0]), attr), construct="save-other-object"), "%s identity" % sname)
    return rr


def through_save_rule(ctx, rid):
    rr = ctx.rule(rid, "expand_dims / drop_sel: with a data name the file is reloaded first and the result persisted through save_full_ds", floor=4)
    prog = ctx.prog
    for mname in ("expand_dims", "drop_sel"):
        f = prog.need_func(FARM + ".Harvester." + mname)
        g = build_cfg(f.node)
        ctx.touch(f, g)
        fl = Flow(g, {"self.data_name": NOTNONE}).run()
        sv = [(n, c) for n, c, nm in all_calls(ctx, f, g) if nm == FARM + ".Harvester.save_full_ds" and n.id in fl.visited]
        derived = {norm(n.ast.targets[0]) for n in g.nodes if n.kind == "stmt" and isinstance(n.ast, ast.Assign) and ("self.full_ds" in norm(n.ast.value) or "self._full_ds" in norm(n.ast.value))}
        if sv and g.completes_before(sv[0][0].id, g.exit.id, feasible=fl.feasible) and sv[0][1].args and norm(sv[0][1].args[0]) in derived:
            rr.ok("%s saves the new dataset through save_full_ds" % mname)
        elif not sv and any(isinstance(c_, ast.Call) and isinstance(c_.func, ast.Attribute) and norm(c_.func.value) == "self" and c_.func.attr in f.cls.methods and
                            any(isinstance(x_, ast.Call) and norm(x_.func) == "self.save_full_ds" for x_ in ast.walk(f.cls.methods[c_.func.attr].node)) for c_ in ast.walk(f.node)):
            raise AnalysisError("idiom changed: %s persists its result through a helper method" % mname)
        elif not sv or not g.completes_before(sv[0][0].id, g.exit.id, feasible=fl.feasible):
            rr.bad(ctx.finding(rid, f, f.node, "%s does not persist its result through save_full_ds(new_ds) when a data name is set" % mname, construct="no-save " + mname), "%s saves" % mname)
        elif sv[0][1].args and norm(sv[0][1].args[0]) in ("self._full_ds", "self.full_ds", "self.last_ds"):
            rr.bad(ctx.finding(rid, f, sv[0][1], "%s saves `%s`, not the dataset it derived" % (mname, norm(sv[0][1].args[0])), construct="no-save " + mname), "%s saves" % mname)
        else:
            raise AnalysisError("idiom changed: %s saves `%s`" % (mname, norm(sv[0][1].args[0]) if sv[0][1].args else None))
        if mname == "expand_dims":
            # the new dimension is labelled with the given value, whatever that value is (0, 0.0, False and '' are labels too)
            vpar = f.positional[2] if len(f.positional) > 2 else "value"
            lab = [st for st in ast.walk(f.node) if isinstance(st, ast.Assign) and isinstance(st.targets[0], ast.Subscript) and ".coords" in norm(st.targets[0].value) and vpar in names_in(st.value)]
            need(lab, "anchor lost: expand_dims does not label the new dimension with `%s`" % vpar)
            guards = []
            p_ = getattr(lab[0], "_parent", None)
            while p_ is not None and p_ is not f.node:
                if isinstance(p_, (ast.If, ast.IfExp)) and vpar in names_in(p_.test):
                    guards.append(p_.test)
                p_ = getattr(p_, "_parent", None)
            truthy = [t for t in guards if isinstance(t, ast.Name) or (isinstance(t, ast.UnaryOp) and isinstance(t.op, ast.Not) and isinstance(t.operand, ast.Name))]
            if truthy:
                rr.bad(ctx.finding(rid, f, truthy[0], "the coordinate of the new dimension is attached only `if %s` (truthiness): for the labels 0, 0.0, False or '' the dimension stays without a coordinate, later harvests along it are aligned by position "
                                   "and the points harvested at that label are lost or relabelled" % norm(truthy[0]), construct="label-if-truthy"), "expand_dims labels")
            elif all(isinstance(t, ast.Compare) and isinstance(t.ops[0], (ast.Is, ast.IsNot)) for t in guards):
                rr.ok("expand_dims labels the new dimension with the given value%s" % (" (guard: %s)" % norm(guards[0]) if guards else ""))
            else:
                raise AnalysisError("idiom changed: guard of the coordinate label in expand_dims: %s" % [norm(t) for t in guards])
        # the saved dataset replaces the file: it must be derived from the file's current content, not from a possibly
        # stale in-memory copy (another session may have harvested in between)
        fl2 = Flow(g, {"self.data_name": NOTNONE, "self._full_ds": NOTNONE}).run()
        derive = [n for n in g.nodes if n.id in fl2.visited and n.kind == "stmt" and isinstance(n.ast, ast.Assign) and ("self.full_ds" in norm(n.ast.value) or "self._full_ds" in norm(n.ast.value))]
        need(derive, "idiom changed: %s does not derive the new dataset from the accumulated one" % mname)
        loads = [n for n, c, nm in all_calls(ctx, f, g) if nm == FARM + ".Harvester.load_full_ds" and n.id in fl2.visited]
        if loads and all(any(g.completes_before(L.id, D.id, feasible=fl2.feasible) for L in loads) for D in derive):
            rr.ok("%s reloads the on-disk dataset before deriving the dataset it saves" % mname)
        else:
            rr.bad(ctx.finding(rid, f, derive[0].ast, "%s derives the dataset it saves from the in-memory copy (`%s`, which reloads only when memory is empty) without reloading the file first: "
                               "points another harvester saved under the same data name since this object last synced are dropped from the file" % (mname, norm(derive[0].ast.value)[:50]), construct="stale-memory " + mname), "%s reloads" % mname)
    return rr


def engine_tables_rule(ctx, rid):
    """C14.R2: the engines of the extension table are the engines dispatched
    by save_ds and load_ds; attribute rewriting on netCDF engines only."""
    rr = ctx.rule(rid, "engine tables agree between the extension table, save_ds and load_ds; attribute rewriting only for netCDF engines, None/True/False only", floor=4)
    prog = ctx.prog
    m = prog.modules[MAN]
    tbl = m.consts.get("_engine_extensions")
    need(isinstance(tbl, ast.Dict), "anchor lost: _engine_extensions")
    engines = {k.value: v.value for k, v in zip(tbl.keys, tbl.values) if isinstance(k, ast.Constant) and isinstance(v, ast.Constant)}
    need(len(engines) >= 3, "engine table too small")
    exts = list(engines.values())
    if len(set(exts)) != len(exts) or any(e1 != e2 and e1 in e2 for e1 in exts for e2 in exts):
        rr.bad(ctx.finding(rid, None, tbl, "two engines share (a prefix of) an extension: a name saved by one engine is taken for the other's", construct="extension-clash"), "extensions distinct")
    else:
        rr.ok("engine extensions are distinct: %s" % engines)
    for fn in ("save_ds", "load_ds"):
        f = prog.need_func(MAN + "." + fn)
        ctx.touch(f)
        special = set()
        for n in walk_shallow(f.node):
            if isinstance(n, ast.Compare) and norm(n.left) == "engine":
                for cmp_ in n.comparators:
                    for x in ast.walk(cmp_):
                        if isinstance(x, ast.Constant) and isinstance(x.value, str):
                            special.add(x.value)
        unknown = special - set(engines)
        if unknown:
            rr.bad(ctx.finding(rid, f, f.node, "%s dispatches on engine(s) %s that have no entry in the extension table" % (fn, sorted(unknown)), construct="engine-unknown " + fn), "%s engines" % fn)
        else:
            rr.ok("%s dispatches on %s, all in the extension table; the rest go to xarray's netCDF path" % (fn, sorted(special)))
    # auto_add_extension: adds the engine's extension iff the name contains no known extension
    aae = prog.need_func(NORMALISER)
    fam = [aae] + [x for x in ctx.res.slice([aae]) if x.module is aae.module and x is not aae]
    for x in fam:
        ctx.touch(x)
    # evaluated, by the analyser's own interpreter, on a table of representative names x engines: the extension is appended
    # iff the name contains none of the known extensions (the documented behaviour all callers rely on)
    from ..util import IntEval, callee_func
    need(len(aae.positional) == 2, "idiom changed: auto_add_extension signature")
    p_name, p_eng = aae.positional

    def call_fn(fn, args):
        def on_call(c_, ev_, st_):
            cf = callee_func(ctx, fn, c_)
            if cf is not None and cf.module is aae.module and not c_.keywords:
                r_ = call_fn(cf, [ev_.ev(a_, st_) for a_ in c_.args])
                return r_
            return NotImplemented
        ev = IntEval({"_engine_extensions": dict(engines)}, on_call)
        body = [b_ for b_ in fn.node.body if not (isinstance(b_, ast.Expr) and isinstance(b_.value, ast.Constant))]
        res = ev.run(body, dict(zip(fn.positional, args)))
        if res[0] == "return":
            return res[1]
        if res[0] == "fall":
            return None
        raise AnalysisError("auto_add_extension raises on %r" % (args,))
    table = []
    for eng, ext in sorted(engines.items()):
        table += [("data", eng, "data" + ext), ("/scratch/run/data" + ext, eng, "/scratch/run/data" + ext), ("data" + ext + ".tmp", eng, "data" + ext + ".tmp")]
        for eng2, ext2 in sorted(engines.items()):
            if eng2 != eng:
                table.append(("res" + ext2, eng, "res" + ext2))      # carries another engine's extension already: left alone
    wrong = []
    try:
        for name_, eng_, want_ in table:
            got_ = call_fn(aae, [name_, eng_])
            if got_ != want_:
                wrong.append((name_, eng_, got_, want_))
    except AnalysisError as ex_:
        raise AnalysisError("idiom changed: auto_add_extension cannot be evaluated (%s)" % ex_)
    if wrong:
        name_, eng_, got_, want_ = wrong[0]
        rr.bad(ctx.finding(rid, aae, aae.node, "auto_add_extension(%r, %r) gives %r, expected %r (the engine's extension is appended iff the name contains no known extension): saving, loading, merging and deleting no longer agree on the file, "
                           "or names such as data.h5.tmp get a second extension" % (name_, eng_, got_, want_), construct="auto-add-extension"), "auto_add_extension")
    else:
        rr.ok("auto_add_extension evaluated on %d representative (name, engine) pairs: extension appended iff the name contains no known extension" % len(table))
    # attribute rewriting: exactly None / True / False by identity, netCDF engines only
    sd = prog.need_func(MAN + ".save_ds")
    fam = [sd] + [x for x in ctx.res.slice([sd]) if x.module is sd.module and x is not sd and x is not aae]
    ident, loose, stores = [], [], {}
    VALS = set()
    for fn in fam:
        for n in ast.walk(fn.node):
            if isinstance(n, (ast.For, ast.comprehension)) and norm(n.iter).endswith("attrs.items()") and isinstance(n.target, ast.Tuple) and len(n.target.elts) == 2 and isinstance(n.target.elts[1], ast.Name):
                VALS.add(n.target.elts[1].id)
    VALS = VALS or {"val"}
    for fn in fam:
        ctx.touch(fn)
        for n in ast.walk(fn.node):
            if isinstance(n, ast.If) and isinstance(n.test, ast.Compare) and len(n.test.ops) == 1 and isinstance(n.test.left, ast.Name) and n.test.left.id in VALS:
                op = n.test.ops[0]
                cv = n.test.comparators[0]
                if isinstance(op, ast.Is) and isinstance(cv, ast.Constant) and (cv.value is None or cv.value is True or cv.value is False):
                    ident.append((fn, n))
                    for st_ in n.body:
                        if isinstance(st_, ast.Assign) and isinstance(st_.targets[0], ast.Subscript) and isinstance(st_.value, ast.Constant):
                            stores[repr(cv.value)] = st_.value.value
                elif isinstance(op, (ast.Eq, ast.In)):
                    loose.append((fn, n))
    # a table look-up keyed by the value (TABLE[val], TABLE.get(val), val in TABLE) compares by hash / equality as well
    lookups = []
    for fn in fam:
        for n in ast.walk(fn.node):
            tbl = None
            if isinstance(n, ast.Subscript) and isinstance(n.slice, ast.Name) and n.slice.id in VALS and isinstance(n.ctx, ast.Load):
                tbl = n.value
            elif isinstance(n, ast.Call) and isinstance(n.func, ast.Attribute) and n.func.attr == "get" and n.args and isinstance(n.args[0], ast.Name) and n.args[0].id in VALS:
                tbl = n.func.value
            elif isinstance(n, ast.Compare) and len(n.ops) == 1 and isinstance(n.ops[0], (ast.In, ast.NotIn)) and isinstance(n.left, ast.Name) and n.left.id in VALS:
                tbl = n.comparators[0]
            if tbl is None:
                continue
            lit = tbl
            if isinstance(tbl, ast.Name):
                d = single_def(fn, tbl.id)
                lit = d[1] if d and d[1] is not None else fn.module.consts.get(tbl.id)
            keys = lit.keys if isinstance(lit, ast.Dict) else lit.elts if isinstance(lit, (ast.Tuple, ast.List, ast.Set)) else None
            if keys is not None and any(isinstance(k, ast.Constant) and (k.value is True or k.value is False) for k in keys):
                lookups.append((fn, n, norm(tbl)))
    if lookups and not loose:
        fn, n, tname = lookups[0]
        rr.bad(ctx.finding(rid, fn, n, "attributes are rewritten by looking the value up in `%s` (`%s`): a look-up compares by hash and equality, and 1 == True, 0 == False, so numeric attributes 0, 1, 0.0, 1.0 are saved as 'False' / 'True' "
                           "instead of by the identity tests `val is None / True / False`" % (tname, norm(n)[:50]), construct="attr-rewrite-tests"), "attr rewriting")
        return rr
    if loose:
        fn, n = loose[0]
        rr.bad(ctx.finding(rid, fn, n.test, "attributes are rewritten under `%s` instead of the identity tests `val is None / True / False`: an == / `in` test also rewrites the numbers 0, 1, 0.0, 1.0 to 'False' / 'True'" % norm(n.test), construct="attr-rewrite-tests"), "attr rewriting")
    elif len(ident) == 3 and stores == {"None": "None", "True": "True", "False": "False"}:
        # under which engines is the rewriting reached?  the path condition of a rewriting store, evaluated per engine
        from ..util import IntEval
        from ..pathcond import path_tests
        st_nodes = [x for x in ast.walk(sd.node) if isinstance(x, ast.Assign) and isinstance(x.targets[0], ast.Subscript) and norm(x.targets[0].value).endswith(".attrs")
                    and isinstance(x.value, ast.Constant) and x.value.value in ("None", "True", "False")]
        if not st_nodes:
            raise AnalysisError("idiom changed: the stores of the attribute rewriting are not in save_ds itself")
        tests = [(t_, pol_) for t_, pol_ in path_tests(sd.node, st_nodes[0]) if any(isinstance(x, ast.Name) and x.id == "engine" for x in ast.walk(t_))]
        if tests:
            wrong = []
            for eng in sorted(engines):
                try:
                    gv = all(bool(IntEval({"engine": eng}).ev(t_, {})) == pol_ for t_, pol_ in tests)
                except AnalysisError as ex_:
                    raise AnalysisError("idiom changed: guard of the attribute rewriting `%s` cannot be evaluated (%s)" % (" / ".join(norm(t_) for t_, _ in tests)[:80], ex_))
                want_ = eng not in ("joblib", "zarr")
                if gv != want_:
                    wrong.append((eng, gv))
            gtxt = " and ".join(("%s" if pol_ else "not (%s)") % norm(t_) for t_, pol_ in tests)
            if wrong:
                rr.bad(ctx.finding(rid, sd, tests[0][0], "the guard of the attribute rewriting `%s` is %s for engine %r: None / True / False attributes are turned into strings for an engine that stores them natively, or left as they are for a netCDF engine (which then fails to save)" % (
                    gtxt[:90], wrong[0][1], wrong[0][0]), construct="attr-rewrite-guard"), "attr rewriting guard")
            else:
                rr.ok("attribute rewriting: exactly None / True / False (identity tests) -> their names, reached exactly for the non-joblib / non-zarr engines (path condition `%s` evaluated per engine)" % gtxt[:80])
        else:
            rr.bad(ctx.finding(rid, sd, sd.node, "attributes are rewritten for every engine, not only for the netCDF ones", construct="attr-rewrite-guard"), "attr rewriting guard")
    else:
        raise AnalysisError("idiom changed: attribute rewriting in save_ds (%d identity tests, stores %s)" % (len(ident), stores))
    return rr


def failed_save_rule(ctx, rid):
    """C12 / C15: a failing save must leave the sampler's in-memory table as it
    was, otherwise a corrected retry appends the same rows a second time
    (concat is not idempotent, unlike the harvester's merge)."""
    rr = ctx.rule(rid, "Sampler.save_full_df: the in-memory table is replaced only after the file was written and moved into place", floor=1)
    prog = ctx.prog
    sf = prog.need_func(FARM + ".Sampler.save_full_df")
    g = build_cfg(sf.node)
    ctx.touch(sf, g)
    p_new = [p for p in sf.positional if p.startswith("new_full")][0]
    fl = Flow(g, {p_new: NOTNONE}).run()
    stores = [n for n in g.nodes if n.id in fl.visited and n.kind == "stmt" and isinstance(n.ast, ast.Assign) and any(path_key(t) == "self._full_df" for t in n.ast.targets)]
    saves = [(n, c) for n, c, nm in all_calls(ctx, sf, g) if nm == MAN + ".save_df" and n.id in fl.visited]
    moves = [(n, c) for n, c, nm in all_calls(ctx, sf, g) if nm in ("os.replace", "os.rename") and n.id in fl.visited]
    need(stores and saves, "anchor lost: save_full_df store / save")
    last = (moves or saves)[-1][0]
    early = [s for s in stores if not g.completes_before(last.id, s.id, feasible=fl.feasible)]
    if early:
        rr.bad(ctx.finding(rid, sf, early[0].ast, "`%s` replaces the in-memory table before the file is written: if the save fails (full disk, missing directory) the new rows stay in memory although they are not on disk, and the corrected retry -- reap again / sample again -- concatenates them a second time (when no file exists yet to reload from)"
                           % norm(early[0].ast), construct="memory-before-save"), "memory after save")
    else:
        saved = norm(saves[0][1].args[0])
        stored = norm(stores[0].ast.value)
        if saved == stored or saved == "self._full_df":
            rr.ok("save_full_df writes `%s`, moves it into place, then stores it as self._full_df" % saved)
        else:
            rr.bad(ctx.finding(rid, sf, stores[0].ast, "save_full_df saves `%s` but keeps `%s` in memory" % (saved, stored), construct="save-store-differ"), "memory = disk")
    return rr


def unsynced_rule(ctx, rid, cls="Harvester"):
    """C05.R6: data that only exists in memory (added with sync=False) is
    never replaced by a reload from disk.  Typestate over the accumulated
    attribute: {clean, dirty}.  add_* with sync falsy stores the merged data
    in memory without saving (-> dirty); add_* with sync truthy first calls
    the loader, whose store `self._full = load(...)` replaces the attribute.
    The reload is harmless only if what was in memory is carried over: a
    value captured from the attribute before the reload and combined after
    it, or a loader that merges with the attribute instead of replacing it."""
    what = {"Harvester": ("add_ds", "load_full_ds", "save_full_ds", "_full_ds", MAN + ".load_ds"),
            "Sampler": ("add_df", "load_full_df", "save_full_df", "_full_df", MAN + ".load_df")}[cls]
    mname, lname, sname, attr, loader = what
    rr = ctx.rule(rid, "%s.%s: data held only in memory (added with sync=False) is not replaced by the reload of a later synced call" % (cls, mname), floor=2)
    prog = ctx.prog
    f = prog.need_func("%s.%s.%s" % (FARM, cls, mname))
    lf = prog.need_func("%s.%s.%s" % (FARM, cls, lname))
    g = build_cfg(f.node)
    ctx.touch(f, g), ctx.touch(lf)
    # (1) can memory become dirty?
    fl0 = Flow(g, {"sync": FALSE, "self.data_name": NOTNONE, "chunks": NONE, "self.chunks": NONE}).run()
    stores0 = [n for n in g.nodes if n.id in fl0.visited and n.kind == "stmt" and isinstance(n.ast, ast.Assign) and any(path_key(t) == "self." + attr for t in n.ast.targets)]
    saves0 = [n for n, c, nm in all_calls(ctx, f, g) if nm == "%s.%s.%s" % (FARM, cls, sname) and n.id in fl0.visited]
    if not stores0 or saves0:
        rr.ok("%s(sync=False) leaves no unsaved data in memory (stores %d, saves %d)" % (mname, len(stores0), len(saves0)))
        rr.ok("nothing to carry over")
        return rr
    rr.ok("%s(sync=False) stores the merged data in memory only: `%s` (memory may be ahead of the file)" % (mname, norm(stores0[0].ast)[:60]))
    # (2) the synced call reloads
    fl1 = Flow(g, {"sync": TRUE, "self.data_name": NOTNONE, "self." + attr: NOTNONE, "chunks": NONE, "self.chunks": NONE}).run()
    loads = [(n, c) for n, c, nm in all_calls(ctx, f, g) if nm == "%s.%s.%s" % (FARM, cls, lname) and n.id in fl1.visited]
    if not loads:
        rr.ok("%s(sync=True) does not reload while data is held in memory" % mname)
        return rr
    L = loads[0][0]
    # loader: does it replace or merge?
    lstores = [s for s in ast.walk(lf.node) if isinstance(s, ast.Assign) and any(path_key(t) == "self." + attr for t in s.targets)]
    need(lstores, "anchor lost: %s does not store %s" % (lname, attr))
    merges_in_loader = all(("self." + attr) in norm(s.value) for s in lstores)
    # carried over in the adder: captured before, combined after
    carried = False
    for n in g.nodes:
        if n.kind == "stmt" and isinstance(n.ast, ast.Assign) and len(n.ast.targets) == 1 and isinstance(n.ast.targets[0], ast.Name) and "self._" in norm(n.ast.value) \
                and n.id in fl1.visited and g.completes_before(n.id, L.id):
            cap = n.ast.targets[0].id
            for m2 in g.nodes:
                if m2.id in fl1.visited and m2.id != n.id and m2.kind == "stmt" and m2.id in g.reachable(start=L.id) and m2.id != L.id and cap in names_in(m2.ast) \
                        and any(isinstance(c, ast.Call) and isinstance(c.func, ast.Attribute) and c.func.attr in ("combine_first", "merge", "concat", "update", "append") for c in ast.walk(m2.ast)):
                    carried = True
    if merges_in_loader or carried:
        rr.ok("the reload carries the in-memory data over (%s)" % ("the loader merges with the attribute" if merges_in_loader else "captured before the reload and combined after it"))
    else:
        rr.bad(ctx.finding(rid, f, loads[0][1], "%s(sync=True) calls %s, which replaces `self.%s` by the file's content (`%s`), while a previous %s(sync=False) may have left data in memory that was never saved: "
                           "those points are dropped from memory and never reach the file" % (mname, lname, attr, norm(lstores[0])[:70], mname), construct="reload-drops-unsynced"), "reload keeps unsynced data")
    return rr


def loader_errors_rule(ctx, rid, cls="Harvester"):
    """C05.R7 / C15.R9: the loader of the accumulated data treats only an
    absent file as 'nothing harvested yet'.  A failure of the load itself
    (lock, I/O error, corrupt file) must reach the caller: if it can be caught
    and the method returns normally, the next save replaces the file with the
    new points only."""
    lname, loader = {"Harvester": ("load_full_ds", MAN + ".load_ds"), "Sampler": ("load_full_df", MAN + ".load_df")}[cls]
    rr = ctx.rule(rid, "%s.%s: a failing load of the existing file propagates (only an absent file means 'no data yet')" % (cls, lname), floor=1)
    f = ctx.prog.need_func("%s.%s.%s" % (FARM, cls, lname))
    g = build_cfg(f.node)
    ctx.touch(f, g)
    calls = [(n, c) for n, c, nm in all_calls(ctx, f, g) if nm == loader]
    need(calls, "anchor lost: %s does not call %s" % (lname, loader))
    for n, c in calls:
        swallowed = None
        for t, l in g.succ[n.id]:
            if l == "exc" and (t == g.exit.id or g.exit.id in g.reachable(start=t)):
                swallowed = t
        if swallowed is None:
            rr.ok("%s: a failure of `%s` propagates" % (lname, norm(c)[:50]))
            continue
        # which exception types does the handler take?
        handlers = [h for tr in ast.walk(f.node) if isinstance(tr, ast.Try) and any(c is x for b in tr.body for x in ast.walk(b)) for h in tr.handlers]
        narrow = handlers and all(h.type is not None and norm(h.type) in ("FileNotFoundError",) for h in handlers)
        if narrow:
            rr.ok("%s: only FileNotFoundError of `%s` is taken as 'no data yet'" % (lname, norm(c)[:40]))
        else:
            rr.bad(ctx.finding(rid, f, c, "a failure of `%s` is caught (%s) and %s returns normally as if no file existed: after a transient read error (lock, I/O error, too many open files) the next synced save replaces the file with the new points only, "
                               "dropping everything harvested before" % (norm(c)[:50], ", ".join(norm(h.type) if h.type is not None else "bare except" for h in handlers) or "handler", lname), construct="load-error-swallowed"), "%s load errors" % lname)
    # the public view (property full_ds / full_df) loads from disk exactly when nothing is held in memory
    attr = {"Harvester": "_full_ds", "Sampler": "_full_df"}[cls]
    pv = ctx.prog.need_cls("%s.%s" % (FARM, cls)).methods.get(attr.lstrip("_"))
    if pv is not None:
        gp = build_cfg(pv.node)
        ctx.touch(pv, gp)
        seen_ = {}
        for val_, tag_ in ((NONE, "empty"), (NOTNONE, "held")):
            flp_ = Flow(gp, {"self." + attr: val_}).run()
            seen_[tag_] = any(nm_ == "%s.%s.%s" % (FARM, cls, lname) and n_.id in flp_.visited for n_, c_, nm_ in all_calls(ctx, pv, gp))
        if seen_ == {"empty": True, "held": False}:
            rr.ok("%s loads from disk exactly when memory is empty" % pv.name)
        elif seen_ == {"empty": False, "held": True}:
            rr.bad(ctx.finding(rid, pv, pv.node, "the %s property loads from disk when data *is* held in memory (replacing it) and not when memory is empty: a fresh %s on an existing file shows no data" % (pv.name, cls), construct="view-load-polarity"), "%s view" % cls)
        elif seen_ == {"empty": False, "held": False}:
            rr.bad(ctx.finding(rid, pv, pv.node, "the %s property never loads the file: a fresh %s on an existing file shows no data" % (pv.name, cls), construct="view-never-loads"), "%s view" % cls)
    for st in ast.walk(f.node):
        if isinstance(st, ast.Assign) and any(path_key(t) == "self." + attr for t in st.targets):
            if any(isinstance(x, ast.Call) and callee_name(ctx, f, x) == loader for x in ast.walk(st.value)):
                rr.ok("%s stores the loaded data" % lname)
            elif isinstance(st.value, ast.Constant) or norm(st.value) in ("xr.Dataset()", "pd.DataFrame()", "xarray.Dataset()", "pandas.DataFrame()"):
                rr.bad(ctx.finding(rid, f, st, "%s replaces the in-memory data by `%s` when there is nothing to load: data held in memory (given to the constructor, or added before a data name was set or after the file was deleted) is dropped, "
                                   "and the next synced save writes only the new points" % (lname, norm(st.value)), construct="loader-wipes-memory"), "%s keeps memory" % lname)
            else:
                raise AnalysisError("idiom changed: %s stores `%s` in %s" % (lname, norm(st.value)[:60], attr))
    return rr


def complex_netcdf_rule(ctx, rid):
    """C14.R3: the quantifier includes complex variables; h5netcdf refuses complex dtypes unless the writer is
    called with invalid_netcdf=True.  Decided on the shape of the code: on the netCDF branch of the function that
    calls Dataset.to_netcdf, the option is given as True -- unconditionally, or under a test that asks whether the
    data is complex (and then on the branch where it is)."""
    rr = ctx.rule(rid, "netCDF writer: complex data is passed to to_netcdf with invalid_netcdf=True (h5netcdf raises on complex dtypes otherwise)", floor=1)
    prog = ctx.prog
    m = prog.modules[MAN]
    sites = []
    for f in m.all_funcs:
        for c in walk_shallow(f.node):
            if isinstance(c, ast.Call) and isinstance(c.func, ast.Attribute) and c.func.attr == "to_netcdf":
                sites.append((f, c))
    need(sites, "anchor lost: no Dataset.to_netcdf call in %s" % MAN)

    def complex_test(t):
        """+1: true when the data is complex, -1: true when it is not, 0: not a complex test"""
        if isinstance(t, ast.UnaryOp) and isinstance(t.op, ast.Not):
            return -complex_test(t.operand)
        txt = norm(t)
        if "iscomplex" in txt or "complexfloating" in txt or "complex" in txt or ".kind == 'c'" in txt or ".kind in 'c'" in txt:
            return 1
        return 0

    for f, c in sites:
        ctx.touch(f)
        kw = {k.arg: k.value for k in c.keywords if k.arg}
        splats = [k.value for k in c.keywords if k.arg is None]
        if "invalid_netcdf" in kw:
            v = kw["invalid_netcdf"]
            if isinstance(v, ast.Constant) and v.value is True:
                rr.ok("%s: to_netcdf(..., invalid_netcdf=True)" % f.qualname)
            elif isinstance(v, ast.Constant):
                rr.bad(ctx.finding(rid, f, c, "to_netcdf is called with invalid_netcdf=%r: complex variables cannot be written with h5netcdf" % (v.value,), construct="invalid_netcdf off"), "option given")
            else:
                raise AnalysisError("idiom changed: invalid_netcdf=%s at to_netcdf in %s" % (norm(v), f.qualname))
            continue
        need(len(splats) == 1 and isinstance(splats[0], ast.Name), "idiom changed: to_netcdf options in %s" % f.qualname)
        kname = splats[0].id
        sets = []
        for n in walk_shallow(f.node):
            val = None
            if isinstance(n, ast.Call) and isinstance(n.func, ast.Attribute) and n.func.attr == "setdefault" and norm(n.func.value) == kname and n.args and isinstance(n.args[0], ast.Constant) and n.args[0].value == "invalid_netcdf":
                val = n.args[1] if len(n.args) > 1 else ast.Constant(None)
            elif isinstance(n, ast.Assign) and len(n.targets) == 1 and isinstance(n.targets[0], ast.Subscript) and norm(n.targets[0].value) == kname and isinstance(n.targets[0].slice, ast.Constant) and n.targets[0].slice.value == "invalid_netcdf":
                val = n.value
            elif isinstance(n, ast.Call) and isinstance(n.func, ast.Attribute) and n.func.attr == "update" and norm(n.func.value) == kname:
                for k in n.keywords:
                    if k.arg == "invalid_netcdf":
                        val = k.value
            if val is not None:
                sets.append((n, val))
        if not sets:
            rr.bad(ctx.finding(rid, f, c, "to_netcdf is never given invalid_netcdf=True: a dataset with a complex variable cannot be saved with h5netcdf (the round trip of complex values is part of the property)", construct="invalid_netcdf missing"), "option set")
            continue
        good = False
        for n, val in sets:
            if not (isinstance(val, ast.Constant) and val.value is True):
                if isinstance(val, ast.Constant):
                    continue
                raise AnalysisError("idiom changed: invalid_netcdf set to %s in %s" % (norm(val), f.qualname))
            # guards between the function body and the statement: engine tests are the dispatch, a complex test must have the right polarity
            pol, p, child = None, getattr(n, "_parent", None), n
            ok = True
            while p is not None and p is not f.node:
                if isinstance(p, ast.If):
                    in_body = any(child is b or child in ast.walk(b) for b in p.body)
                    ct = complex_test(p.test)
                    if ct != 0:
                        if (ct > 0) != in_body:
                            ok = False
                            rr.bad(ctx.finding(rid, f, p, "invalid_netcdf=True is set on the branch where the data is NOT complex (`%s`): complex variables reach to_netcdf without it" % norm(p.test), construct="invalid_netcdf polarity"), "polarity")
                    elif "engine" not in norm(p.test):
                        raise AnalysisError("idiom changed: invalid_netcdf set under `%s` in %s" % (norm(p.test), f.qualname))
                elif isinstance(p, (ast.For, ast.While, ast.Try, ast.With)):
                    raise AnalysisError("idiom changed: invalid_netcdf set inside a %s in %s" % (type(p).__name__, f.qualname))
                child, p = p, getattr(p, "_parent", None)
            # the setting must come before the call (same function, earlier line on the same branch structure)
            if ok:
                cfg = build_cfg(f.node)
                a = [x for x in cfg.stmt_nodes() if x.stmt is stmt_of(n)]
                b = [x for x in cfg.stmt_nodes() if x.stmt is stmt_of(c)]
                need(a and b, "cfg nodes of the invalid_netcdf setting / to_netcdf call in %s" % f.qualname)
                if not cfg.can_reach(a[0].id, b[0].id):
                    rr.bad(ctx.finding(rid, f, n, "invalid_netcdf=True is set where it cannot reach the to_netcdf call", construct="invalid_netcdf order"), "order")
                    ok = False
            if ok:
                good = True
        if good:
            rr.ok("%s: %s carries invalid_netcdf=True to to_netcdf when the data is complex" % (f.qualname, kname))
        elif not rr.findings:
            rr.bad(ctx.finding(rid, f, c, "invalid_netcdf is never set to True before to_netcdf", construct="invalid_netcdf missing"), "option set")


def _parents_of(n):
    p = getattr(n, "_parent", None)
    while p is not None:
        yield p
        p = getattr(p, "_parent", None)


def reload_reads_rule(ctx, rid, cls="Harvester"):
    """C05.R8 / C15.R11: the reload called before a synced merge really reads the file.  A path through load_full_* that
    finds the file present and returns without reading it is a cache; a cache validated by state that all objects of the
    class share (a class-level container mutated through self) cannot tell which object holds which version and is
    reported; a per-object cache is beyond this analysis (exit 2)."""
    lname, loader = {"Harvester": ("load_full_ds", MAN + ".load_ds"), "Sampler": ("load_full_df", MAN + ".load_df")}[cls]
    rr = ctx.rule(rid, "%s.%s: when the file is there it is read -- no path skips the read on the strength of state shared between objects" % (cls, lname), floor=1)
    prog = ctx.prog
    f = prog.need_func("%s.%s.%s" % (FARM, cls, lname))
    g = build_cfg(f.node)
    ctx.touch(f, g)
    reads = [n for n, c, nm in all_calls(ctx, f, g) if nm == loader]
    need(reads, "anchor lost: %s does not call %s" % (lname, loader))
    exist_tests = [n for n in g.nodes if n.kind == "test" and any(isinstance(c, ast.Call) and norm(c.func) in ("os.access", "os.path.exists", "os.path.isfile") for c in ast.walk(n.ast))]
    need(exist_tests, "idiom changed: %s does not test for the file" % lname)
    E = exist_tests[0]
    present = [b for b, l in g.succ[E.id] if l == "t"]
    need(present and not (isinstance(E.ast, ast.UnaryOp) and isinstance(E.ast.op, ast.Not)), "idiom changed: existence test `%s` of %s" % (norm(E.ast)[:50], lname))
    # a read before the existence test (try / except style) counts as well
    if all(g.dominates(r.id, E.id) for r in reads[:1]) and reads[0].id != E.id:
        rr.ok("%s reads first and tests afterwards" % lname)
        return rr
    skip = g.reachable(start=present[0], blocked_nodes=[r.id for r in reads], skip_labels=("exc",)) | ({present[0]} - {r.id for r in reads})
    early = [n for n in g.nodes if n.kind == "test" and n.id != E.id and n.id in g.reachable(skip_labels=("exc",)) and g.exit.id in g.reachable(start=n.id, blocked_nodes=[r.id for r in reads] + [E.id], skip_labels=("exc",))
             and any(r.id in g.reachable(start=n.id) or True for r in reads) and not any(isinstance(c, ast.Call) and norm(c.func) in ("os.access", "os.path.exists", "os.path.isfile") for c in ast.walk(n.ast))
             and not (g.dominates(n.id, E.id) and all(isinstance(x, ast.Compare) and isinstance(x.ops[0], (ast.Is, ast.IsNot)) and isinstance(x.comparators[0], ast.Constant) and x.comparators[0].value is None and norm(x.left) in f.params for x in [n.ast]))]
    if g.exit.id not in skip and not early:
        rr.ok("%s: every path that finds the file reads it" % lname)
        return rr
    # which state decides the skip?
    deciders = [n for n in g.nodes if n.kind == "test" and (n.id in skip or n in early)]
    shared = []
    klass = f.cls
    for n in deciders:
        for x in ast.walk(n.ast):
            if isinstance(x, ast.Attribute) and isinstance(x.value, ast.Name) and x.value.id == "self" and klass is not None:
                for c_ in klass.mro():
                    v = c_.attrs.get(x.attr)
                    if v is not None and (isinstance(v, (ast.Dict, ast.List, ast.Set)) or (isinstance(v, ast.Call) and norm(v.func) in ("dict", "list", "set", "collections.defaultdict", "defaultdict", "collections.OrderedDict"))):
                        # mutated through self somewhere?
                        mut = any(isinstance(s_, ast.Subscript) and isinstance(s_.ctx, ast.Store) and norm(s_.value) == "self." + x.attr for m_ in klass.methods.values() for s_ in ast.walk(m_.node)) or \
                            any(isinstance(c2, ast.Call) and isinstance(c2.func, ast.Attribute) and norm(c2.func.value) == "self." + x.attr and c2.func.attr in ("update", "setdefault", "append", "add", "pop", "clear") for m_ in klass.methods.values() for c2 in ast.walk(m_.node))
                        if mut:
                            shared.append((n, x.attr))
    if shared:
        n, attr = shared[0]
        rr.bad(ctx.finding(rid, f, n.ast, "%s skips reading the file when `%s` holds, and `self.%s` is one container shared by every %s object (class-level, mutated through self): after another object on the same file has saved, this object takes the other's record for its own, "
                           "keeps its stale copy, merges into it and overwrites the file -- the other object's points are dropped" % (lname, norm(n.ast)[:70], attr, cls), construct="reload-skipped-shared-state"), "reload reads")
        return rr
    # a per-object cache: the skip is decided by a token attribute recorded next to the load.  The token speaks for the
    # in-memory copy only if every method that replaces the copy also touches the token.
    from ..pathcond import path_tests, canon
    held = {norm(t_)[5:] for r in reads for p_ in _parents_of(r.ast) if isinstance(p_, ast.Assign) for t_ in p_.targets if norm(t_).startswith("self.")}
    for n_ in g.nodes:
        if n_.kind == "stmt" and isinstance(n_.ast, ast.Assign) and norm(n_.ast.targets[0]).startswith("self.") and any(r_.id == n_.id for r_ in reads):
            held.add(norm(n_.ast.targets[0])[5:])
    tokens = set()
    for n in deciders:
        for x in ast.walk(n.ast):
            if isinstance(x, ast.Attribute) and isinstance(x.value, ast.Name) and x.value.id == "self" and x.attr not in held:
                if any(isinstance(a_, ast.Assign) and any(norm(t_) == "self." + x.attr for t_ in a_.targets) for a_ in ast.walk(f.node)):
                    tokens.add(x.attr)
    if len(held) == 1 and tokens and klass is not None:
        V = sorted(held)[0]
        offenders = []
        n_repl = 0
        for m_ in klass.methods.values():
            if m_.name in ("__init__", lname):
                continue
            for a_ in ast.walk(m_.node):
                if isinstance(a_, ast.Assign) and any(norm(t_) == "self." + V for t_ in a_.targets) and not (isinstance(a_.value, ast.Constant) and a_.value.value is None):
                    n_repl += 1
                    no_file = any((canon(t_) in ("self.data_name is None",) and pol) or (canon(t_) in ("self.data_name is not None",) and not pol) for t_, pol in path_tests(m_.node, a_))
                    touches = any(isinstance(b_, (ast.Assign, ast.AugAssign, ast.Delete)) and any(norm(t_) in ("self." + tk) or norm(t_).startswith("self." + tk + "[") for tk in tokens
                                                                                                    for t_ in (b_.targets if not isinstance(b_, ast.AugAssign) else [b_.target])) for b_ in ast.walk(m_.node)) or \
                        any(isinstance(c_, ast.Call) and isinstance(c_.func, ast.Attribute) and any(norm(c_.func.value) == "self." + tk for tk in tokens) for c_ in ast.walk(m_.node))
                    if not touches and not no_file:
                        offenders.append((m_, a_))
        if offenders:
            m_, a_ = offenders[0]
            ctx.touch(m_)
            rr.bad(ctx.finding(rid, m_, a_, "%s skips reading the file while `self.%s` still matches the file, but %s replaces `self.%s` without touching that record (also: %s): afterwards the in-memory copy differs from the file, the reload before the next synced merge is skipped, "
                               "and data that was never meant to be saved (or a stale copy) is merged and written" % (lname, "`, `self.".join(sorted(tokens)), m_.name, V, ", ".join(sorted({o[0].name for o in offenders[1:]})) or "no other method"),
                               construct="reload-token-not-updated " + m_.name), "reload reads")
            return rr
    raise AnalysisError("idiom changed: %s can return without reading a file that is there (a cache decided by `%s`); whether that cache is sound is not analysed" % (lname, "; ".join(norm(n.ast)[:50] for n in deciders[:2])))


def tmp_keeps_extension_rule(ctx, rid):
    """C15.R12 / C12.R7: pandas infers the compression of a pickle / csv file from the *name* it is given.  The table
    is first written under a temporary name and then renamed onto the data name; if the temporary name does not end
    with the data name's extension, a table whose data name ends in .gz / .bz2 / .xz / .zip is written uncompressed
    and can never be read back under its own name (a new sampler cannot continue; a reaped crop's data is lost)."""
    from ..util import ConstFold
    rr = ctx.rule(rid, "Sampler.save_full_df: the temporary the table is written to keeps the data name's extension (pandas infers the compression from it) and lies in the same directory", floor=1)
    f = ctx.prog.need_func(FARM + ".Sampler.save_full_df")
    g = build_cfg(f.node)
    ctx.touch(f, g)
    saves = [c for n, c, nm in all_calls(ctx, f, g) if nm == MAN + ".save_df"]
    need(saves, "anchor lost: save_full_df does not call save_df")
    for c in saves:
        need(len(c.args) >= 2, "idiom changed: save_df call in save_full_df")
        e = c.args[1]
        if norm(e) == "self.data_name":
            rr.ok("save_full_df writes the data name itself (no temporary)")
            continue
        vals = []
        for stand in ("/data/run/table.pkl.gz", "table.csv.bz2"):
            try:
                vals.append((stand, ConstFold(ctx, f, {"self.data_name": stand}).ev(e)))
            except AnalysisError as ex:
                raise AnalysisError("idiom changed: the temporary name in save_full_df does not fold (%s)" % ex)
        import os as _os
        bad = [(s_, v_) for s_, v_ in vals if not (isinstance(v_, str) and v_.endswith(_os.path.splitext(s_)[1]) and _os.path.dirname(v_) == _os.path.dirname(s_) and v_ != s_)]
        if bad:
            s_, v_ = bad[0]
            rr.bad(ctx.finding(rid, f, e, "for the data name %r the table is first written to %r: pandas infers the compression from the extension, so the table is written with another compression than its final name says and cannot be read back "
                               "under that name (BadGzipFile / wrong directory) -- a new sampler on the file cannot continue from it" % (s_, v_), construct="tmp-extension"), "temporary extension")
        else:
            rr.ok("temporary name keeps extension and directory: %s" % ", ".join("%s -> %s" % sv for sv in vals))
    return rr


def stale_encoding_rule(ctx, rid):
    """C05.R9: xarray remembers, per variable, the dtype the file stored it with (`.encoding['dtype']`) and applies it again
    when the dataset is written.  A dataset that is loaded from the data file, merged with new data and written back must not
    carry those encodings along: an integer-encoded coordinate merged with the label 2.5 is written as 2 (with a warning
    only), so on disk the new point sits under another point's label.  Somewhere between the load and the save the dtype
    encodings have to be dropped (drop_encoding / reset_encoding / encoding.pop('dtype') / encoding.clear() / encoding = {})."""
    rr = ctx.rule(rid, "load -> merge -> save: the file's dtype encodings are dropped before the merged dataset is written (xarray would cast new float labels to the old integer dtype)", floor=2)
    prog = ctx.prog
    H = prog.need_cls(FARM + ".Harvester")
    groups = [("Harvester", [H.methods[n] for n in ("load_full_ds", "add_ds", "save_full_ds", "full_ds") if n in H.methods] + [prog.need_func(MAN + ".load_ds"), prog.need_func(MAN + ".save_ds")], H.methods["load_full_ds"]),
              ("save_merge_ds", [prog.need_func(MAN + ".save_merge_ds"), prog.need_func(MAN + ".load_ds"), prog.need_func(MAN + ".save_ds")], prog.need_func(MAN + ".save_merge_ds"))]

    def resets(fn, depth=0):
        for x in ast.walk(fn.node):
            if isinstance(x, ast.Call) and isinstance(x.func, ast.Attribute) and x.func.attr in ("drop_encoding", "reset_encoding"):
                return True
            if isinstance(x, ast.Call) and isinstance(x.func, ast.Attribute) and x.func.attr in ("pop", "clear") and isinstance(x.func.value, ast.Attribute) and x.func.value.attr == "encoding":
                if x.func.attr == "clear" or (x.args and isinstance(x.args[0], ast.Constant) and x.args[0].value == "dtype"):
                    return True
            if isinstance(x, ast.Assign) and isinstance(x.targets[0], ast.Attribute) and x.targets[0].attr == "encoding":
                return True
            if isinstance(x, ast.Call) and depth < 2:
                from ..util import callee_func
                cf = callee_func(ctx, fn, x)
                if cf is not None and cf.module.name in (MAN, FARM) and cf not in seen_:
                    seen_.add(cf)
                    if resets(cf, depth + 1):
                        return True
        return False
    for label, fns, anchor in groups:
        seen_ = set(fns)
        for fn in fns:
            ctx.touch(fn)
        if any(resets(fn) for fn in fns):
            rr.ok("%s: the loaded dataset's dtype encodings are dropped before it is written back" % label)
        else:
            rr.bad(ctx.finding(rid, anchor, anchor.node, "%s loads the data file, merges new data into it and writes the result back without ever dropping the variables' dtype encodings: xarray re-applies the stored dtype on writing, so after harvesting x = [1, 2] "
                               "a point harvested at x = 2.5 is written to disk under the label 2 (SerializationWarning only) -- memory says [1, 2, 2.5], the file [1, 2, 2]" % label, construct="stale-dtype-encoding " + label), "%s encodings" % label)
    return rr


CSV_READ_OPTIONS = {
    ("keep_default_na", False): "empty fields (how pandas writes NaN) are read back as the string '' instead of NaN, and the whole column becomes text",
    ("na_filter", False): "missing-value detection is switched off: NaN outputs come back as '' and numeric columns as text",
    ("dtype", "str"): "every column is read as text", ("dtype", "object"): "every column is read as objects / text",
    ("header", None): "the header line is read as a data row",
}


def csv_options_rule(ctx, rid):
    """C15.R13: a small table of pandas.read_csv options under which a table written by to_csv does not read back as it
    was (library semantics, frozen here like the xarray table of C03.R9): load_df must not set them."""
    rr = ctx.rule(rid, "load_df: no pandas.read_csv option that changes how a written table reads back (keep_default_na / na_filter off, dtype=str, header=None)", floor=1)
    f = ctx.prog.need_func(MAN + ".load_df")
    ctx.touch(f)
    found = []
    for x in ast.walk(f.node):
        key = val = None
        if isinstance(x, ast.Call) and isinstance(x.func, ast.Attribute) and x.func.attr in ("setdefault", "update") and norm(x.func.value) == "kwargs":
            if x.func.attr == "setdefault" and len(x.args) == 2 and isinstance(x.args[0], ast.Constant):
                key, val = x.args[0].value, x.args[1]
                found.append((x, key, val))
            for k in x.keywords:
                if k.arg:
                    found.append((x, k.arg, k.value))
        elif isinstance(x, ast.Assign) and isinstance(x.targets[0], ast.Subscript) and norm(x.targets[0].value) == "kwargs" and isinstance(x.targets[0].slice, ast.Constant):
            found.append((x, x.targets[0].slice.value, x.value))
        elif isinstance(x, ast.Call) and not (isinstance(x.func, ast.Attribute) and norm(x.func.value) == "kwargs"):
            for k in x.keywords:
                if k.arg in {o for o, _ in CSV_READ_OPTIONS}:
                    found.append((x, k.arg, k.value))
    bad = False
    for node, key, val in found:
        v = val.value if isinstance(val, ast.Constant) else norm(val)
        why = CSV_READ_OPTIONS.get((key, v))
        if why:
            bad = True
            rr.bad(ctx.finding(rid, f, node, "load_df reads csv tables with %s=%r: %s -- after the next run the earlier rows of the accumulated table are changed (and differ from the file)" % (key, v, why), construct="csv-option " + key), "csv option %s" % key)
    if not bad:
        rr.ok("load_df sets none of the read_csv options of the table (%d option stores examined)" % len(found))
    return rr
