"""Rules about how the stream of settings is cut into batches (C07), how the
Reaper sizes placeholders for them (C09), and which batch ids exist (C04,
C08, C16).  Subjects are found by role, not by attribute name."""
import ast

from ..loader import AnalysisError, norm, walk_shallow
from ..cfg import build_cfg, node_calls, walk_expr
from ..flow import path_key, Flow, TOP, NONE, TRUTHY, FALSY
from ..affine import Lin, lin, sym, predicate, constraints, range_bounds, NotAffine
from ..util import callee_name, all_calls, arg, need, names_in, single_def, assignments_to
from .shared import CROP, templates

WRITER = CROP + ".write_to_disk"


def last_attr(path):
    return path.rsplit(".", 1)[-1]


class SowerFacts:
    pass


def _aug_nodes(g, path):
    return [n for n in g.nodes if n.kind == "stmt" and isinstance(n.ast, ast.AugAssign) and path_key(n.ast.target) == path]


def _aug_nodes_any(g):
    return [n for n in g.nodes if n.kind == "stmt" and isinstance(n.ast, ast.AugAssign)]


def _assign_nodes(g, path):
    out = []
    for n in g.nodes:
        if n.kind == "stmt" and isinstance(n.ast, ast.Assign):
            for t in n.ast.targets:
                if path_key(t) == path:
                    out.append(n)
                elif isinstance(t, (ast.Tuple, ast.List)) and any(path_key(x) == path for x in t.elts):
                    out.append(n)
    return out


def _parents_b(n):
    p = getattr(n, "_parent", None)
    while p is not None:
        yield p
        p = getattr(p, "_parent", None)


def sower_facts(ctx):
    """Locate, by role, the Sower's flush method, its buffer, batch counter and
    in-batch counter."""
    prog = ctx.prog
    sower = prog.need_cls(CROP + ".Sower")
    f = SowerFacts()
    f.cls = sower
    f.call = sower.methods.get("__call__")
    f.exit = sower.methods.get("__exit__")
    f.init = sower.methods.get("__init__")
    need(f.call and f.exit and f.init, "anchor lost: Sower.__call__/__exit__/__init__")
    from ..util import inline_setter_calls
    for m_ in list(sower.methods.values()):
        inline_setter_calls(ctx, m_)
    flushers = [m for m in sower.methods.values() if any(nm == WRITER for _, _, nm in all_calls(ctx, m))]
    need(len(flushers) == 1, "anchor lost: expected exactly one Sower method calling the crop-file writer, found %d" % len(flushers))
    f.flush = flushers[0]
    g = build_cfg(f.flush.node)
    wcalls = [(n, c) for n, c, nm in all_calls(ctx, f.flush, g) if nm == WRITER]
    need(len(wcalls) == 1, "anchor lost: Sower flush calls the writer %d times" % len(wcalls))
    f.wnode, f.wcall = wcalls[0]
    f.buffer = path_key(f.wcall.args[0]) if f.wcall.args else None
    need(f.buffer is not None, "idiom changed: Sower flush does not write an attribute buffer: %s" % norm(f.wcall))
    # batch counter: the self attribute incremented in the flush method that determines the batch file's name
    from ..util import ConstFold, LOCATION_STANDIN
    f.counter = None
    pa = f.wcall.args[1] if len(f.wcall.args) > 1 else None
    need(pa is not None, "idiom changed: Sower flush writes without a path")
    incd = {path_key(n.ast.target) for n in _aug_nodes_any(g)}
    cands = [k for k in incd if k and k.startswith("self.")]
    t = templates(ctx)
    for k in cands:
        try:
            v = ConstFold(ctx, f.flush, {k: 7, "self.crop.location": LOCATION_STANDIN}, lenient=True).ev(pa)
        except AnalysisError:
            v = None
        if isinstance(v, str) and v.endswith("/batches/" + t["BTCH_NM"].format(7)):
            f.counter = k
    need(f.counter is not None, "idiom changed: the batch file name is not batches/BTCH_NM.format(<a counter incremented in %s>): %s" % (f.flush.name, norm(f.wcall)))
    f.counter_expr = ast.parse(f.counter, mode="eval").body
    # the flush method handed to a function instead of being called: a retry / repeat wrapper re-executes a method that is not
    # idempotent (it advances the batch counter before it writes)
    from ..util import callee_func
    for m_ in (f.call, f.exit):
        for c_ in walk_shallow(m_.node):
            if isinstance(c_, ast.Call) and any(isinstance(a_, ast.Attribute) and norm(a_) == "self." + f.flush.name for a_ in list(c_.args) + [k.value for k in c_.keywords]):
                cf = callee_func(ctx, m_, c_)
                need(cf is not None, "idiom changed: %s.%s is handed to `%s`" % (sower.name, f.flush.name, norm(c_.func)))
                ctx.touch(cf)
                pos = [i for i, a_ in enumerate(c_.args) if norm(a_) == "self." + f.flush.name]
                pname = cf.positional[pos[0]] if pos and pos[0] < len(cf.positional) else None
                need(pname is not None, "idiom changed: how %s receives the flush method" % cf.name)
                calls_p = [x for x in ast.walk(cf.node) if isinstance(x, ast.Call) and isinstance(x.func, ast.Name) and x.func.id == pname]
                in_loop = any(isinstance(p_, (ast.For, ast.While)) for x in calls_p for p_ in _parents_b(x))
                if calls_p and in_loop:
                    f.retry_wrapper = (m_, c_, cf)
                else:
                    raise AnalysisError("idiom changed: %s.%s is called through `%s`" % (sower.name, f.flush.name, cf.name))
    if getattr(f, "retry_wrapper", None):
        f.cut = None
        return f
    # cut test: the test in __call__ whose true branch flushes; in-batch counter: its attribute side
    # (a test delegated to a one-return predicate of the class is read through the predicate)
    for if_ in [x for x in walk_shallow(f.call.node) if isinstance(x, ast.If)]:
        if any(isinstance(x, ast.Call) for x in ast.walk(if_.test)) and not isinstance(if_.test, ast.Compare):
            new_t = inline_helpers(ctx, f.call, if_.test)
            if norm(new_t) != norm(if_.test):
                new_t._parent = if_
                ast.copy_location(new_t, if_.test)
                for x in ast.walk(new_t):
                    if not hasattr(x, "lineno"):
                        x.lineno, x.col_offset, x.end_lineno, x.end_col_offset = if_.test.lineno, if_.test.col_offset, if_.test.end_lineno, if_.test.end_col_offset
                if_.test = new_t
                from .. import cfg as _cfgmod
                _cfgmod._CACHE.pop(id(f.call.node), None)
    gc = build_cfg(f.call.node)
    f.cut = None
    for n in gc.nodes:
        if n.kind == "test" and isinstance(n.ast, ast.Compare) and len(n.ast.ops) == 1:
            tsucc = [b for b, l in gc.succ[n.id] if l == "t"]
            if tsucc and any(callee_name(ctx, f.call, c) == f.flush.qualname for x in (gc.reachable(start=tsucc[0], skip_labels=("exc",)) | {tsucc[0]}) for c in node_calls(gc.nodes[x])):
                f.cut = n
    need(f.cut is not None, "idiom changed: no test in Sower.__call__ whose true branch writes the batch")
    sides = [f.cut.ast.left, f.cut.ast.comparators[0]]
    inb = [x for x in sides if path_key(x) and path_key(x).startswith("self.") and "crop" not in path_key(x)]
    need(len(inb) == 1, "idiom changed: cut test %s" % norm(f.cut.ast))
    f.inbatch = path_key(inb[0])
    f.size_expr = [x for x in sides if x is not inb[0]][0]
    # derived counter: a property returning len(buffer)
    f.inbatch_derived = False
    pm = f.cls.methods.get(f.inbatch.split(".", 1)[1])
    if pm is not None and any(norm(d) == "property" for d in pm.node.decorator_list):
        rets = [r for r in walk_shallow(pm.node) if isinstance(r, ast.Return)]
        if len(rets) == 1 and norm(rets[0].value) == "len(%s)" % f.buffer:
            f.inbatch_derived = True
    return f


def sower_machine_rule(ctx, rid):
    """C07.R1: the Sower's state machine."""
    rr = ctx.rule(rid, "Sower state machine: one append per call, cut, counter before name, resets, final flush, no empty batch", floor=10)
    f = sower_facts(ctx)
    if getattr(f, "retry_wrapper", None):
        m_, c_, cf = f.retry_wrapper
        rr.bad(ctx.finding(rid, m_, c_, "the batch is written through `%s`, which calls the method again when it fails: %s advances the batch counter before it writes, so a write that fails once and is retried is stored under the *next* id -- "
                           "one batch id is skipped (missing_results names a batch that does not exist) and every later batch is shifted" % (norm(c_)[:50], f.flush.name), construct="flush-retried"), "flush once per cut")
        return rr, f
    S = f.cls.qualname
    # ---- __init__ starts from zero / empty
    gi = build_cfg(f.init.node)
    ctx.touch(f.init, gi)
    def _stored_in_helper(fn, path):
        """the attribute is stored by a method of the class that `fn` calls (and that could not be inlined): not a shape to judge"""
        for c_ in ast.walk(fn.node):
            if isinstance(c_, ast.Call) and isinstance(c_.func, ast.Attribute) and isinstance(c_.func.value, ast.Name) and c_.func.value.id == "self":
                m_ = f.cls.find_method(c_.func.attr)
                if m_ is not None and hasattr(m_, "node") and m_ is not fn and any(isinstance(t_, ast.Attribute) and path_key(t_) == path and isinstance(t_.ctx, ast.Store) for t_ in ast.walk(m_.node)):
                    raise AnalysisError("idiom changed: %s.%s leaves the store of %s to its helper `%s`, which has more than plain stores in it" % (S, fn.name, path, m_.name))
    for path, want in ((f.counter, "0"),) + (() if f.inbatch_derived else ((f.inbatch, "0"),)):
        a = _assign_nodes(gi, path)
        if len(a) == 1 and norm(a[0].ast.value) == want:
            rr.ok("%s.__init__: %s = %s" % (S, path, want))
        else:
            if not a:
                _stored_in_helper(f.init, path)
            nd = a[0].ast if a else f.init.node
            rr.bad(ctx.finding(rid, f.init, nd, "%s does not start at %s: batch ids / sizes are shifted (found %s)" % (path, want, [norm(x.ast) for x in a]),
                               construct="init " + path), "init %s" % path)
    a = _assign_nodes(gi, f.buffer)
    if len(a) == 1 and norm(a[0].ast.value) in ("[]", "list()"):
        rr.ok("%s.__init__: %s = []" % (S, f.buffer))
    else:
        if not a:
            _stored_in_helper(f.init, f.buffer)
        rr.bad(ctx.finding(rid, f.init, f.init.node, "%s does not start empty" % f.buffer, construct="init " + f.buffer), "init buffer")

    # ---- flush: increment before name, resets after write, on every path
    g = build_cfg(f.flush.node)
    ctx.touch(f.flush, g)
    incs = _aug_nodes(g, f.counter)
    f.inc_before = None
    if len(incs) != 1 or not isinstance(incs[0].ast.op, ast.Add) or norm(incs[0].ast.value) != "1":
        rr.bad(ctx.finding(rid, f.flush, incs[0].ast if incs else f.flush.node, "the batch counter %s is not incremented by exactly one `+= 1` in %s (found %s): batch ids get gaps or repeats" % (f.counter, f.flush.name, [norm(x.ast) for x in incs]),
                           construct="counter-increment"), "flush increments once")
    else:
        inc = incs[0]
        if not g.completes_before(inc.id, g.exit.id):
            rr.bad(ctx.finding(rid, f.flush, inc.ast, "a path through %s skips the batch counter increment" % f.flush.name, construct="counter-skipped"), "flush increments on all paths")
        elif g.completes_before(inc.id, f.wnode.id):
            f.inc_before = 1
            rr.ok("%s.%s: `%s` completes before the file name is formatted: first id is 1" % (S, f.flush.name, norm(inc.ast)))
        elif g.completes_before(f.wnode.id, inc.id):
            f.inc_before = 0
            rr.bad(ctx.finding(rid, f.flush, inc.ast, "the batch counter is incremented after the batch file is named: ids run 0..B-1 while the Reaper, missing_results and the scripts use 1..B",
                               construct="counter-after-write"), "flush increments before naming")
        else:
            rr.bad(ctx.finding(rid, f.flush, inc.ast, "increment and write are not ordered on every path", construct="counter-unordered"), "flush order")
    if norm(f.counter_expr) != f.counter:
        raise AnalysisError("batch name uses %s, not the bare counter" % norm(f.counter_expr))
    for path, want, why in ((f.buffer, ("[]", "list()"), "the next batch would repeat the settings already written"),) + \
            (() if f.inbatch_derived else ((f.inbatch, ("0",), "the next batch would be cut at the wrong size"),)):
        rs = [n for n in _assign_nodes(g, path) if norm(n.ast.value) in want]
        okr = [n for n in rs if g.completes_before(f.wnode.id, n.id) and g.completes_before(n.id, g.exit.id)]
        if okr:
            rr.ok("%s.%s: %s reset after the write on every path" % (S, f.flush.name, path))
        else:
            if not rs:
                _stored_in_helper(f.flush, path)
            rr.bad(ctx.finding(rid, f.flush, f.flush.node, "%s is not reset after the batch is written on every path: %s" % (path, why), construct="no-reset " + path), "flush resets %s" % path)

    # ---- __call__: exactly one append of the kwargs, one increment, then the cut test
    gc = build_cfg(f.call.node)
    ctx.touch(f.call, gc)
    kw = f.call.node.args.kwarg.arg if f.call.node.args.kwarg else None
    need(kw is not None, "idiom changed: Sower.__call__ takes no **kwargs")
    apps = [(n, c) for n, c, nm in all_calls(ctx, f.call, gc) if nm == "?.append" and path_key(c.func.value) == f.buffer]
    if len(apps) == 1 and len(apps[0][1].args) == 1 and norm(apps[0][1].args[0]) == kw and gc.completes_before(apps[0][0].id, gc.exit.id):
        rr.ok("%s.__call__: exactly one `%s` on every path" % (S, norm(apps[0][1])))
    else:
        rr.bad(ctx.finding(rid, f.call, apps[0][1] if apps else f.call.node, "the settings of a call are not appended to the batch buffer exactly once, unmodified, on every path (found %s): a setting is lost, duplicated or altered"
                           % [norm(c) for _, c in apps], construct="append-once"), "call appends once")
    if f.inbatch_derived:
        rr.ok("%s.__call__: the in-batch count is len(%s), derived from the buffer itself" % (S, f.buffer))
    else:
        incs = _aug_nodes(gc, f.inbatch)
        if len(incs) == 1 and isinstance(incs[0].ast.op, ast.Add) and norm(incs[0].ast.value) == "1" and gc.completes_before(incs[0].id, f.cut.id):
            rr.ok("%s.__call__: `%s` once before the cut test" % (S, norm(incs[0].ast)))
        else:
            rr.bad(ctx.finding(rid, f.call, incs[0].ast if incs else f.call.node, "the in-batch counter %s is not incremented exactly once before the cut test" % f.inbatch, construct="inbatch-increment"), "call counts once")
    # cut size, evaluated exhaustively on a window of (batchsize, remainder, batches written so far)
    from ..util import IntEval
    cmp = f.cut.ast
    if not isinstance(cmp.ops[0], ast.Eq):
        raise AnalysisError("cut test is not an equality: %s" % norm(cmp))
    f.pred_text = None
    f.cut_ok = None
    if f.inc_before is not None:
        def mk(b, r, k):
            sym = {"self.crop.batchsize": b, "self.crop._batch_remainder": r, f.counter: k}

            def on_call(c, ev, st):
                m = None
                if isinstance(c.func, ast.Attribute) and norm(c.func.value) == "self":
                    m = f.cls.methods.get(c.func.attr)
                if m is not None and not c.args and not c.keywords:
                    res = IntEval(sym, on_call).run([x for x in m.node.body])
                    if res[0] == "return":
                        return res[1]
                    raise AnalysisError("Sower helper %s does not return a size" % m.name)
                if isinstance(c.func, ast.Name) and c.func.id == "int" and len(c.args) == 1:
                    return int(bool(ev.ev(c.args[0], st)))
                return NotImplemented
            pre = {}
            # local definitions preceding the test (e.g. extra_batch = ...)
            ev = IntEval(sym, on_call)
            for st_ in f.call.node.body:
                if isinstance(st_, ast.Assign) and len(st_.targets) == 1 and isinstance(st_.targets[0], ast.Name):
                    try:
                        pre[st_.targets[0].id] = ev.ev(st_.value, pre)
                    except AnalysisError:
                        pass
            return ev.ev(f.size_expr, pre)
        bad_pt = None
        for b in (1, 2, 3):
            for r in (0, 1, 2, 3):
                for k in range(0, 5):
                    got = mk(b, r, k)
                    want = b + (1 if (k + f.inc_before) <= r else 0)
                    if got != want and bad_pt is None:
                        bad_pt = (b, r, k, got, want)
        if bad_pt is None:
            f.cut_ok = True
            f.pred_text = "id <= remainder"
            rr.ok("%s.__call__: batch cut at batchsize + [id <= remainder] with id = batches written + %d (evaluated on the window batchsize 1..3 x remainder 0..3 x 0..4 batches written)" % (S, f.inc_before))
        else:
            f.cut_ok = False
            b, r, k, got, want = bad_pt
            rr.bad(ctx.finding(rid, f.call, cmp, "with batchsize=%d, remainder=%d and %d batches already written the current batch (id %d) is cut at %s settings instead of %d: not exactly the first `remainder` batches get one extra setting, so the sizes no longer add up to the number of settings"
                               % (b, r, k, k + f.inc_before, got, want), construct="cut-size"), "cut size")
    tsucc = [b for b, l in gc.succ[f.cut.id] if l == "t"]
    flush_calls = [(n, c) for n, c, nm in all_calls(ctx, f.call, gc) if nm == f.flush.qualname]
    if flush_calls and all(gc.dominates(f.cut.id, n.id) for n, _ in flush_calls) and any(n.id in gc.reachable(start=tsucc[0]) | {tsucc[0]} for n, _ in flush_calls):
        rr.ok("%s.__call__: %s() on the true branch of the cut test, after the append (non-empty buffer)" % (S, f.flush.name))
    else:
        rr.bad(ctx.finding(rid, f.call, cmp, "the flush is not (only) on the true branch of the cut test", construct="flush-not-on-cut"), "cut flushes")

    # ---- __exit__: a non-empty buffer is flushed on the normal path, an empty one is not
    ge = build_cfg(f.exit.node)
    ctx.touch(f.exit, ge)
    exc_param = f.exit.positional[1] if len(f.exit.positional) > 1 else None
    for buf, want in ((TRUTHY, True), (FALSY, False)):
        init = {f.buffer: buf}
        if exc_param:
            init[exc_param] = NONE
        fl = Flow(ge, init).run()
        fc = [(n, c) for n, c, nm in all_calls(ctx, f.exit, ge) if nm == f.flush.qualname and n.id in fl.visited]
        reached = bool(fc) and all(ge.completes_before(n.id, ge.exit.id, feasible=fl.feasible) for n, _ in fc)
        if want and not reached:
            rr.bad(ctx.finding(rid, f.exit, f.exit.node, "a partly filled last batch is not written when the sowing context exits normally: the last settings are never sown",
                               construct="exit-no-flush"), "exit flushes remainder")
        elif (not want) and fc:
            rr.bad(ctx.finding(rid, f.exit, fc[0][1], "an empty batch file can be written on exit (batch without settings, spurious id)", construct="exit-empty-batch"), "exit no empty batch")
        else:
            rr.ok("%s.__exit__: buffer %s -> %s" % (S, "non-empty" if want else "empty", "flushed" if want else "nothing written"))
    return rr, f


def _norm_pred(forms, id_sym, r_sym):
    """forms (>=0) -> k such that the predicate is  id <= r + k ; else None."""
    if len(forms) != 1:
        return None
    F = forms[0]
    if set(F.c) == {id_sym, r_sym} and F.c[r_sym] == 1 and F.c[id_sym] == -1:
        return F.k
    return None


def sower_extra_predicate(ctx, f):
    """-> (k, text): Sower gives the extra setting to ids with id <= r + k
    (k = 0 when the exhaustive cut-size evaluation of C07.R1 succeeded)."""
    if getattr(f, "cut_ok", None) is True:
        return 0, "id <= remainder (window-evaluated)"
    return None, None


def extra_predicate_rule(ctx, rid, f, with_reaper):
    """C07.R2 (Sower alone) / C09.R1 (Reaper must agree with the Sower)."""
    rr = ctx.rule(rid, "who gets the extra setting: Sower normal form id <= remainder" + (" and the Reaper's placeholder size agrees" if with_reaper else ""), floor=2 if with_reaper else 1)
    ks, txt = sower_extra_predicate(ctx, f)
    if ks is None:
        if getattr(f, "cut_ok", None) is False:
            rr.bad(ctx.finding(rid, f.call, f.cut.ast, "the Sower does not give the extra setting to exactly the first `remainder` batches (see the cut-size evaluation)", construct="sower-extra-predicate"), "sower predicate")
            return rr
        raise AnalysisError("Sower extra-batch predicate could not be evaluated")
    if ks != 0:
        rr.bad(ctx.finding(rid, f.call, f.cut.ast, "the Sower gives the extra setting to batches with id <= remainder%+d (from `%s`), not to exactly the first `remainder` batches: the sizes no longer add up to the number of settings" % (ks, txt),
                           construct="sower-extra-predicate"), "sower predicate")
    else:
        rr.ok("Sower: `%s` with id = counter + %d  ==>  extra iff id <= remainder" % (txt, f.inc_before))
    if not with_reaper:
        return rr
    prog = ctx.prog
    from .shared import reaper_loaders
    ld, _wl, init = reaper_loaders(ctx)
    g = build_cfg(ld.node)
    ctx.touch(ld, g)
    # placeholder: (default,) * size
    sizes = []
    for n in walk_shallow(ld.node):
        if isinstance(n, ast.BinOp) and isinstance(n.op, ast.Mult) and isinstance(n.left, ast.Tuple) and len(n.left.elts) == 1:
            sizes.append(n)
    if not sizes:
        # the stand-in may be built in a helper of the loader (a method of the Reaper or a sibling closure)
        from ..util import callee_func
        for _, c_, _nm in all_calls(ctx, ld):
            h_ = callee_func(ctx, ld, c_)
            if h_ is not None and h_ is not ld and (h_.cls is ld.cls and ld.cls is not None or h_.parent is ld.parent and ld.parent is not None):
                hs_ = [n for n in walk_shallow(h_.node) if isinstance(n, ast.BinOp) and isinstance(n.op, ast.Mult) and isinstance(n.left, ast.Tuple) and len(n.left.elts) == 1]
                if len(hs_) == 1:
                    sizes = hs_
                    ld = h_
                    ctx.touch(h_)
                    break
    need(len(sizes) == 1, "idiom changed: placeholder tuple `(default,) * size` not found in _load")
    sub = lambda nm: (single_def(ld, nm) or (None, None))[1]
    size_e = sizes[0].right

    id_names = set()

    def sub2(nm):
        d = single_def(ld, nm)
        if d is None:
            return None
        txt = norm(d[1])
        if "RSLT_NM.format(" in txt and ("re.findall" in txt or "re.search" in txt or "re.match" in txt or "re.fullmatch" in txt) and txt.startswith("int("):
            id_names.add(nm)
            return sym("id")
        return d[1]
    # idiom B: the length is read from the sown batch file of the same id
    se = size_e
    dsz = single_def(ld, se.id) if isinstance(se, ast.Name) else None
    se_x = dsz[1] if dsz else se
    if isinstance(se_x, ast.Call) and isinstance(se_x.func, ast.Name) and se_x.func.id == "len" and len(se_x.args) == 1:
        inner = se_x.args[0]
        d_in = single_def(ld, inner.id) if isinstance(inner, ast.Name) else None
        inner_x = d_in[1] if d_in else inner
        # names feeding the loaded path, following single local definitions
        def _inline_helpers(e0):
            """calls of one-return module-level helpers replaced by their returned expression (actuals substituted)"""
            from ..util import callee_func
            class Inl(ast.NodeTransformer):
                def visit_Call(self_, node):
                    self_.generic_visit(node)
                    cf = callee_func(ctx, ld, node)
                    if cf is not None and cf.cls is None and cf.module is ld.module and not node.keywords:
                        rets = [r for r in walk_shallow(cf.node) if isinstance(r, ast.Return) and r.value is not None]
                        body_ = [b for b in cf.node.body if not (isinstance(b, ast.Expr) and isinstance(b.value, ast.Constant))]
                        if len(rets) == 1 and len(node.args) == len(cf.positional) and len(body_) == 1 and body_[0] is rets[0]:
                            m = dict(zip(cf.positional, node.args))
                            class Sub(ast.NodeTransformer):
                                def visit_Name(s2, nn):
                                    return m.get(nn.id, nn)
                            return Sub().visit(ast.parse(ast.unparse(rets[0].value), mode="eval").body)
                    return node
            return Inl().visit(ast.parse(ast.unparse(e0), mode="eval").body)
        inner_x = _inline_helpers(inner_x)
        reach, todo, texts = set(), [inner_x], [norm(inner_x)]
        while todo:
            ex = todo.pop()
            for nmx in names_in(ex):
                if nmx in reach:
                    continue
                reach.add(nmx)
                dd = single_def(ld, nmx)
                if dd:
                    dv_ = _inline_helpers(dd[1])
                    todo.append(dv_)
                    texts.append(norm(dv_))
        path_txt = " ".join(texts)
        if "read_from_disk(" in path_txt and "'batches'" in path_txt and "BTCH_NM.format(" in path_txt:
            def is_id(nmx):
                dd = single_def(ld, nmx)
                if not dd:
                    return False
                txt = norm(dd[1])
                for nm2 in names_in(dd[1]):          # a pattern pre-compiled at module level
                    cst = ld.module.consts.get(nm2)
                    if cst is not None:
                        txt += " " + norm(cst)
                return "RSLT_NM.format(" in txt and "re." in txt
            fmt_args = []
            for t in texts:
                for x in ast.walk(ast.parse(t, mode="eval")):
                    if isinstance(x, ast.Call) and isinstance(x.func, ast.Attribute) and x.func.attr == "format" and norm(x.func.value) == "BTCH_NM":
                        fmt_args += [norm(a) for a in x.args]
            if fmt_args and all(is_id(a) for a in fmt_args):
                rr.ok("Reaper: placeholder length = len() of the sown batch file with the id parsed from the result name (exact for every batch, including a short last one)")
                return rr
            rr.bad(ctx.finding(rid, ld, size_e, "the placeholder length is read from a batch file whose id (%s) is not the one parsed from the missing result's name" % fmt_args, construct="placeholder-batch-id"), "reaper size")
            return rr
    if "read_from_disk(" in norm(size_e) or any("read_from_disk(" in norm(v_) for nm_ in names_in(size_e) for _, v_ in assignments_to(ld, nm_) if v_ is not None):
        raise AnalysisError("idiom changed: the placeholder length is read from a file whose path is not recognised as the sown batch of the missing result (`%s`)" % norm(size_e)[:70])
    try:
        L = lin(size_e, subst=sub2, rename=last_attr)
    except NotAffine as e:
        raise AnalysisError("placeholder size not linear: %s" % e)
    inds = [s for s in L.c if s.startswith("[")]
    rest = Lin({s: v for s, v in L.c.items() if not s.startswith("[")}, L.k)
    if rest != sym("batchsize") or len(inds) != 1:
        rr.bad(ctx.finding(rid, ld, size_e, "the placeholder for a missing batch has %s entries instead of batchsize + [extra]: the reaped stream is shifted" % L, construct="placeholder-size " + repr(L)), "reaper size")
        return rr
    ptxt = inds[0][1:-1]
    forms = predicate(ast.parse(ptxt, mode="eval").body, subst=sub2, rename=last_attr)
    rs = [s for F in forms for s in F.c if "remainder" in s]
    need(rs, "Reaper predicate does not mention the remainder: %s" % ptxt)
    kr = _norm_pred(forms, "id", rs[0])
    if not id_names:
        raise AnalysisError("idiom changed: the Reaper's batch id is not parsed from the result name with the RSLT_NM template")
    if kr is None:
        raise AnalysisError("Reaper predicate not in a recognised form: %s" % ptxt)
    # the formula assumes every batch is full; with a requested batch *size* the last batch is short whenever it does not divide N
    crop = prog.need_cls(CROP + ".Crop")
    cbs = crop.methods.get("choose_batch_settings")
    size_mode = cbs is not None and any(isinstance(x, ast.Call) and "ceil" in norm(x.func) for x in ast.walk(cbs.node))
    if size_mode:
        rr.bad(ctx.finding(rid, ld, size_e, "the Reaper sizes the placeholder of a missing batch by the formula batchsize + [extra] (`%s`), but with a requested batch *size* that does not divide the number of settings the Sower's last batch is shorter than batchsize (flushed on exit): a partial reap with that last batch missing gets a placeholder that is too long and fails with 'Not all results reaped!' (e.g. 5 settings, batchsize=2, batch 3 missing)"
                           % norm(size_e), construct="placeholder-size-formula-short-last-batch"), "reaper size exact for a short last batch")
    if kr != ks:
        rr.bad(ctx.finding(rid, ld, size_e, "the Reaper sizes a missing batch with `%s` (extra iff id <= remainder%+d) but the Sower wrote the extra setting into batches with id <= remainder%+d: a partial reap with the boundary batch missing gets a placeholder of the wrong length" % (ptxt, kr, ks),
                           construct="reaper-extra-predicate"), "reaper predicate equals sower's")
    else:
        rr.ok("Reaper: `%s` with id parsed from the result name ==> extra iff id <= remainder%+d, same as the Sower" % (ptxt, kr))
    return rr


# ------------------------------------------------------------------ formulas
class _HelperRaise(Exception):
    pass


def formulas_rule(ctx, rid):
    """C07.R3: choose_batch_settings computes the documented numbers.  The
    function is a pure integer function of (batchsize, num_batches, remainder,
    n_cases, n_combos); its syntax tree is evaluated exhaustively on a finite
    window of those inputs and the resulting state compared with the
    specification (ceil(n/s); min(k, n) then divmod; the consistency window)."""
    import math as _math
    from ..util import IntEval
    rr = ctx.rule(rid, "batch formulas: n = cases x prod(values); size mode ceil(n/s), remainder 0; count mode min(k, n) then divmod; consistency window when both are given", floor=3)
    prog = ctx.prog
    crop = prog.need_cls(CROP + ".Crop")
    f = crop.methods.get("choose_batch_settings")
    need(f is not None, "anchor lost: Crop.choose_batch_settings")
    ctx.touch(f)
    body = [x for x in f.node.body]

    def evaluate(bs, nb, rem, nk, nc, with_combos=True, with_cases=True):
        sym = {"self.batchsize": bs, "self.num_batches": nb, "self._batch_remainder": rem,
               "combos": with_combos, "cases": with_cases}

        def on_call(c, ev, st):
            fn = norm(c.func)
            if fn in ("prod", "math.prod", "np.prod"):
                return nc
            if fn == "len" and c.args and norm(c.args[0]) == "cases":
                return nk
            if fn == "isinstance" and len(c.args) == 2:
                v = ev.ev(c.args[0], st)
                return isinstance(v, int) and not isinstance(v, bool) if norm(c.args[1]) == "int" else NotImplemented
            if fn in ("math.ceil", "ceil"):
                return _math.ceil(ev.ev(c.args[0], st))
            if fn == "divmod":
                return divmod(ev.ev(c.args[0], st), ev.ev(c.args[1], st))
            if isinstance(c.func, ast.Attribute) and norm(c.func.value) == "self" and c.func.attr in crop.methods and c.func.attr != f.name:
                # a private helper of the crop: interpreted in place, on the same state
                hm = crop.methods[c.func.attr]
                ctx.touch(hm)
                local = dict(st)
                params = [p_ for p_ in hm.positional if p_ != "self"]
                for pn, a_ in zip(params, c.args):
                    local[pn] = ev.ev(a_, st)
                for k_ in c.keywords:
                    if k_.arg:
                        local[k_.arg] = ev.ev(k_.value, st)
                for pn, dv in hm.defaults().items():
                    if pn not in local:
                        local[pn] = ev.ev(dv, st)
                sub = IntEval(sym, on_call)
                hb = [b_ for b_ in hm.node.body if not (isinstance(b_, ast.Expr) and isinstance(b_.value, ast.Constant))]
                r_ = sub.run(hb, local)
                if r_[0] == "raise":
                    raise _HelperRaise()
                after = r_[1] if r_[0] == "fall" else getattr(sub, "_last_state", {})
                for k2, v2 in after.items():
                    if k2.startswith("self."):
                        st[k2] = v2
                return r_[1] if r_[0] == "return" else None
            if fn in ("print", "warnings.warn"):
                return None
            return NotImplemented
        ev = IntEval(sym, on_call)
        try:
            res = ev.run(body)
        except ZeroDivisionError:
            return ("raise", None)
        except _HelperRaise:
            return ("raise", None)
        if res[0] == "raise":
            return res
        st = res[1] if res[0] == "fall" else {}
        if res[0] == "return":
            # state at return is not exposed by IntEval.run: re-run capturing
            st = ev._last_state if hasattr(ev, "_last_state") else {}
        out = dict(sym)
        out.update({k: v for k, v in st.items() if k.startswith("self.")})
        return ("ok", out)
    # IntEval.run returns ('return', value) without the state; patch: wrap returns as fall-through by evaluating a copy with `return` -> end
    class _Ret(Exception):
        pass
    problems = {}
    n_eval = 0
    for nk in (1, 2, 3):
        for nc in (1, 2, 4):
            n = nk * nc
            # size mode
            for bs in (None, 1, 2, 3, 5, 0):
                n_eval += 1
                r = evaluate(bs, None, None, nk, nc)
                if bs == 0:
                    if r[0] != "raise":
                        problems.setdefault("size-validate", "batchsize=0 is accepted (n=%d)" % n)
                    continue
                eff = 1 if bs is None else bs
                if r[0] != "ok":
                    problems.setdefault("size-mode", "batchsize=%s, n=%d: raises" % (bs, n))
                    continue
                o = r[1]
                if (o["self.batchsize"], o["self.num_batches"], o["self._batch_remainder"]) != (eff, -(-n // eff), 0):
                    problems.setdefault("size-mode", "batchsize=%s, n=%d gives (batchsize, num_batches, remainder) = (%s, %s, %s); expected (%d, %d, 0) = ceil(n / batchsize)"
                                        % (bs, n, o["self.batchsize"], o["self.num_batches"], o["self._batch_remainder"], eff, -(-n // eff)))
            # count mode
            for k in (1, 2, 3, 5, 9, 0):
                n_eval += 1
                r = evaluate(None, k, None, nk, nc)
                if k == 0:
                    if r[0] != "raise":
                        problems.setdefault("count-validate", "num_batches=0 is accepted (n=%d)" % n)
                    continue
                if r[0] != "ok":
                    problems.setdefault("count-mode", "num_batches=%d, n=%d: raises" % (k, n))
                    continue
                o = r[1]
                B = min(k, n)
                want = (n // B, B, n % B)
                got = (o["self.batchsize"], o["self.num_batches"], o["self._batch_remainder"])
                if got != want:
                    problems.setdefault("count-mode", "num_batches=%d, n=%d gives (batchsize, num_batches, remainder) = %s; expected %s = (n // B, B = min(k, n), n %% B): the stored numbers do not describe the batches that are written" % (k, n, got, want))
            # both given (re-sow of an already sown crop)
            for bs in (1, 2, 3):
                for nb in (1, 2, 3, 4):
                    for rem in (None, 0, 1):
                        n_eval += 1
                        r = evaluate(bs, nb, rem, nk, nc)
                        tot = bs * nb + (rem or 0)
                        accept = (n <= tot < n + bs)
                        if accept and r[0] != "ok":
                            problems.setdefault("window", "stored batchsize=%d, num_batches=%d, remainder=%s is refused for n=%d although n <= %d < n + batchsize" % (bs, nb, rem, n, tot))
                        elif (not accept) and r[0] == "ok":
                            problems.setdefault("window", "stored batchsize=%d, num_batches=%d, remainder=%s is accepted for n=%d although not (n <= %d < n + batchsize): the stored numbers do not cover the new settings exactly" % (bs, nb, rem, n, tot))
                        elif accept and r[0] == "ok":
                            o = r[1]
                            if (o["self.batchsize"], o["self.num_batches"], o["self._batch_remainder"]) != (bs, nb, rem):
                                problems.setdefault("window-state", "the consistency check changes the stored numbers")
    # n itself: combos / cases absent -> factor 1
    r1 = evaluate(None, None, None, 3, 4, with_combos=False, with_cases=True)
    r2 = evaluate(None, None, None, 3, 4, with_combos=True, with_cases=False)
    r3 = evaluate(None, None, None, 3, 4, with_combos=True, with_cases=True)
    if not (r1[0] == r2[0] == r3[0] == "ok" and (r1[1]["self.num_batches"], r2[1]["self.num_batches"], r3[1]["self.num_batches"]) == (3, 4, 12)):
        problems.setdefault("n", "the number of settings is not n_cases x prod(len(values)) with neutral element 1 (got batches %s for (3 cases, no combos), (no cases, 4 combos), (3 x 4))"
                            % ([x[1]["self.num_batches"] if x[0] == "ok" else "raise" for x in (r1, r2, r3)],))
    for kind, msg in problems.items():
        rr.bad(ctx.finding(rid, f, f.node, "choose_batch_settings: " + msg, construct="formula " + kind), "formula " + kind)
    if not problems:
        rr.ok("size mode: (batchsize or 1, ceil(n / batchsize), 0); batchsize < 1 refused -- evaluated on the window")
        rr.ok("count mode: B = min(k, n), (n // B, B, n % B); k < 1 refused -- evaluated on the window")
        rr.ok("both given: accepted iff n <= batchsize * num_batches (+ remainder) < n + batchsize, numbers unchanged -- evaluated on the window")
        rr.ok("n = n_cases x prod(len(values)), absent factors count 1")
    ctx.extra["formula_evaluations"] = n_eval
    return rr


def reaper_files_expr(ctx, init):
    """The iterable of result-file names the Reaper maps its loader over, by role: the second argument of the `map(<loader>, X)`
    that feeds self.results (a local of any name, or an expression)."""
    for c in ast.walk(init.node):
        if isinstance(c, ast.Call) and isinstance(c.func, ast.Name) and c.func.id == "map" and len(c.args) == 2:
            x = c.args[1]
            if isinstance(x, ast.Name):
                d = single_def(init, x.id)
                if d is not None and d[1] is not None:
                    return d[1]
            elif not (isinstance(x, ast.Call) and norm(x.func) == "range"):
                return x
    d = single_def(init, "files")
    return d[1] if d is not None else None


def inline_helpers(ctx, fi, e, depth=0):
    """`e` with every call of a one-return function of the package (module level, closure, or a method reached through
    self / an attribute of self) replaced by the returned expression, actuals substituted for the parameters.  Calls that
    do not resolve, or helpers of another shape, are left as they are."""
    from ..util import callee_func
    if depth > 2:
        return e

    class copy:       # a structural copy that does not follow the loader's parent links
        @staticmethod
        def deepcopy(n):
            return ast.parse(ast.unparse(n), mode="eval").body

    class Sub(ast.NodeTransformer):
        def __init__(self, m):
            self.m = m

        def visit_Name(self, n):
            if isinstance(n.ctx, ast.Load) and n.id in self.m:
                return copy.deepcopy(self.m[n.id])
            return n

    class Inl(ast.NodeTransformer):
        def visit_Call(self, c):
            self.generic_visit(c)
            try:
                h = callee_func(ctx, fi, c)
            except Exception:
                h = None
            if h is None or not hasattr(h, "node") or isinstance(h.node, ast.Lambda) or h is fi:
                return c
            body = [b for b in h.node.body if not (isinstance(b, ast.Expr) and isinstance(b.value, ast.Constant))]
            # straight-line prologue of single assignments to fresh local names, folded into the returned expression
            pre = {}
            while len(body) > 1 and isinstance(body[0], ast.Assign) and len(body[0].targets) == 1 and isinstance(body[0].targets[0], ast.Name) \
                    and body[0].targets[0].id not in pre and body[0].targets[0].id not in h.params:
                pre[body[0].targets[0].id] = Sub(pre).visit(copy.deepcopy(body[0].value))
                body = body[1:]
            if len(body) != 1 or not isinstance(body[0], ast.Return) or body[0].value is None:
                return c
            if pre:
                body = [ast.Return(value=Sub(pre).visit(copy.deepcopy(body[0].value)))]
            if any(isinstance(a, ast.Starred) for a in c.args) or any(k.arg is None for k in c.keywords) or h.node.args.vararg or h.node.args.kwarg:
                return c
            pars = list(h.positional)
            m = {}
            if h.cls is not None and pars and pars[0] == "self":
                if not isinstance(c.func, ast.Attribute):
                    return c
                m["self"] = c.func.value
                pars = pars[1:]
            if len(c.args) > len(pars):
                return c
            for p_, a_ in zip(pars, c.args):
                m[p_] = a_
            for k in c.keywords:
                if k.arg in m or k.arg not in h.params:
                    return c
                m[k.arg] = k.value
            dfl = h.defaults()
            for p_ in pars + list(h.kwonly):
                if p_ not in m:
                    if p_ not in dfl:
                        return c
                    m[p_] = dfl[p_]
            # free names of the helper other than its parameters must mean the same at the call site: module-level names only
            free = {x.id for x in ast.walk(body[0].value) if isinstance(x, ast.Name)} - set(m)
            if h.parent is not None and any(f_ in h.parent.params or f_ in {t.id for a in ast.walk(h.parent.node) if isinstance(a, ast.Assign) for t in a.targets if isinstance(t, ast.Name)} for f_ in free) and h.parent is not fi and h.parent is not fi.parent:
                return c
            ctx.touch(h)
            out = Sub(m).visit(copy.deepcopy(body[0].value))
            return inline_helpers(ctx, h, out, depth + 1) if depth < 2 else out
    out = Inl().visit(copy.deepcopy(e))
    ast.fix_missing_locations(out)
    for n in ast.walk(out):
        for ch in ast.iter_child_nodes(n):
            ch._parent = n
    return out


def as_comprehension(ctx, fi, e):
    """`map(f, it)` with f a one-return function / method of one argument, rewritten as `(<return expr> for <param> in it)`;
    one-return helpers called in the element are inlined"""
    return inline_helpers(ctx, fi, _as_comprehension(ctx, fi, e))


def _as_comprehension(ctx, fi, e):
    if isinstance(e, ast.Call) and isinstance(e.func, ast.Name) and e.func.id == "map" and len(e.args) == 2 and not e.keywords:
        fe = e.args[0]
        target = None
        if isinstance(fe, ast.Attribute) and isinstance(fe.value, ast.Name) and fe.value.id == "self" and fi.cls is not None:
            target = fi.cls.methods.get(fe.attr)
        elif isinstance(fe, ast.Name):
            target = fi.nested.get(fe.id) or ctx.prog.func("%s.%s" % (fi.module.name, fe.id))
        if target is not None:
            ps = [p_ for p_ in target.positional if p_ != "self"]
            body = [b for b in target.node.body if not (isinstance(b, ast.Expr) and isinstance(b.value, ast.Constant))]
            if len(ps) == 1 and len(body) == 1 and isinstance(body[0], ast.Return) and body[0].value is not None:
                ctx.touch(target)
                src = "(%s for %s in %s)" % (ast.unparse(body[0].value), ps[0], ast.unparse(e.args[1]))
                return ast.parse(src, mode="eval").body
    return e


# ------------------------------------------------------------------ id universe
def id_universe_rule(ctx, rid, f=None):
    """C04.R4: Sower ids 1..B; the Reaper and missing_results enumerate
    [1, num_batches] ascending."""
    rr = ctx.rule(rid, "batch id universe: Reaper and missing_results range over [1, num_batches] ascending", floor=2)
    prog = ctx.prog
    init = prog.need_func(CROP + ".Reaper.__init__")
    fx = reaper_files_expr(ctx, init)
    need(fx is not None, "anchor lost: Reaper files")
    ge = as_comprehension(ctx, init, fx)
    need(isinstance(ge, (ast.GeneratorExp, ast.ListComp)) and len(ge.generators) == 1, "idiom changed: Reaper files is not a single-for comprehension")
    gen = ge.generators[0]
    if gen.ifs:
        rr.bad(ctx.finding(rid, init, ge, "the Reaper's file list is filtered: batches are skipped", construct="reaper-files-filter"), "reaper range")
    fmt = [x for x in ast.walk(ge.elt) if isinstance(x, ast.Call) and isinstance(x.func, ast.Attribute) and x.func.attr == "format" and norm(x.func.value) == "RSLT_NM"]
    need(len(fmt) == 1 and isinstance(gen.target, ast.Name), "idiom changed: Reaper file name")
    var = gen.target.id
    try:
        lo, hi = range_bounds(gen.iter, rename=last_attr)
        e = lin(fmt[0].args[0], rename=last_attr)
    except NotAffine as ex:
        if "range" not in norm(gen.iter):
            rr.bad(ctx.finding(rid, init, gen.iter, "the Reaper does not enumerate result files by ascending id: iterates %s" % norm(gen.iter), construct="reaper-iter"), "reaper range")
            return rr
        raise AnalysisError("Reaper id range not linear: %s" % ex)
    if e.c.get(var) != 1:
        rr.bad(ctx.finding(rid, init, fmt[0], "result id is not the loop variable plus a constant: %s" % e, construct="reaper-id"), "reaper range")
    else:
        off = e - sym(var)
        first, last = lo + off, hi + off
        if first == Lin({}, 1) and last == sym("num_batches"):
            rr.ok("Reaper reads ids [%s .. %s] ascending (range, no filter)" % (first, last))
        else:
            rr.bad(ctx.finding(rid, init, ge, "the Reaper reads result ids [%s .. %s] instead of [1 .. num_batches]: a batch is skipped or a non-existent one is expected" % (first, last),
                               construct="reaper-id-range"), "reaper range")
    crop = prog.need_cls(CROP + ".Crop")
    mr = crop.methods.get("missing_results")
    need(mr is not None, "anchor lost: Crop.missing_results")
    rngs = [c for c in walk_shallow(mr.node) if isinstance(c, ast.Call) and isinstance(c.func, ast.Name) and c.func.id == "range"]
    if len(rngs) == 1:
        lo, hi = range_bounds(rngs[0], rename=last_attr)
        if lo == Lin({}, 1) and hi == sym("num_batches"):
            rr.ok("missing_results ranges over [1 .. num_batches]")
        else:
            rr.bad(ctx.finding(rid, mr, rngs[0], "missing_results ranges over [%s .. %s] instead of [1 .. num_batches]" % (lo, hi), construct="missing-range"), "missing range")
    else:
        rr.note("missing_results does not use a range(); covered by the listing rule")
        rr.ok("missing_results: no range() idiom")
    # polarity: an id is reported missing exactly when its result file is absent
    tests_ = [c for c in ast.walk(mr.node) if isinstance(c, ast.Call) and norm(c.func) in ("os.path.isfile", "os.path.exists")]
    if len(tests_) == 1:
        c = tests_[0]
        neg = 0
        p_ = getattr(c, "_parent", None)
        while isinstance(p_, ast.UnaryOp) and isinstance(p_.op, ast.Not):
            neg += 1
            p_ = getattr(p_, "_parent", None)
        keep_absent = None
        if isinstance(p_, ast.Return):                       # predicate handed to filter(): kept when truthy
            fl_ = [x for x in ast.walk(mr.node) if isinstance(x, ast.Call) and norm(x.func) in ("filter", "itertools.filterfalse", "filterfalse")]
            if len(fl_) == 1:
                keep_absent = (neg % 2 == 1) if norm(fl_[0].func) == "filter" else (neg % 2 == 0)
        elif isinstance(p_, ast.If) and any(isinstance(x, ast.Call) and isinstance(x.func, ast.Attribute) and x.func.attr == "append" for b_ in p_.body for x in ast.walk(b_)):
            keep_absent = neg % 2 == 1
        elif isinstance(p_, ast.comprehension):
            keep_absent = neg % 2 == 1
        if keep_absent is True:
            rr.ok("missing_results keeps an id exactly when its result file is absent")
        elif keep_absent is False:
            rr.bad(ctx.finding(rid, mr, c, "missing_results reports the batches whose result file *exists* (the absence test lost / gained a negation): finished batches are grown again and missing ones never", construct="missing-polarity"), "missing polarity")
        else:
            raise AnalysisError("idiom changed: how missing_results uses `%s`" % norm(c)[:60])
    elif not tests_ and any(isinstance(c, ast.Call) and norm(c.func) in ("os.listdir", "os.scandir", "glob.glob", "glob") for c in ast.walk(mr.node)):
        # listing shape: ids found in one directory listing, missing = the ids of the range that are NOT among them
        mem = [x for x in ast.walk(mr.node) if isinstance(x, ast.Compare) and len(x.ops) == 1 and isinstance(x.ops[0], (ast.In, ast.NotIn)) and isinstance(getattr(x, "_parent", None), (ast.comprehension, ast.If))]
        if len(mem) == 1:
            if isinstance(mem[0].ops[0], ast.NotIn):
                rr.ok("missing_results (listing shape) keeps an id exactly when it is not among the listed results")
            else:
                rr.bad(ctx.finding(rid, mr, mem[0], "missing_results reports the batches whose result *is* listed: finished batches are grown again and missing ones never", construct="missing-polarity"), "missing polarity")
        else:
            raise AnalysisError("idiom changed: membership test of the listing-shaped missing_results (%d found)" % len(mem))
    else:
        raise AnalysisError("idiom changed: result-file test in missing_results (%d found)" % len(tests_))
    return rr


# ------------------------------------------------------------------ missing_results looks at the files in every call
def missing_fresh_rule(ctx, rid, only_if_reaper_uses=False):
    """Every call of Crop.missing_results looks at the result files: on each path to a return the enumeration of batch
    ids against the file system is passed.  A path that returns a remembered answer, guarded by in-memory state only
    (counts, attributes), is reported: the set of finished batches can change while every count stays the same
    (delete_all / re-sow / another batch grown).  A guard that itself consults the file system is exit 2."""
    from ..cfg import build_cfg
    rr = ctx.rule(rid, "missing_results consults the result files in every call (no answer remembered from an earlier call)", floor=1)
    prog = ctx.prog
    crop = prog.need_cls(CROP + ".Crop")
    mr = crop.methods.get("missing_results")
    need(mr is not None, "anchor lost: Crop.missing_results")
    if only_if_reaper_uses:
        init = prog.need_func(CROP + ".Reaper.__init__")
        uses = any(isinstance(c, ast.Call) and isinstance(c.func, ast.Attribute) and c.func.attr == "missing_results" for c in ast.walk(init.node))
        if not uses:
            rr.ok("not applicable on this tree: the Reaper tests each result file itself and does not ask missing_results")
            return rr
    g = build_cfg(mr.node)
    ctx.touch(mr, g)
    FS = ("os.path.isfile", "os.path.exists", "os.listdir", "os.scandir", "glob.glob", "glob", "glob.iglob")

    def looks(n):
        if n.kind not in ("stmt", "test", "for") or isinstance(n.ast, (ast.FunctionDef, ast.ClassDef)):
            return False
        # a `for` header stands for its iterable only (the body has nodes of its own)
        for x in (ast.walk(n.ast.iter) if n.kind == "for" else ast.walk(n.ast)):
            if isinstance(x, ast.Call) and (norm(x.func) in FS or (isinstance(x.func, ast.Name) and x.func.id in ("range", "filter"))):
                return True
        return False
    look = {n.id for n in g.nodes if looks(n)}
    need(look, "idiom changed: missing_results has no statement that enumerates the batch ids against the files")
    rets = [n for n in g.nodes if n.kind == "stmt" and isinstance(n.ast, ast.Return)]
    need(rets, "idiom changed: missing_results has no return")
    free = g.reachable(blocked_nodes=look)
    by = [r for r in rets if r.id in free and r.id not in look]
    if not by:
        rr.ok("every path to a return of missing_results passes the look at the files (%d statement(s))" % len(look))
        return rr
    tests = [t for t in g.nodes if t.kind == "test" and t.id in free and any(l_ in g.reachable(start=t.id) for l_ in look)]
    txts = []
    for t in tests:
        tx = norm(t.ast)
        seen_ = set()
        todo_ = [x.id for x in ast.walk(t.ast) if isinstance(x, ast.Name)]
        while todo_:
            nm_ = todo_.pop()
            if nm_ in seen_:
                continue
            seen_.add(nm_)
            for _, v_ in assignments_to(mr, nm_):
                if v_ is not None:
                    tx += " <- " + norm(v_)
                    todo_ += [x.id for x in ast.walk(v_) if isinstance(x, ast.Name)]
        txts.append(tx)
    if tests and not any(k in tx for tx in txts for k in ("os.", "glob", "stat(", "getmtime", "listdir", "scandir")):
        rr.bad(ctx.finding(rid, mr, by[0].ast, "missing_results returns `%s` on a path that does not look at the result files, decided by in-memory state only (`%s`): the set of finished batches can change while the counts stay the same (delete_all / re-sow / grow another batch), and the earlier answer is then given -- finished batches reported missing and missing ones finished" % (
            norm(by[0].ast.value)[:50] if by[0].ast.value is not None else "None", "; ".join(txts)[:120]), construct="missing-remembered"), "fresh look")
    else:
        raise AnalysisError("idiom changed: missing_results can return without looking at the result files (guards: %s); whether the remembered answer is still valid there is not analysed" % "; ".join(txts)[:160])
    return rr
