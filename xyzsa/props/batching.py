"""Rules about how the stream of settings is cut into batches (C07), how the
Reaper sizes placeholders for them (C09), and which batch ids exist (C04,
C08, C16).  Subjects are found by role, not by attribute name."""
import ast

from ..loader import AnalysisError, norm, walk_shallow
from ..cfg import build_cfg, node_calls, walk_expr
from ..flow import path_key, Flow, TOP, NONE, TRUTHY, FALSY
from ..affine import Lin, lin, sym, predicate, constraints, range_bounds, NotAffine
from ..util import callee_name, all_calls, arg, need, names_in, single_def, assignments_to
from .shared import CROP, templates

WRITER = CROP + ".write_to_disk"


def last_attr(path):
    return path.rsplit(".", 1)[-1]


class SowerFacts:
    pass


def _aug_nodes(g, path):
    return [n for n in g.nodes if n.kind == "stmt" and isinstance(n.ast, ast.AugAssign) and path_key(n.ast.target) == path]


def _assign_nodes(g, path):
    out = []
    for n in g.nodes:
        if n.kind == "stmt" and isinstance(n.ast, ast.Assign):
            for t in n.ast.targets:
                if path_key(t) == path:
                    out.append(n)
                elif isinstance(t, (ast.Tuple, ast.List)) and any(path_key(x) == path for x in t.elts):
                    out.append(n)
    return out


def sower_facts(ctx):
    """Locate, by role, the Sower's flush method, its buffer, batch counter and
    in-batch counter."""
    prog = ctx.prog
    sower = prog.need_cls(CROP + ".Sower")
    f = SowerFacts()
    f.cls = sower
    f.call = sower.methods.get("__call__")
    f.exit = sower.methods.get("__exit__")
    f.init = sower.methods.get("__init__")
    need(f.call and f.exit and f.init, "anchor lost: Sower.__call__/__exit__/__init__")
    flushers = [m for m in sower.methods.values() if any(nm == WRITER for _, _, nm in all_calls(ctx, m))]
    need(len(flushers) == 1, "anchor lost: expected exactly one Sower method calling the crop-file writer, found %d" % len(flushers))
    f.flush = flushers[0]
    g = build_cfg(f.flush.node)
    wcalls = [(n, c) for n, c, nm in all_calls(ctx, f.flush, g) if nm == WRITER]
    need(len(wcalls) == 1, "anchor lost: Sower flush calls the writer %d times" % len(wcalls))
    f.wnode, f.wcall = wcalls[0]
    f.buffer = path_key(f.wcall.args[0]) if f.wcall.args else None
    need(f.buffer is not None, "idiom changed: Sower flush does not write an attribute buffer: %s" % norm(f.wcall))
    # batch counter: format argument of the batch template in the path
    f.counter = None
    for x in ast.walk(f.wcall.args[1]) if len(f.wcall.args) > 1 else []:
        if isinstance(x, ast.Call) and isinstance(x.func, ast.Attribute) and x.func.attr == "format" and norm(x.func.value) == "BTCH_NM" and x.args:
            f.counter_expr = x.args[0]
            f.counter = path_key(x.args[0])
    need(f.counter is not None, "idiom changed: batch file name is not BTCH_NM.format(<counter attribute>): %s" % norm(f.wcall))
    # in-batch counter: attribute compared with an expression mentioning batchsize in __call__
    gc = build_cfg(f.call.node)
    f.cut = None
    for n in gc.nodes:
        if n.kind == "test" and isinstance(n.ast, ast.Compare) and "batchsize" in norm(n.ast):
            f.cut = n
    need(f.cut is not None, "idiom changed: no cut test mentioning batchsize in Sower.__call__")
    f.inbatch = path_key(f.cut.ast.left)
    need(f.inbatch is not None, "idiom changed: cut test left side %s" % norm(f.cut.ast.left))
    return f


def sower_machine_rule(ctx, rid):
    """C07.R1: the Sower's state machine."""
    rr = ctx.rule(rid, "Sower state machine: one append per call, cut, counter before name, resets, final flush, no empty batch", floor=10)
    f = sower_facts(ctx)
    S = f.cls.qualname
    # ---- __init__ starts from zero / empty
    gi = build_cfg(f.init.node)
    ctx.touch(f.init, gi)
    for path, want in ((f.counter, "0"), (f.inbatch, "0")):
        a = _assign_nodes(gi, path)
        if len(a) == 1 and norm(a[0].ast.value) == want:
            rr.ok("%s.__init__: %s = %s" % (S, path, want))
        else:
            nd = a[0].ast if a else f.init.node
            rr.bad(ctx.finding(rid, f.init, nd, "%s does not start at %s: batch ids / sizes are shifted (found %s)" % (path, want, [norm(x.ast) for x in a]),
                               construct="init " + path), "init %s" % path)
    a = _assign_nodes(gi, f.buffer)
    if len(a) == 1 and norm(a[0].ast.value) in ("[]", "list()"):
        rr.ok("%s.__init__: %s = []" % (S, f.buffer))
    else:
        rr.bad(ctx.finding(rid, f.init, f.init.node, "%s does not start empty" % f.buffer, construct="init " + f.buffer), "init buffer")

    # ---- flush: increment before name, resets after write, on every path
    g = build_cfg(f.flush.node)
    ctx.touch(f.flush, g)
    incs = _aug_nodes(g, f.counter)
    f.inc_before = None
    if len(incs) != 1 or not isinstance(incs[0].ast.op, ast.Add) or norm(incs[0].ast.value) != "1":
        rr.bad(ctx.finding(rid, f.flush, incs[0].ast if incs else f.flush.node, "the batch counter %s is not incremented by exactly one `+= 1` in %s (found %s): batch ids get gaps or repeats" % (f.counter, f.flush.name, [norm(x.ast) for x in incs]),
                           construct="counter-increment"), "flush increments once")
    else:
        inc = incs[0]
        if not g.completes_before(inc.id, g.exit.id):
            rr.bad(ctx.finding(rid, f.flush, inc.ast, "a path through %s skips the batch counter increment" % f.flush.name, construct="counter-skipped"), "flush increments on all paths")
        elif g.completes_before(inc.id, f.wnode.id):
            f.inc_before = 1
            rr.ok("%s.%s: `%s` completes before the file name is formatted: first id is 1" % (S, f.flush.name, norm(inc.ast)))
        elif g.completes_before(f.wnode.id, inc.id):
            f.inc_before = 0
            rr.bad(ctx.finding(rid, f.flush, inc.ast, "the batch counter is incremented after the batch file is named: ids run 0..B-1 while the Reaper, missing_results and the scripts use 1..B",
                               construct="counter-after-write"), "flush increments before naming")
        else:
            rr.bad(ctx.finding(rid, f.flush, inc.ast, "increment and write are not ordered on every path", construct="counter-unordered"), "flush order")
    if norm(f.counter_expr) != f.counter:
        raise AnalysisError("batch name uses %s, not the bare counter" % norm(f.counter_expr))
    for path, want, why in ((f.buffer, ("[]", "list()"), "the next batch would repeat the settings already written"),
                            (f.inbatch, ("0",), "the next batch would be cut at the wrong size")):
        rs = [n for n in _assign_nodes(g, path) if norm(n.ast.value) in want]
        okr = [n for n in rs if g.completes_before(f.wnode.id, n.id) and g.completes_before(n.id, g.exit.id)]
        if okr:
            rr.ok("%s.%s: %s reset after the write on every path" % (S, f.flush.name, path))
        else:
            rr.bad(ctx.finding(rid, f.flush, f.flush.node, "%s is not reset after the batch is written on every path: %s" % (path, why), construct="no-reset " + path), "flush resets %s" % path)

    # ---- __call__: exactly one append of the kwargs, one increment, then the cut test
    gc = build_cfg(f.call.node)
    ctx.touch(f.call, gc)
    kw = f.call.node.args.kwarg.arg if f.call.node.args.kwarg else None
    need(kw is not None, "idiom changed: Sower.__call__ takes no **kwargs")
    apps = [(n, c) for n, c, nm in all_calls(ctx, f.call, gc) if nm == "?.append" and path_key(c.func.value) == f.buffer]
    if len(apps) == 1 and len(apps[0][1].args) == 1 and norm(apps[0][1].args[0]) == kw and gc.completes_before(apps[0][0].id, gc.exit.id):
        rr.ok("%s.__call__: exactly one `%s` on every path" % (S, norm(apps[0][1])))
    else:
        rr.bad(ctx.finding(rid, f.call, apps[0][1] if apps else f.call.node, "the settings of a call are not appended to the batch buffer exactly once, unmodified, on every path (found %s): a setting is lost, duplicated or altered"
                           % [norm(c) for _, c in apps], construct="append-once"), "call appends once")
    incs = _aug_nodes(gc, f.inbatch)
    if len(incs) == 1 and isinstance(incs[0].ast.op, ast.Add) and norm(incs[0].ast.value) == "1" and gc.completes_before(incs[0].id, f.cut.id):
        rr.ok("%s.__call__: `%s` once before the cut test" % (S, norm(incs[0].ast)))
    else:
        rr.bad(ctx.finding(rid, f.call, incs[0].ast if incs else f.call.node, "the in-batch counter %s is not incremented exactly once before the cut test" % f.inbatch, construct="inbatch-increment"), "call counts once")
    # cut: inbatch == batchsize + [P] ; true edge flushes
    cmp = f.cut.ast
    if len(cmp.ops) == 1 and isinstance(cmp.ops[0], ast.Eq):
        try:
            rhs = lin(cmp.comparators[0], subst=lambda nm: (single_def(f.call, nm) or (None, None))[1], rename=last_attr)
        except NotAffine as e:
            raise AnalysisError("cut size not linear: %s" % e)
        inds = [s for s in rhs.c if s.startswith("[")]
        rest = Lin({s: v for s, v in rhs.c.items() if not s.startswith("[")}, rhs.k)
        if rest == sym("batchsize") and len(inds) == 1 and rhs.c[inds[0]] == 1:
            rr.ok("%s.__call__: batch is cut when %s == batchsize + %s" % (S, last_attr(f.inbatch), inds[0]))
            f.pred_text = inds[0][1:-1]
        elif rest == sym("batchsize") and not inds:
            f.pred_text = None
            rr.bad(ctx.finding(rid, f.call, cmp, "the cut size ignores the remainder: every batch has `batchsize` settings and the remainder overflows into extra batches", construct="cut-no-extra"), "cut size")
        else:
            rr.bad(ctx.finding(rid, f.call, cmp, "batches are cut at %s instead of batchsize + [extra]" % rhs, construct="cut-size " + repr(rhs)), "cut size")
            f.pred_text = None
    else:
        raise AnalysisError("cut test shape not recognised: %s" % norm(cmp))
    tsucc = [b for b, l in gc.succ[f.cut.id] if l == "t"]
    flush_calls = [(n, c) for n, c, nm in all_calls(ctx, f.call, gc) if nm == f.flush.qualname]
    if flush_calls and all(gc.dominates(f.cut.id, n.id) for n, _ in flush_calls) and any(n.id in gc.reachable(start=tsucc[0]) | {tsucc[0]} for n, _ in flush_calls):
        rr.ok("%s.__call__: %s() on the true branch of the cut test, after the append (non-empty buffer)" % (S, f.flush.name))
    else:
        rr.bad(ctx.finding(rid, f.call, cmp, "the flush is not (only) on the true branch of the cut test", construct="flush-not-on-cut"), "cut flushes")

    # ---- __exit__: a non-empty buffer is flushed on the normal path, an empty one is not
    ge = build_cfg(f.exit.node)
    ctx.touch(f.exit, ge)
    exc_param = f.exit.positional[1] if len(f.exit.positional) > 1 else None
    for buf, want in ((TRUTHY, True), (FALSY, False)):
        init = {f.buffer: buf}
        if exc_param:
            init[exc_param] = NONE
        fl = Flow(ge, init).run()
        fc = [(n, c) for n, c, nm in all_calls(ctx, f.exit, ge) if nm == f.flush.qualname and n.id in fl.visited]
        reached = bool(fc) and all(ge.completes_before(n.id, ge.exit.id, feasible=fl.feasible) for n, _ in fc)
        if want and not reached:
            rr.bad(ctx.finding(rid, f.exit, f.exit.node, "a partly filled last batch is not written when the sowing context exits normally: the last settings are never sown",
                               construct="exit-no-flush"), "exit flushes remainder")
        elif (not want) and fc:
            rr.bad(ctx.finding(rid, f.exit, fc[0][1], "an empty batch file can be written on exit (batch without settings, spurious id)", construct="exit-empty-batch"), "exit no empty batch")
        else:
            rr.ok("%s.__exit__: buffer %s -> %s" % (S, "non-empty" if want else "empty", "flushed" if want else "nothing written"))
    return rr, f


def _norm_pred(forms, id_sym, r_sym):
    """forms (>=0) -> k such that the predicate is  id <= r + k ; else None."""
    if len(forms) != 1:
        return None
    F = forms[0]
    if set(F.c) == {id_sym, r_sym} and F.c[r_sym] == 1 and F.c[id_sym] == -1:
        return F.k
    return None


def sower_extra_predicate(ctx, f):
    """-> (k, text): Sower gives the extra setting to ids with id <= r + k."""
    if getattr(f, "pred_text", None) is None or f.inc_before is None:
        return None, None
    pred = ast.parse(f.pred_text, mode="eval").body
    sub = lambda nm: (single_def(f.call, nm) or (None, None))[1]
    cname = last_attr(f.counter)

    def ren(p):
        a = last_attr(p)
        return a
    try:
        forms = predicate(pred, subst=sub, rename=ren)
    except NotAffine as e:
        raise AnalysisError("Sower extra-batch predicate not linear: %s" % e)
    # counter = id - inc_before
    out = []
    for F in forms:
        c = dict(F.c)
        k = F.k
        if cname in c:
            v = c.pop(cname)
            c["id"] = c.get("id", 0) + v
            k += v * (-f.inc_before)
        out.append(Lin(c, k))
    rs = [s for F in out for s in F.c if "remainder" in s]
    need(rs, "Sower predicate does not mention the remainder: %s" % f.pred_text)
    return _norm_pred(out, "id", rs[0]), f.pred_text


def extra_predicate_rule(ctx, rid, f, with_reaper):
    """C07.R2 (Sower alone) / C09.R1 (Reaper must agree with the Sower)."""
    rr = ctx.rule(rid, "who gets the extra setting: Sower normal form id <= remainder" + (" and the Reaper's placeholder size agrees" if with_reaper else ""), floor=2 if with_reaper else 1)
    ks, txt = sower_extra_predicate(ctx, f)
    if ks is None:
        raise AnalysisError("Sower extra-batch predicate not in a recognised form (%s)" % txt)
    if ks != 0:
        rr.bad(ctx.finding(rid, f.call, f.cut.ast, "the Sower gives the extra setting to batches with id <= remainder%+d (from `%s`), not to exactly the first `remainder` batches: the sizes no longer add up to the number of settings" % (ks, txt),
                           construct="sower-extra-predicate"), "sower predicate")
    else:
        rr.ok("Sower: `%s` with id = counter + %d  ==>  extra iff id <= remainder" % (txt, f.inc_before))
    if not with_reaper:
        return rr
    prog = ctx.prog
    init = prog.need_func(CROP + ".Reaper.__init__")
    ld = init.nested.get("_load")
    need(ld is not None, "anchor lost: Reaper _load")
    g = build_cfg(ld.node)
    ctx.touch(ld, g)
    # placeholder: (default,) * size
    sizes = []
    for n in walk_shallow(ld.node):
        if isinstance(n, ast.BinOp) and isinstance(n.op, ast.Mult) and isinstance(n.left, ast.Tuple) and len(n.left.elts) == 1:
            sizes.append(n)
    need(len(sizes) == 1, "idiom changed: placeholder tuple `(default,) * size` not found in _load")
    sub = lambda nm: (single_def(ld, nm) or (None, None))[1]
    size_e = sizes[0].right

    id_names = set()

    def sub2(nm):
        d = single_def(ld, nm)
        if d is None:
            return None
        txt = norm(d[1])
        if "RSLT_NM.format(" in txt and ("re.findall" in txt or "re.search" in txt or "re.match" in txt or "re.fullmatch" in txt) and txt.startswith("int("):
            id_names.add(nm)
            return sym("id")
        return d[1]
    # idiom B: the length is read from the sown batch file of the same id
    se = size_e
    dsz = single_def(ld, se.id) if isinstance(se, ast.Name) else None
    se_x = dsz[1] if dsz else se
    if isinstance(se_x, ast.Call) and isinstance(se_x.func, ast.Name) and se_x.func.id == "len" and len(se_x.args) == 1:
        inner = se_x.args[0]
        d_in = single_def(ld, inner.id) if isinstance(inner, ast.Name) else None
        inner_x = d_in[1] if d_in else inner
        # names feeding the loaded path, following single local definitions
        reach, todo, texts = set(), [inner_x], [norm(inner_x)]
        while todo:
            ex = todo.pop()
            for nmx in names_in(ex):
                if nmx in reach:
                    continue
                reach.add(nmx)
                dd = single_def(ld, nmx)
                if dd:
                    todo.append(dd[1])
                    texts.append(norm(dd[1]))
        path_txt = " ".join(texts)
        if "read_from_disk(" in path_txt and "'batches'" in path_txt and "BTCH_NM.format(" in path_txt:
            def is_id(nmx):
                dd = single_def(ld, nmx)
                return bool(dd) and "RSLT_NM.format(" in norm(dd[1]) and "re." in norm(dd[1])
            fmt_args = []
            for t in texts:
                for x in ast.walk(ast.parse(t, mode="eval")):
                    if isinstance(x, ast.Call) and isinstance(x.func, ast.Attribute) and x.func.attr == "format" and norm(x.func.value) == "BTCH_NM":
                        fmt_args += [norm(a) for a in x.args]
            if fmt_args and all(is_id(a) for a in fmt_args):
                rr.ok("Reaper: placeholder length = len() of the sown batch file with the id parsed from the result name (exact for every batch, including a short last one)")
                return rr
            rr.bad(ctx.finding(rid, ld, size_e, "the placeholder length is read from a batch file whose id (%s) is not the one parsed from the missing result's name" % fmt_args, construct="placeholder-batch-id"), "reaper size")
            return rr
    try:
        L = lin(size_e, subst=sub2, rename=last_attr)
    except NotAffine as e:
        raise AnalysisError("placeholder size not linear: %s" % e)
    inds = [s for s in L.c if s.startswith("[")]
    rest = Lin({s: v for s, v in L.c.items() if not s.startswith("[")}, L.k)
    if rest != sym("batchsize") or len(inds) != 1:
        rr.bad(ctx.finding(rid, ld, size_e, "the placeholder for a missing batch has %s entries instead of batchsize + [extra]: the reaped stream is shifted" % L, construct="placeholder-size " + repr(L)), "reaper size")
        return rr
    ptxt = inds[0][1:-1]
    forms = predicate(ast.parse(ptxt, mode="eval").body, subst=sub2, rename=last_attr)
    rs = [s for F in forms for s in F.c if "remainder" in s]
    need(rs, "Reaper predicate does not mention the remainder: %s" % ptxt)
    kr = _norm_pred(forms, "id", rs[0])
    if not id_names:
        raise AnalysisError("idiom changed: the Reaper's batch id is not parsed from the result name with the RSLT_NM template")
    if kr is None:
        raise AnalysisError("Reaper predicate not in a recognised form: %s" % ptxt)
    # the formula assumes every batch is full; with a requested batch *size* the last batch is short whenever it does not divide N
    crop = prog.need_cls(CROP + ".Crop")
    cbs = crop.methods.get("choose_batch_settings")
    size_mode = cbs is not None and any(isinstance(x, ast.Call) and "ceil" in norm(x.func) for x in ast.walk(cbs.node))
    if size_mode:
        rr.bad(ctx.finding(rid, ld, size_e, "the Reaper sizes the placeholder of a missing batch by the formula batchsize + [extra] (`%s`), but with a requested batch *size* that does not divide the number of settings the Sower's last batch is shorter than batchsize (flushed on exit): a partial reap with that last batch missing gets a placeholder that is too long and fails with 'Not all results reaped!' (e.g. 5 settings, batchsize=2, batch 3 missing)"
                           % norm(size_e), construct="placeholder-size-formula-short-last-batch"), "reaper size exact for a short last batch")
    if kr != ks:
        rr.bad(ctx.finding(rid, ld, size_e, "the Reaper sizes a missing batch with `%s` (extra iff id <= remainder%+d) but the Sower wrote the extra setting into batches with id <= remainder%+d: a partial reap with the boundary batch missing gets a placeholder of the wrong length" % (ptxt, kr, ks),
                           construct="reaper-extra-predicate"), "reaper predicate equals sower's")
    else:
        rr.ok("Reaper: `%s` with id parsed from the result name ==> extra iff id <= remainder%+d, same as the Sower" % (ptxt, kr))
    return rr


# ------------------------------------------------------------------ formulas
def formulas_rule(ctx, rid):
    """C07.R3: choose_batch_settings computes the documented numbers."""
    rr = ctx.rule(rid, "batch formulas: n, ceil(n/size), min(n, k) before divmod, consistency window", floor=6)
    prog = ctx.prog
    crop = prog.need_cls(CROP + ".Crop")
    f = crop.methods.get("choose_batch_settings")
    need(f is not None, "anchor lost: Crop.choose_batch_settings")
    g = build_cfg(f.node)
    ctx.touch(f, g)
    sub = lambda nm: (single_def(f, nm) or (None, None))[1]
    # ---- n = n_cases * n_combos
    dn = single_def(f, "n", g)
    need(dn is not None, "idiom changed: `n` has no single definition")
    nn, ne = dn
    ok_n = isinstance(ne, ast.BinOp) and isinstance(ne.op, ast.Mult) and {norm(ne.left), norm(ne.right)} == {"n_cases", "n_combos"}
    d1 = [norm(v) for _, v in assignments_to(f, "n_combos", g) if v is not None]
    d2 = [norm(v) for _, v in assignments_to(f, "n_cases", g) if v is not None]
    ok_c = sorted(d1) == sorted(["prod((len(x) for _, x in combos))", "1"]) or sorted(d1) == sorted(["prod(len(x) for _, x in combos)", "1"])
    ok_k = sorted(d2) == sorted(["len(cases)", "1"])
    if ok_n and ok_c and ok_k:
        rr.ok("n = n_cases * n_combos with n_combos = prod(len(values)) or 1, n_cases = len(cases) or 1")
    elif not ok_n:
        rr.bad(ctx.finding(rid, f, ne, "the total number of settings is computed as `%s`, not n_cases * n_combos" % norm(ne), construct="n-formula"), "n formula")
    else:
        rr.bad(ctx.finding(rid, f, nn.ast, "n_combos / n_cases are not prod(len(values)) / len(cases) with neutral element 1: %s / %s" % (d1, d2), construct="n-factors"), "n factors")

    B = "self.num_batches"
    S = "self.batchsize"
    R = "self._batch_remainder"
    # ---- batch size branch
    nbs = [n for n in _assign_nodes(g, B)]
    ceil_nodes = [n for n in nbs if isinstance(n.ast.value, (ast.Call, ast.BinOp, ast.UnaryOp)) and ("ceil" in norm(n.ast.value) or "//" in norm(n.ast.value))]
    accepted = {"math.ceil(n / self.batchsize)", "-(-n // self.batchsize)", "(n + self.batchsize - 1) // self.batchsize", "ceil(n / self.batchsize)",
                "(n - 1) // self.batchsize + 1"}
    if len(ceil_nodes) != 1:
        raise AnalysisError("idiom changed: expected one num_batches-from-batchsize assignment, found %s" % [norm(n.ast) for n in ceil_nodes])
    cn = ceil_nodes[0]
    if norm(cn.ast.value) in accepted:
        rr.ok("num_batches from a batch size: %s (ceiling)" % norm(cn.ast.value))
    else:
        rr.bad(ctx.finding(rid, f, cn.ast, "with a requested batch size the number of batches is `%s`, not ceil(n / batchsize)" % norm(cn.ast.value), construct="ceil-formula"), "ceil formula")
    rz = [n for n in _assign_nodes(g, R) if norm(n.ast.value) == "0" and g.dominates(n.id, g.exit.id) is not None]
    rz = [n for n in rz if (cn.id in g.reachable(start=n.id) or n.id in g.reachable(start=cn.id))]
    if rz:
        rr.ok("batch-size branch sets the remainder to 0")
    else:
        rr.bad(ctx.finding(rid, f, cn.ast, "with a requested batch size the remainder is not set to 0 on the same path", construct="remainder-zero"), "remainder zero")
    # batchsize validated >= 1 before use
    tests = [n for n in g.nodes if n.kind == "test" and norm(n.ast) in ("self.batchsize < 1", "self.batchsize <= 0", "not self.batchsize >= 1")]
    if tests and all(g.dominates(t.id, cn.id) for t in tests):
        rr.ok("batchsize >= 1 is enforced before the division")
    else:
        rr.bad(ctx.finding(rid, f, cn.ast, "batchsize is not validated (>= 1) before dividing by it", construct="batchsize-validation"), "batchsize validation")

    # ---- batch count branch: divmod with capped divisor; facts survive to exit
    dms = [n for n in g.nodes if n.kind == "stmt" and isinstance(n.ast, ast.Assign) and isinstance(n.ast.value, ast.Call) and norm(n.ast.value.func) == "divmod"]
    pair_alt = None
    if len(dms) != 1:
        # accept the // and % pair
        q = [n for n in _assign_nodes(g, S) if norm(n.ast.value) == "n // self.num_batches"]
        m = [n for n in _assign_nodes(g, R) if norm(n.ast.value) == "n % self.num_batches"]
        if len(q) == 1 and len(m) == 1:
            pair_alt = (q[0], m[0])
        else:
            raise AnalysisError("idiom changed: no `divmod(n, num_batches)` (or //, % pair) in choose_batch_settings")
    if pair_alt is None:
        dm = dms[0]
        tg = dm.ast.targets[0]
        args = [norm(a) for a in dm.ast.value.args]
        tnames = [path_key(x) for x in tg.elts] if isinstance(tg, (ast.Tuple, ast.List)) else []
        if args != ["n", B]:
            rr.bad(ctx.finding(rid, f, dm.ast, "divmod operands are %s, not (n, num_batches)" % args, construct="divmod-operands"), "divmod operands")
        elif tnames != [S, R]:
            rr.bad(ctx.finding(rid, f, dm.ast, "divmod results are stored as %s, not (batchsize, remainder): quotient and remainder are swapped or misplaced" % tnames, construct="divmod-targets"), "divmod targets")
        else:
            rr.ok("(batchsize, remainder) = divmod(n, num_batches)")
        anchor_nodes = [dm]
    else:
        rr.ok("batchsize = n // num_batches and remainder = n % num_batches (same operands)")
        anchor_nodes = list(pair_alt)
    first = anchor_nodes[0]
    # cap: self.num_batches = min(n, self.num_batches) completes before, nothing re-stores after
    caps = [n for n in nbs if isinstance(n.ast.value, ast.Call) and norm(n.ast.value.func) == "min"
            and sorted(norm(a) for a in n.ast.value.args) == sorted(["n", B])]
    capped = [c for c in caps if g.completes_before(c.id, first.id)]
    if not capped:
        rr.bad(ctx.finding(rid, f, first.ast, "the number of batches is not capped with min(n, num_batches) before it divides n: with more batches requested than settings the quotient is 0 and the stored (batchsize, num_batches, remainder) no longer describe the files that are written",
                           construct="no-cap-before-divmod"), "cap before divmod")
    else:
        rr.ok("num_batches = min(n, num_batches) completes before the division")
    # available-expression: after the division no store to batchsize / num_batches / remainder / n on a path to exit
    later = set()
    for a in anchor_nodes:
        later |= g.reachable(start=a.id, skip_labels=("exc",))
    later -= {a.id for a in anchor_nodes}
    restores = []
    for nid in sorted(later):
        n = g.nodes[nid]
        if n.kind == "stmt" and isinstance(n.ast, (ast.Assign, ast.AugAssign)):
            tgts = n.ast.targets if isinstance(n.ast, ast.Assign) else [n.ast.target]
            for t in tgts:
                for x in ([t] if not isinstance(t, (ast.Tuple, ast.List)) else t.elts):
                    if path_key(x) in (S, B, R, "n"):
                        restores.append(n)
    if restores:
        rr.bad(ctx.finding(rid, f, restores[0].ast, "`%s` changes batchsize / num_batches / remainder after they were derived together from divmod(n, num_batches): the three numbers no longer satisfy n = batchsize * num_batches + remainder with remainder < num_batches"
                           % norm(restores[0].ast), construct="restore-after-divmod " + norm(restores[0].ast)), "triple consistent until exit")
    else:
        rr.ok("nothing re-stores batchsize / num_batches / remainder after the division")

    # ---- both given: consistency window  n <= size*count (+ rem) < n + size
    def subw(nm):
        if nm in ("pos_tot", "n"):
            return sym(nm)
        d = single_def(f, nm)
        return d[1] if d else None
    wins = []
    for nd in g.nodes:
        if nd.kind != "test":
            continue
        t = nd.ast
        neg = False
        while isinstance(t, ast.UnaryOp) and isinstance(t.op, ast.Not):
            neg = not neg
            t = t.operand
        if not isinstance(t, ast.Compare) or any(isinstance(o, (ast.Is, ast.IsNot, ast.In, ast.NotIn)) for o in t.ops):
            continue
        try:
            forms = constraints(t, subst=subw, rename=last_attr)
        except NotAffine:
            continue
        if any("pos_tot" in F.c for F in forms):
            wins.append((nd, neg, forms))
    if len(wins) != 1:
        raise AnalysisError("idiom changed: consistency check on batchsize * num_batches not found (%d candidates)" % len(wins))
    w, neg, forms = wins[0]
    want = {Lin({"pos_tot": 1, "n": -1}, 0), Lin({"n": 1, "batchsize": 1, "pos_tot": -1}, -1)}
    raises_on = [l for b, l in g.succ[w.id] if l in ("t", "f") and g.exit.id not in g.reachable(start=b) and b != g.exit.id]
    if set(forms) == want and ((neg and raises_on == ["t"]) or ((not neg) and raises_on == ["f"])):
        rr.ok("both given: accepted iff n <= batchsize*num_batches(+remainder) < n + batchsize (normal form %s)" % sorted(map(repr, forms)))
    else:
        rr.bad(ctx.finding(rid, f, w.ast, "the consistency check accepts {%s >= 0} instead of {pos_tot - n >= 0, n + batchsize - pos_tot - 1 >= 0}: a stored batch size / count that does not cover the new settings exactly is accepted (or a valid one refused)"
                           % ", ".join(sorted(map(repr, forms))), construct="consistency-window"), "consistency window")
    return rr


# ------------------------------------------------------------------ id universe
def id_universe_rule(ctx, rid, f=None):
    """C04.R4: Sower ids 1..B; the Reaper and missing_results enumerate
    [1, num_batches] ascending."""
    rr = ctx.rule(rid, "batch id universe: Reaper and missing_results range over [1, num_batches] ascending", floor=2)
    prog = ctx.prog
    init = prog.need_func(CROP + ".Reaper.__init__")
    d = single_def(init, "files")
    need(d is not None, "anchor lost: Reaper files")
    ge = d[1]
    need(isinstance(ge, (ast.GeneratorExp, ast.ListComp)) and len(ge.generators) == 1, "idiom changed: Reaper files is not a single-for comprehension")
    gen = ge.generators[0]
    if gen.ifs:
        rr.bad(ctx.finding(rid, init, ge, "the Reaper's file list is filtered: batches are skipped", construct="reaper-files-filter"), "reaper range")
    fmt = [x for x in ast.walk(ge.elt) if isinstance(x, ast.Call) and isinstance(x.func, ast.Attribute) and x.func.attr == "format" and norm(x.func.value) == "RSLT_NM"]
    need(len(fmt) == 1 and isinstance(gen.target, ast.Name), "idiom changed: Reaper file name")
    var = gen.target.id
    try:
        lo, hi = range_bounds(gen.iter, rename=last_attr)
        e = lin(fmt[0].args[0], rename=last_attr)
    except NotAffine as ex:
        if "range" not in norm(gen.iter):
            rr.bad(ctx.finding(rid, init, gen.iter, "the Reaper does not enumerate result files by ascending id: iterates %s" % norm(gen.iter), construct="reaper-iter"), "reaper range")
            return rr
        raise AnalysisError("Reaper id range not linear: %s" % ex)
    if e.c.get(var) != 1:
        rr.bad(ctx.finding(rid, init, fmt[0], "result id is not the loop variable plus a constant: %s" % e, construct="reaper-id"), "reaper range")
    else:
        off = e - sym(var)
        first, last = lo + off, hi + off
        if first == Lin({}, 1) and last == sym("num_batches"):
            rr.ok("Reaper reads ids [%s .. %s] ascending (range, no filter)" % (first, last))
        else:
            rr.bad(ctx.finding(rid, init, ge, "the Reaper reads result ids [%s .. %s] instead of [1 .. num_batches]: a batch is skipped or a non-existent one is expected" % (first, last),
                               construct="reaper-id-range"), "reaper range")
    crop = prog.need_cls(CROP + ".Crop")
    mr = crop.methods.get("missing_results")
    need(mr is not None, "anchor lost: Crop.missing_results")
    rngs = [c for c in walk_shallow(mr.node) if isinstance(c, ast.Call) and isinstance(c.func, ast.Name) and c.func.id == "range"]
    if len(rngs) == 1:
        lo, hi = range_bounds(rngs[0], rename=last_attr)
        if lo == Lin({}, 1) and hi == sym("num_batches"):
            rr.ok("missing_results ranges over [1 .. num_batches]")
        else:
            rr.bad(ctx.finding(rid, mr, rngs[0], "missing_results ranges over [%s .. %s] instead of [1 .. num_batches]" % (lo, hi), construct="missing-range"), "missing range")
    else:
        rr.note("missing_results does not use a range(); covered by the listing rule")
        rr.ok("missing_results: no range() idiom")
    return rr
