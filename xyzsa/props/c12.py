"""C12 -- a crop is deleted only after its data is safely delivered.

R1  delete is last: per reap entry and per valuation of the documented flags,
    (a) the crop can be deleted iff the effective clean_up is true (table),
    (b) every deletion is preceded by the *normal completion* of the gather
        and, where the entry syncs, of the sync call, (c) so it is not
        reachable from their failure, and (d) nothing that may raise follows a
        deletion.
R2  decision table of clean_up / allow_incomplete / wait / ready (C09.R4).
R3  a failing result load propagates (no handler swallows it and carries on).
"""
import ast

from ..loader import AnalysisError, norm, walk_shallow
from ..cfg import build_cfg, node_calls
from ..flow import TOP, NONE, TRUE, FALSE, valuations, truth, is_const
from ..inter import Inter
from ..util import callee_name, all_calls, arg, need, names_in, assignments_to
from .. import base_rules
from . import shared

LEVEL = "other"
CLAIM = {
    "text": ("Decides, for the six reap entry points and exhaustively for every valuation of clean_up x allow_incomplete x wait x sync x to_df (finite, enumerated), that "
             "the crop directory can be removed iff the documented effective clean_up is true, that every removal is preceded on all paths by the normal completion of the "
             "result gather (the Reaper's with-block and its exhaustion check) and of the harvester / sampler sync, that no removal is reachable from their failure, and that no "
             "call that may raise follows a removal (interprocedural: callee summaries per abstract valuation). Also the readiness gate and the load-error propagation "
             "(no except around the result load continues with a default); (R4) the Sampler's in-memory table is replaced only after the file was written; (R5) nothing reachable from the Reaper's load path or a progress query removes a file, so a failing or partial reap leaves every grown result in place. These are necessary conditions of C12; the merge/save semantics themselves are library behaviour."),
    "note": "Trusted base: CPython executes the parsed ast; with-statement semantics (__exit__ runs, exceptions propagate); the decision table is the one in the Crop.reap docstring. The analysis is path-insensitive inside library calls.",
    "technique": "static analysis: truthiness-partitioned interprocedural dataflow (callee effect summaries) + CFG must-complete-before rules over all flag valuations",
}
EXPLANATION = (
    "Interprocedural effect analysis: DELETE_CROP (shutil.rmtree of the crop location), GATHER (the Reaper context), SYNC (Harvester.add_ds / Sampler.add_df) events are "
    "attached to CFG nodes (directly or through callee summaries computed per abstract valuation of the flags); rules C12.R1a-d are evaluated for each reap entry under "
    "every valuation of the flags; C12.R2 evaluates the readiness / clean-up decision functions over their complete finite input space; C12.R3 inspects handlers around result loads.")
ASSUMPTIONS = [
    "a statement containing no call cannot raise in a way that matters after the deletion (attribute stores on the runner / sampler objects)",
    "Reaper / Harvester / Sampler / Crop methods are resolved by the repository's own parameter names (receiver-hint table in xyzsa/callgraph.py)",
]
NOT_DECIDED = ["(L) whether add_ds / add_df themselves are atomic (C05 / C10)", "(L) xarray merge conflict detection"]

ENTRIES = ["reap_combos", "reap_combos_to_ds", "reap_runner", "reap_harvest", "reap_samples", "reap"]
FLAGS = {"clean_up": [NONE, TRUE, FALSE], "allow_incomplete": [TRUE, FALSE], "wait": [TRUE, FALSE],
         "sync": [TRUE, FALSE], "to_df": [TRUE, FALSE], "parse": [TRUE, FALSE]}


def primitive(ctx):
    def prim(fi, call, name):
        if name == "shutil.rmtree":
            a = arg(call, 0)
            if a is not None and "location" in norm(a):
                return {"DELETE_CROP"}
            return {"RMTREE_OTHER"}
        if name == "xyzpy.gen.cropping.Reaper":
            return {"GATHER"}
        if name in ("xyzpy.gen.farming.Harvester.add_ds", "xyzpy.gen.farming.Sampler.add_df"):
            return {"SYNC"}
        return ()
    return prim


def fmt_val(v):
    return ", ".join("%s=%s" % (k, v[k][1] if is_const(v[k]) else v[k][0]) for k in sorted(v))


def delete_rule(ctx, rid, title="delete is last: table, gather/sync completed before, nothing raising after", floor=60, only_table_for_partial=False):
    """C12.R1.  With only_table_for_partial the rule is restricted to clause
    (a) for allow_incomplete=True valuations (C09: a default partial reap
    deletes nothing)."""
    prog = ctx.prog
    crop = prog.need_cls("xyzpy.gen.cropping.Crop")
    entries = []
    for n in ENTRIES:
        f = crop.methods.get(n)
        need(f is not None, "anchor lost: Crop.%s" % n)
        entries.append(f)
    entry_names = {f.qualname for f in entries}
    # the role anchor: exactly one function removes the crop directory
    deleters = []
    for fi in prog.modules["xyzpy.gen.cropping"].all_funcs:
        for n, c, name in all_calls(ctx, fi):
            if name == "shutil.rmtree" and "location" in norm(c):
                deleters.append(fi)
    need(len(deleters) >= 1, "anchor lost: no function removes the crop directory with shutil.rmtree(<x>.location)")

    inter = Inter(ctx, primitive(ctx), track=set(FLAGS) | {"default_result"})
    r1 = ctx.rule(rid, title, floor=floor)
    n_vals = 0
    for f in entries:
        spec = {p: FLAGS[p] for p in f.params if p in FLAGS}
        for val in valuations(spec):
            if only_table_for_partial and not truth(val.get("allow_incomplete", FALSE)):
                continue
            n_vals += 1
            fl = inter.flow(f, val)
            g = fl.cfg
            vis = fl.visited
            feas = fl.feasible
            ev = {nid: k for nid, k in fl.node_events.items() if nid in vis}
            dels = [nid for nid, k in ev.items() if "DELETE_CROP" in k]
            cu, ai = val.get("clean_up", NONE), val.get("allow_incomplete", FALSE)
            eff = (not truth(ai)) if cu == NONE else truth(cu)
            vtxt = fmt_val(val)
            # (a) table
            if dels and not eff:
                d = g.nodes[dels[0]]
                # the deletion may sit in a helper that decides on an argument: if that argument is not one of the tracked flags
                # (e.g. a field of a record built earlier) the helper was analysed with "unknown" and the verdict is not a finding
                for c_ in node_calls(d):
                    cv_ = fl.call_vals.get(id(c_))
                    if cv_ is not None and cv_[0] not in deleters and cv_[0].qualname not in entry_names:
                        untracked = [a_ for a_ in list(c_.args) + [k.value for k in c_.keywords] if not (isinstance(a_, ast.Constant) or (isinstance(a_, ast.Name) and a_.id in FLAGS))]
                        if untracked:
                            raise AnalysisError("idiom changed: the crop is deleted inside `%s`, decided there from `%s`, which is not a tracked flag" % (norm(c_)[:50], norm(untracked[0])[:40]))
                # ... or behind a test on a field of a record (`plan.clean_up`): the flow analysis tracks flags held in names, not in
                # the fields of objects built earlier, so it took both arms
                from ..pathcond import path_tests as _pt12
                if getattr(d, "stmt", None) is not None:
                    for t_, _pol in _pt12(f.node, d.stmt):
                        fld_ = [x_ for x_ in ast.walk(t_) if isinstance(x_, ast.Attribute) and isinstance(x_.value, ast.Name) and x_.value.id != "self"]
                        if fld_:
                            raise AnalysisError("idiom changed: the deletion in %s is decided by `%s`, a field of a record, which is not a tracked flag" % (f.name, norm(fld_[0])[:40]))
                r1.bad(ctx.finding(rid, f, d.stmt, "the crop can be deleted although the effective clean_up is False (%s): clean_up / allow_incomplete are not honoured as documented" % vtxt,
                                   construct="delete-when-clean_up-false " + d.text()[:80], path=vtxt), "R1a %s [%s]" % (f.name, vtxt))
            elif (not dels) and eff:
                r1.bad(ctx.finding(rid, f, f.node, "the crop is never deleted although the effective clean_up is True (%s)" % vtxt,
                                   construct="no-delete-when-clean_up-true", path=vtxt), "R1a %s [%s]" % (f.name, vtxt))
            else:
                r1.ok("R1a %s [%s]: deletion %s, as documented" % (f.name, vtxt, "possible" if dels else "impossible"))
            if not dels or only_table_for_partial:
                continue
            gathers = [nid for nid, k in ev.items() if "GATHER" in k]
            syncs = [nid for nid, k in ev.items() if "SYNC" in k]
            for d in dels:
                dn = g.nodes[d]
                delegated = _delegated(ctx, f, fl, dn, entry_names, "DELETE_CROP")
                # (b)/(c) ordering against the gather
                if not delegated:
                    gdone = []
                    for gi in gathers:
                        gn = g.nodes[gi]
                        if gn.kind == "with_enter":
                            gdone += [x.id for x in g.nodes if x.kind == "with_exit" and x.ast is gn.stmt and x.label == "normal"]
                        else:
                            gdone.append(gi)
                    if not gdone:
                        r1.bad(ctx.finding(rid, f, dn.stmt, "the crop is deleted in a function that never gathers the results (%s)" % vtxt,
                                           construct="delete-without-gather " + dn.text()[:80], path=vtxt), "R1b %s" % f.name)
                    elif not any(g.completes_before(x, d, feasible=feas) for x in gdone if x != d):
                        r1.bad(ctx.finding(rid, f, dn.stmt, "the crop can be deleted before the results were completely gathered, or after the gather failed (%s): `%s` is not preceded by the normal completion of the Reaper block on every path" % (vtxt, dn.text()[:60]),
                                           construct="delete-before-gather " + dn.text()[:80], path=vtxt), "R1b %s" % f.name)
                    else:
                        r1.ok("R1b %s [%s]: `%s` only after the gather completed normally" % (f.name, vtxt, dn.text()[:40]))
                    if truth(val.get("sync", FALSE)) and f.name in ("reap_harvest", "reap_samples"):
                        if not any(g.completes_before(s, d, feasible=feas) for s in syncs if s != d):
                            r1.bad(ctx.finding(rid, f, dn.stmt, "with sync the crop can be deleted before the harvester / sampler merge-and-save completed (%s)" % vtxt,
                                               construct="delete-before-sync " + dn.text()[:80], path=vtxt), "R1b-sync %s" % f.name)
                        else:
                            r1.ok("R1b %s [%s]: deletion only after the sync call completed" % (f.name, vtxt))
                # (d) nothing that may raise after a deletion
                after = g.reachable(start=d, skip_labels=("exc",), feasible=feas) - {d}
                for a in sorted(after):
                    an = g.nodes[a]
                    calls = [c_ for c_ in node_calls(an) if not (isinstance(c_.func, ast.Name) and c_.func.id == "setattr" and len(c_.args) == 3 and not any(isinstance(x, ast.Call) for a_ in c_.args for x in ast.walk(a_)))]
                    if calls and an.kind not in ("exit", "raise"):
                        r1.bad(ctx.finding(rid, f, an.stmt if an.stmt is not None else f.node,
                                           "`%s` may raise after the crop was already deleted by `%s` (%s): the reap fails and the crop is gone, so a corrected retry cannot deliver the results" % (an.text()[:60], dn.text()[:60], vtxt),
                                           construct="raise-after-delete %s ;; %s" % (dn.text()[:60], an.text()[:60]), path=vtxt), "R1d %s" % f.name)
                        break
                else:
                    r1.ok("R1d %s [%s]: nothing that may raise follows `%s`" % (f.name, vtxt, dn.text()[:40]))
    ctx.extra["configurations_enumerated"] = n_vals
    ctx.extra["exhaustive"] = True
    return r1, entries


def data_outside_rule(ctx, rid):
    """The delivered data never lies inside the folder delete_all removes: the crop module never points a farmer's data
    file into the crop's own location."""
    rr = ctx.rule(rid, "the crop never relocates a farmer's data file into its own folder (which delete_all removes after the reap)", floor=0)
    m = ctx.prog.modules["xyzpy.gen.cropping"]
    n_ = 0
    for fi in m.all_funcs:
        for st in walk_shallow(fi.node):
            if isinstance(st, ast.Assign) and isinstance(st.targets[0], ast.Attribute) and st.targets[0].attr in ("data_name", "_data_name"):
                n_ += 1
                ctx.touch(fi)
                src = norm(st.value) + " " + " ".join(norm(v_) for nm_ in names_in(st.value) for _, v_ in assignments_to(fi, nm_) if v_ is not None)
                if "self.location" in src or "crop.location" in src or ".location" in src:
                    rr.bad(ctx.finding(rid, fi, st, "`%s` puts the farmer's data file inside the crop's folder: the reap saves into it and delete_all then removes it together with the crop -- the delivered data is gone" % norm(st)[:70],
                                       construct="data-file-inside-crop"), "data outside the crop")
                else:
                    raise AnalysisError("idiom changed: the crop module rewrites a farmer's data_name (`%s`)" % norm(st)[:60])
    if not n_:
        rr.ok("no function of the crop module assigns a farmer's data_name")
    return rr


def run(ctx):
    prog = ctx.prog
    r1, entries = delete_rule(ctx, "C12.R1")

    # R2 decision functions over their complete input space
    shared.decision_table_rule(ctx, "C12.R2")
    # R3 load errors propagate
    shared.load_errors_propagate_rule(ctx, "C12.R3")
    from . import harvest
    harvest.failed_save_rule(ctx, "C12.R4")
    from . import c11
    c11.no_removal_rule(ctx, "C12.R5", actors=c11.ACTORS_LOAD, floor=3,
                        title="nothing on the Reaper's load path or in a progress query removes a file: a reap that fails (or is partial) leaves every grown result in place")

    data_outside_rule(ctx, "C12.R6")
    sl = ctx.res.slice(entries, stop={"xyzpy.gen.combo_runner.combo_runner_to_ds", "xyzpy.gen.combo_runner.combo_runner_core"})
    sl = [f for f in sl if f.module.name == "xyzpy.gen.cropping"]
    base_rules.run_link_rules(ctx, "C12", sl)


def _delegated(ctx, f, fl, node, entry_names, kind):
    """The event at this node comes from a callee that is itself an analysed
    entry (its internal ordering is checked there)."""
    for c in node_calls(node):
        cv = fl.call_vals.get(id(c))
        if cv is not None and cv[0].qualname in entry_names:
            ev, _ = fl.inter.summary(cv[0], cv[1])
            if kind in ev:
                return True
    return False
