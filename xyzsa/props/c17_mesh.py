"""C17.R11 -- heat-map cell edges, decided on uniform meshes by abstract evaluation.

HeatMap.plot_heatmap turns the n cell *centres* along x (and y) into n + 1 cell *edges*.  For a uniformly spaced
coordinate  X_i = a + h*i  (h of either sign: ascending or descending) the only edges that put every value on its own
coordinate are  a - h/2 + h*i, i = 0..n.  The statements that build the edge arrays are evaluated over the abstract
domain of arithmetic sequences  Seq(start, step, length n+k)  whose start / step are linear forms in the symbols
a, h, h*n and |h|; nothing is executed.  The verdict is a comparison of the resulting sequence with the expected
one -- a necessary condition of "a heat map shows exactly the z values on the x-y mesh" (uniform meshes are among
the meshes quantified over)."""
import ast
from fractions import Fraction

from ..loader import AnalysisError, norm


class Lin(dict):
    """linear form: basis symbol -> Fraction ('1', 'a', 'h', 'hn', '|h|')"""

    def __init__(self, d=None):
        super().__init__({k: Fraction(v) for k, v in (d or {}).items() if v != 0})

    def __add__(self, o):
        o = lin(o)
        return Lin({k: self.get(k, 0) + o.get(k, 0) for k in set(self) | set(o)})

    def __neg__(self):
        return Lin({k: -v for k, v in self.items()})

    def __sub__(self, o):
        return self + (-lin(o))

    def scale(self, c):
        return Lin({k: v * Fraction(c) for k, v in self.items()})

    def __eq__(self, o):
        return dict(self) == dict(lin(o))

    def __hash__(self):
        return hash(tuple(sorted(self.items())))

    def show(self):
        if not self:
            return "0"
        return " + ".join("%s*%s" % (v, k) if k != "1" else str(v) for k, v in sorted(self.items()))


def lin(x):
    if isinstance(x, Lin):
        return x
    if isinstance(x, (int, float, Fraction)):
        return Lin({"1": Fraction(x)})
    raise AnalysisError("mesh evaluation: not a scalar: %r" % (x,))


def fold(l):
    """the linear form with |h| read as h (the ascending case)"""
    out = Lin()
    for k_, c in l.items():
        out = out + Lin({("h" if k_ == "|h|" else k_): c})
    return out


class Seq:
    """start + step*i for i in 0 .. n + k - 1"""

    def __init__(self, start, step, k):
        self.start, self.step, self.k = lin(start), lin(step), k

    def show(self):
        return "[%s + (%s)*i, i < n%+d]" % (self.start.show(), self.step.show(), self.k)

    def last(self, back=1):
        # start + step*(n + k - back): step must be a multiple of h alone for the h*n term
        c = self.step
        if not c:
            return self.start
        if set(c) != {"h"}:
            raise AnalysisError("mesh evaluation: last element of a sequence with step %s" % c.show())
        return self.start + Lin({"hn": c["h"], "h": c["h"] * (self.k - back)})


class Broken:
    def __init__(self, why):
        self.why = why


class MeshEval:
    def __init__(self, env):
        self.env = dict(env)     # normalised text -> abstract value

    def ev(self, e):
        k = norm(e)
        if k in self.env:
            return self.env[k]
        if isinstance(e, ast.Constant) and isinstance(e.value, (int, float)) and not isinstance(e.value, bool):
            return lin(Fraction(e.value) if isinstance(e.value, int) else Fraction(str(e.value)))
        if isinstance(e, ast.UnaryOp) and isinstance(e.op, (ast.USub, ast.UAdd)):
            v = self.ev(e.operand)
            if isinstance(v, Broken):
                return v
            if isinstance(e.op, ast.UAdd):
                return v
            return -v if isinstance(v, Lin) else Seq(-v.start, -v.step, v.k)
        if isinstance(e, ast.BinOp):
            a, b = self.ev(e.left), self.ev(e.right)
            for x in (a, b):
                if isinstance(x, Broken):
                    return x
            t = type(e.op)
            if t in (ast.Add, ast.Sub):
                sg = 1 if t is ast.Add else -1
                if isinstance(a, Seq) and isinstance(b, Seq):
                    if a.k != b.k:
                        return Broken("`%s` combines arrays of lengths n%+d and n%+d (shape mismatch)" % (k[:50], a.k, b.k))
                    return Seq(a.start + b.start.scale(sg), a.step + b.step.scale(sg), a.k)
                if isinstance(a, Seq):
                    return Seq(a.start + lin(b).scale(sg), a.step, a.k)
                if isinstance(b, Seq):
                    return Seq(lin(a) + b.start.scale(sg), b.step.scale(sg), b.k)
                return lin(a) + lin(b).scale(sg)
            if t in (ast.Mult, ast.Div):
                # one side must be a pure number
                def num(x):
                    return x.get("1") if isinstance(x, Lin) and set(x) <= {"1"} else None
                if t is ast.Div:
                    c = num(b)
                    if c is None or c == 0:
                        raise AnalysisError("mesh evaluation: division by `%s`" % norm(e.right))
                    c = 1 / (c or Fraction(1))
                    tgt = a
                else:
                    c = num(b)
                    tgt = a
                    if c is None:
                        c, tgt = num(a), b
                    if c is None:
                        raise AnalysisError("mesh evaluation: product `%s`" % k[:50])
                c = Fraction(c) if c is not None else Fraction(0)
                return tgt.scale(c) if isinstance(tgt, Lin) else Seq(tgt.start.scale(c), tgt.step.scale(c), tgt.k)
            raise AnalysisError("mesh evaluation: operator in `%s`" % k[:50])
        if isinstance(e, ast.Subscript):
            v = self.ev(e.value)
            if isinstance(v, Broken):
                return v
            if not isinstance(v, Seq):
                raise AnalysisError("mesh evaluation: subscript of a scalar `%s`" % k[:50])
            s = e.slice
            if isinstance(s, ast.Slice):
                if s.step is not None:
                    raise AnalysisError("mesh evaluation: stepped slice `%s`" % k[:50])
                lo = ast.literal_eval(s.lower) if s.lower is not None else 0
                hi = ast.literal_eval(s.upper) if s.upper is not None else 0
                if not (isinstance(lo, int) and isinstance(hi, int) and lo >= 0 and hi <= 0):
                    raise AnalysisError("mesh evaluation: slice `%s`" % k[:50])
                return Seq(v.start + v.step.scale(lo), v.step, v.k - lo + hi)
            idx = ast.literal_eval(s)
            if isinstance(idx, int) and idx < 0:
                return v.last(-idx)
            if isinstance(idx, int):
                return v.start + v.step.scale(idx)
            raise AnalysisError("mesh evaluation: index `%s`" % k[:50])
        if isinstance(e, ast.Call):
            fn = norm(e.func).rsplit(".", 1)[-1]
            args = [self.ev(a) for a in e.args]
            for x in args:
                if isinstance(x, Broken):
                    return x
            if e.keywords:
                raise AnalysisError("mesh evaluation: keywords in `%s`" % k[:50])
            if fn in ("abs", "absolute", "fabs") and len(args) == 1:
                v = args[0]
                val = v.start if isinstance(v, Seq) else v
                if isinstance(v, Seq) and v.step:
                    raise AnalysisError("mesh evaluation: abs of a non-constant sequence")
                if not val:
                    out = Lin()
                elif set(val) == {"h"}:
                    out = Lin({"|h|": abs(val["h"])})
                elif set(val) == {"|h|"}:
                    out = Lin({"|h|": abs(val["|h|"])})
                else:
                    raise AnalysisError("mesh evaluation: abs of `%s`" % val.show())
                return Seq(out, Lin(), v.k) if isinstance(v, Seq) else out
            if fn in ("mean", "average", "median") and len(args) == 1:
                v = args[0]
                if isinstance(v, Lin):
                    return v
                if not v.step:
                    return v.start
                # mean of an arithmetic sequence = (first + last) / 2
                return (v.start + v.last()).scale(Fraction(1, 2))
            if fn == "diff" and len(args) == 1 and isinstance(args[0], Seq):
                return Seq(args[0].step, Lin(), args[0].k - 1)
            if fn == "append" and len(args) == 2 and isinstance(args[0], Seq) and isinstance(args[1], Lin):
                s_, x = args
                nxt = s_.last(0)
                if x == nxt:
                    return Seq(s_.start, s_.step, s_.k + 1)
                if fold(x) == fold(nxt):
                    return Broken("the edges %s followed by %s line up only when |h| = h: correct for an ascending coordinate; for a descending one the cells are displaced by one spacing and the last cell folds back over its neighbour, so values are shown at other coordinates than their own" % (s_.show(), x.show()))
                return Broken("the appended edge is %s, but the next element of the edge sequence %s is %s" % (x.show(), s_.show(), nxt.show()))
            if fn == "append" and len(args) == 2 and isinstance(args[0], Lin) and isinstance(args[1], Seq):
                x, s_ = args
                if x == s_.start - s_.step:
                    return Seq(x, s_.step, s_.k + 1)
                return Broken("the prepended edge is %s, but the sequence %s continues downwards to %s" % (x.show(), s_.show(), (s_.start - s_.step).show()))
            if fn in ("asarray", "array", "ravel", "flatten", "copy") and args:
                return args[0]
            raise AnalysisError("mesh evaluation: call `%s`" % k[:60])
        if isinstance(e, ast.Name):
            raise AnalysisError("mesh evaluation: unknown name `%s`" % e.id)
        raise AnalysisError("mesh evaluation: expression `%s`" % k[:60])


def mesh_edges_rule(ctx, rid, fi, sources, draw_args):
    """fi: the drawing method; sources: (text of the centre array for x, for y); draw_args: the two edge expressions
    passed to the draw call.  The straight-line statements before the call are evaluated abstractly."""
    rr = ctx.rule(rid, "heat-map cell edges on a uniform mesh X_i = a + h*i (h of either sign): the n + 1 edges are a - h/2 + h*i, so every value sits on its own coordinate", floor=2)
    for role, src, target in (("x", sources[0], draw_args[0]), ("y", sources[1], draw_args[1])):
        env = {src: Seq(Lin({"a": 1}), Lin({"h": 1}), 0)}
        me = MeshEval(env)
        for st in fi.node.body:
            if any(n is target for n in ast.walk(st)):
                break
            if isinstance(st, ast.Expr):
                continue
            if isinstance(st, ast.Assign) and len(st.targets) == 1 and isinstance(st.targets[0], ast.Name):
                try:
                    me.env[st.targets[0].id] = me.ev(st.value)
                except AnalysisError:
                    # statements about the other axis / unrelated values: the name is simply unknown afterwards
                    me.env.pop(st.targets[0].id, None)
                continue
            if isinstance(st, (ast.If, ast.For, ast.While, ast.Try, ast.With)) and any(isinstance(n, ast.Name) and isinstance(n.ctx, ast.Store) and n.id in me.env for n in ast.walk(st)):
                raise AnalysisError("idiom changed: the heat-map edges are built under control flow in %s" % fi.qualname)
        v = me.ev(target)
        want = Seq(Lin({"a": 1, "h": Fraction(-1, 2)}), Lin({"h": 1}), 1)
        if isinstance(v, Broken):
            rr.bad(ctx.finding(rid, fi, target, "%s edges of the heat map on a uniform mesh: %s" % (role, v.why), construct="mesh-edges " + role), "edges %s" % role)
        elif isinstance(v, Seq) and v.start == want.start and v.step == want.step and v.k == 1:
            rr.ok("%s edges = a - h/2 + h*i, i = 0..n (ascending and descending meshes)" % role)
        elif isinstance(v, Seq) and v.k == 0 and v.start == Lin({"a": 1}) and v.step == Lin({"h": 1}):
            rr.ok("%s: the cell centres are passed on unchanged (the draw call places cells on centres)" % role)
        elif isinstance(v, Seq):
            if v.k == 1 and fold(v.start) == want.start and fold(v.step) == want.step:
                rr.bad(ctx.finding(rid, fi, target, "%s edges of the heat map are %s: correct only for an ascending coordinate (|h| = h); for a descending coordinate the cells are displaced by one spacing and the last cell folds back, so values are shown at other coordinates than their own" % (role, v.show()), construct="mesh-edges-descending " + role), "edges %s" % role)
            else:
                rr.bad(ctx.finding(rid, fi, target, "%s edges of the heat map on a uniform mesh are %s, expected %s: the cells are not centred on their coordinates" % (role, v.show(), want.show()), construct="mesh-edges " + role), "edges %s" % role)
        else:
            raise AnalysisError("idiom changed: %s edges of the heat map evaluate to a scalar" % role)
    return rr
