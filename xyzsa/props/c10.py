"""C10 -- killing a worker at any instant never corrupts what is later reaped."""
import ast

from ..loader import AnalysisError, norm, walk_shallow
from ..cfg import build_cfg, node_calls
from ..flow import Flow, NONE, NOTNONE, TRUE, FALSE, const, TOP
from ..util import callee_name, all_calls, arg, need, single_def, names_in
from .. import base_rules
from . import shared, c08, c11
from .shared import CROP

FARM = "xyzpy.gen.farming"
LEVEL = "other"
CLAIM = {
    "text": ("Crash points are instants between file-system operations; the static counterpart is a rule over the sequence of effects on every path. Decided: (R1) an unreadable, short or empty result is refused -- no handler around "
             "the unpickling on the Reaper's load path continues with a default, the empty check and the left-over check raise, exhaustion propagates; (R2) the harvester's / sampler's data file is never removed before its replacement exists: "
             "for every non-directory engine the final name is only ever (re)written by os.replace/os.rename from a temporary whose save completed before, and no removal of the final name is feasible; (R3) check_bad reaches the removal of a "
             "result on both the unreadable path (the load is inside a handler catching every Exception) and the wrong-length path whenever delete_bad, and reports its id; (R4) crop files are published by write-temporary, close, rename, so a "
             "kill leaves under a final name only complete files, and (R5) directory listings never count a leftover temporary -- so file existence is a sound 'this file is complete' criterion for the documented recovery. "
             "(R2 also reports moving the data file aside before its replacement is in place; R4 accepts tempfile.mkstemp writers and reports a unique name component that comes from a memoised helper.) Not decided: the global claim that recovery from every crash state converges to the exact results is a reachability property over disk states (model-checking family); these rules are its structural preconditions."),
    "note": "Trusted base: POSIX rename atomicity; a proper prefix of a pickle stream never unpickles (no STOP opcode); xarray/pandas writers write the whole object to the given path before returning. The zarr (directory store) branch of Harvester.save_full_ds is a listed known finding.",
    "technique": "static analysis: effect-sequence rules over CFGs with exception edges, partitioned by engine valuation; handler reachability; who-may-write / listing-filter rules",
}
EXPLANATION = "Effect-order rules (REMOVE / SAVE / REPLACE) on the harvester and sampler save paths per engine valuation; handler reachability on the load path and in check_bad; the C11 publication rule and the C08 listing rule re-used where a kill makes them necessary."
ASSUMPTIONS = ["rename within a directory is atomic; a killed process leaves at most its private temporary behind",
               "a truncated pickle raises on load (hand-checked: 0 of 2759 prefixes of a sample result load)"]
NOT_DECIDED = ["the global claim 'from every crash state the documented recovery reaches the exact results' (reachability over disk states; model-checking family)",
               "(L) atomicity of rename on network file systems"]

REMOVE = {"os.remove", "os.unlink", "shutil.rmtree", "?.unlink"}
RENAME = {"os.replace", "os.rename"}


def durable_copy_rule(ctx, rid):
    rr = ctx.rule(rid, "the only durable copy of harvested / sampled data is never removed before its replacement exists", floor=4)
    prog = ctx.prog
    cases = [
        (FARM + ".Harvester.save_full_ds", "xyzpy.manage.save_ds", [("h5netcdf", "single file"), ("joblib", "single file"), ("netcdf4", "single file"), ("zarr", "directory store")]),
        (FARM + ".Sampler.save_full_df", "xyzpy.manage.save_df", [("pickle", "single file"), ("csv", "single file")]),
    ]
    work = []
    for q, saver, engines in cases:
        entry = prog.need_func(q)
        # the save may live in a private helper of the same class: analyse the function(s) that contain the saver call; a removal
        # anywhere else in the slice is judged there as well
        sl = [entry] + [h for h in ctx.res.slice([entry]) if h.cls is entry.cls and h is not entry and h.name.startswith("_")]
        with_save = [h for h in sl if any(nm == saver for _, _, nm in all_calls(ctx, h))]
        with_rem = [h for h in sl if h not in with_save and any(nm in REMOVE or nm in RENAME for _, _, nm in all_calls(ctx, h))]
        need(with_save, "anchor lost: %s (and its helpers) never call %s" % (q, saver))
        from ..util import callee_func
        ge = build_cfg(entry.node)
        for h in with_save + with_rem:
            engs = engines
            if h is not entry:
                # a helper is judged for the engines under which the entry point reaches it (the engine dispatch stays in the caller)
                sites = [(n_, c_) for n_ in ge.nodes for c_ in node_calls(n_) if callee_func(ctx, entry, c_) is h]
                if not sites:
                    raise AnalysisError("idiom changed: %s writes / removes the data in %s, which %s does not call directly" % (q, h.name, entry.name))
                engs = []
                for eng, kind in engines:
                    fl_e = Flow(ge, {"engine": const(eng), "self.engine": const(eng)}).run()
                    if any(n_.id in fl_e.visited for n_, _ in sites):
                        engs.append((eng, kind))
            work.append((h, saver, engs, h in with_save))
    for f, saver, engines, has_save in work:
        g = build_cfg(f.node)
        ctx.touch(f, g)
        for eng, kind in engines:
            p_new = [p for p in f.positional if p.startswith("new_full")]
            for newv, newtxt in (((NOTNONE, "new data"), (NONE, "re-save")) if p_new else ((None, "any"),)):
                init = {"engine": const(eng), "self.engine": const(eng)}
                if p_new:
                    init[p_new[0]] = newv
                fl = Flow(g, init).run()
                vis = fl.visited
                # the engine must still be known where the function branches on it (it is lost when it is re-bound from a helper's result)
                from ..flow import is_const
                for tn_ in g.nodes:
                    if tn_.kind == "test" and tn_.id in vis and any(isinstance(x_, ast.Name) and x_.id == "engine" for x_ in ast.walk(tn_.ast)):
                        env_ = fl.IN.get(tn_.id)
                        ev_ = env_.get("engine") if env_ is not None and hasattr(env_, "get") else None
                        if ev_ is None or not is_const(ev_):
                            raise AnalysisError("idiom changed: %s branches on `engine` (`%s`) after re-binding it from something the analysis does not follow" % (f.qualname, norm(tn_.ast)[:40]))
                calls = [(n, c, nm) for n, c, nm in all_calls(ctx, f, g) if n.id in vis]
                saves = [(n, c) for n, c, nm in calls if nm == saver]
                rems = [(n, c) for n, c, nm in calls if nm in REMOVE]
                rens = [(n, c) for n, c, nm in calls if nm in RENAME]
                tag = "%s engine=%s (%s), %s" % (f.name, eng, kind, newtxt)
                if not saves and has_save:
                    from ..util import callee_func as _cf10
                    for n_, c_, nm_ in calls:
                        h_ = _cf10(ctx, f, c_)
                        if h_ is not None and hasattr(h_, "node") and h_ is not f and any(nm2 == saver for _, _, nm2 in all_calls(ctx, h_)):
                            raise AnalysisError("idiom changed: %s leaves the write to its helper `%s` (%s), which the per-engine path analysis does not read through" % (f.qualname, h_.name, tag))
                    rr.bad(ctx.finding(rid, f, f.node, "%s: nothing is saved" % tag, construct="no-save " + eng, path=tag), tag)
                    continue
                finals = set()
                problem = False
                for n, c in rems:
                    tgt = norm(c.args[0]) if c.args else "?"
                    # removing the private temporary is fine; anything else is the data file
                    tmp_names = {norm(arg(sc, 1)) for _, sc in saves if arg(sc, 1) is not None and any(norm(arg(rc, 0)) == norm(arg(sc, 1)) for _, rc in rens)}
                    if tgt in tmp_names:
                        continue
                    problem = True
                    rr.bad(ctx.finding(rid, f, c, "%s: `%s` removes the on-disk data before its replacement is in place: a kill (or a failing save) right after it loses everything harvested so far" % (tag, norm(c)[:50]),
                                       construct="remove-before-replace %s" % ("zarr" if eng == "zarr" else "file"), path=tag), tag)
                # moving the data file itself aside (backup) also leaves a window without any file under its name
                tmp_srcs = {norm(arg(sc, 1)) for _, sc in saves if arg(sc, 1) is not None}
                final_names = {norm(arg(rc, 1)) for _, rc in rens if arg(rc, 0) is not None and norm(arg(rc, 0)) in tmp_srcs and arg(rc, 1) is not None}
                for rn, rc in rens:
                    srcn = norm(arg(rc, 0)) if arg(rc, 0) is not None else "?"
                    if srcn not in tmp_srcs and srcn in final_names:
                        problem = True
                        rr.bad(ctx.finding(rid, f, rc, "%s: `%s` moves the data file away from its name before the replacement is renamed into place: a kill between the two renames leaves no file under the data name, "
                                           "the next session starts from nothing and overwrites" % (tag, norm(rc)[:60]), construct="rename-away %s" % ("zarr" if eng == "zarr" else "file"), path=tag), tag)
                if problem:
                    continue
                ok = True
                for sn, sc in saves:
                    tgt = arg(sc, 1)
                    moved = [(rn, rc) for rn, rc in rens if arg(rc, 0) is not None and tgt is not None and norm(arg(rc, 0)) == norm(tgt)]
                    if not moved:
                        rr.bad(ctx.finding(rid, f, sc, "%s: the data is written directly onto `%s`: the writer truncates the existing file first, so a kill during the write loses the earlier data" % (tag, norm(tgt) if tgt else "?"),
                                           construct="save-in-place %s" % ("zarr" if eng == "zarr" else "file"), path=tag), tag)
                        ok = False
                        continue
                    rn, rc = moved[0]
                    if not g.completes_before(sn.id, rn.id, feasible=fl.feasible):
                        rr.bad(ctx.finding(rid, f, rc, "%s: the rename can run before the temporary was completely written" % tag, construct="rename-before-save", path=tag), tag)
                        ok = False
                    elif not g.completes_before(rn.id, g.exit.id, feasible=fl.feasible):
                        rr.bad(ctx.finding(rid, f, rc, "%s: a normal exit is reachable without the rename" % tag, construct="exit-without-rename", path=tag), tag)
                        ok = False
                if ok:
                    rr.ok("%s: save to a temporary, then rename onto the data name; nothing removed" % tag)
    return rr


def _parents_of(n):
    p = getattr(n, "_parent", None)
    while p is not None:
        yield p
        p = getattr(p, "_parent", None)


def check_bad_rule(ctx, rid):
    rr = ctx.rule(rid, "check_bad removes unreadable and wrong-length results (when delete_bad) and reports them", floor=3)
    f = ctx.prog.need_func(CROP + ".Crop.check_bad")
    g = build_cfg(f.node)
    ctx.touch(f, g)
    def _in_try(c):
        p_ = getattr(c, "_parent", None)
        child = c
        while p_ is not None and p_ is not f.node:
            if isinstance(p_, ast.Try) and any(child is b for b in p_.body):
                return True
            child, p_ = p_, getattr(p_, "_parent", None)
        return False
    all_loads = [(n, c) for n, c, nm in all_calls(ctx, f, g) if nm == CROP + ".read_from_disk"]
    loads = [(n, c) for n, c in all_loads if _in_try(c)] or [(n, c) for n, c in all_loads if "result" in norm(c)]
    need(len(loads) == 1, "anchor lost: check_bad result load")
    ln, lc = loads[0]
    others = [(n, c) for n, c in all_loads if c is not lc]
    need(len(others) == 1, "anchor lost: check_bad batch load")
    def _target(n_):
        return n_.ast.targets[0].id if n_.kind == "stmt" and isinstance(n_.ast, ast.Assign) and isinstance(n_.ast.targets[0], ast.Name) else None
    RESULT, BATCH = _target(ln), _target(others[0][0])
    need(RESULT and BATCH, "idiom changed: check_bad does not bind the loaded result / batch to names")
    RFILE = norm(lc.args[0]) if lc.args else "?"
    # the load's failure is caught by a catch-all handler
    exc_t = [b for b, l in g.succ[ln.id] if l == "exc"]
    handlers = [g.nodes[h] for t in exc_t for h, l2 in g.succ[t] if g.nodes[t].kind == "dispatch" for h in [h] if g.nodes[h].kind == "except"]
    broad = [h for h in handlers if h.ast.type is None or (isinstance(h.ast.type, ast.Name) and h.ast.type.id in ("Exception", "BaseException"))]
    if not broad:
        rr.bad(ctx.finding(rid, f, lc, "a result that fails to load is not caught by a broad handler in check_bad: the recovery tool itself crashes on the file it is meant to discard", construct="check-bad-load-uncaught"), "unreadable caught")
        return rr
    rr.ok("check_bad: the result load sits in a handler catching every Exception")
    rem = [(n, c) for n, c, nm in all_calls(ctx, f, g) if nm in ("os.remove", "os.unlink") and c.args and norm(c.args[0]) == RFILE]
    if not rem and not [1 for n, c, nm in all_calls(ctx, f, g) if nm in ("os.remove", "os.unlink", "shutil.move", "os.rename", "os.replace", "?.unlink")]:
        rr.bad(ctx.finding(rid, f, f.node, "check_bad never removes a bad result (delete_bad has no effect): an unreadable or short result keeps counting as finished, grow_missing skips it and every later reap fails on it", construct="check-bad-no-removal"), "removal exists")
        return rr
    need(rem, "anchor lost: check_bad removal")
    rn, rc = rem[0]
    # reachable from the handler (unreadable) and from the normal load (wrong length), under delete_bad
    fl = Flow(g, {"delete_bad": TRUE}).run()
    from_handler = any(rn.id in g.reachable(start=h.id, feasible=fl.feasible) for h in broad)
    normal_succ = [b for b, l in g.succ[ln.id] if l != "exc"]
    from_normal = any(rn.id in g.reachable(start=b, feasible=fl.feasible) for b in normal_succ)
    lens = [t for t in g.nodes if t.kind == "test" and "len(%s)" % RESULT in norm(t.ast) and "len(%s)" % BATCH in norm(t.ast)]
    if from_handler and from_normal and lens:
        rr.ok("check_bad: os.remove(result) reachable on the unreadable path and on the wrong-length path when delete_bad")
    else:
        rr.bad(ctx.finding(rid, f, rc, "check_bad does not reach the removal on %s" % ("the unreadable path" if not from_handler else "the wrong-length path"), construct="check-bad-removal-path"), "removal reachable")
    # the decision: bad iff unreadable or of another length than its batch
    from ..util import IntEval
    dec = [t for t in lens]
    if dec:
        t_ = dec[0]
        flag = sorted({x.id for x in ast.walk(t_.ast) if isinstance(x, ast.Name)} - {RESULT, BATCH, "len"})
        # which branch of the decision leads to the removal?
        heads = [n_.id for n_ in g.nodes if n_.kind == "for"]
        to_rm = {}
        for b_, l_ in g.succ[t_.id]:
            if l_ in ("t", "f"):
                to_rm[l_] = rn.id == b_ or rn.id in g.reachable(start=b_, blocked_nodes=heads, feasible=fl.feasible)
        if to_rm.get("t") != to_rm.get("f"):
            bad_when = True if to_rm.get("t") else False
            # the statements of one loop iteration up to the decision, interpreted by the analyser in two scenarios: the result
            # load succeeds (try body completes) or fails (statements of the try body before the load, then the handler)
            loop_ = None
            for p_ in _parents_of(t_.ast):
                if isinstance(p_, ast.For):
                    loop_ = p_
                    break
            need(loop_ is not None, "idiom changed: the check_bad decision is not inside the loop over the result files")
            OPAQUE = object

            def scenario(unread, l1, l2):
                st = {}

                def on_call(c_, ev_, st_):
                    if norm(c_.func) == "len" and len(c_.args) == 1:
                        return l1 if norm(c_.args[0]) == RESULT else l2 if norm(c_.args[0]) == BATCH else NotImplemented
                    return NotImplemented
                ev = IntEval({}, on_call)

                def assign(stmt):
                    try:
                        v = ev.ev(stmt.value, st)
                    except (AnalysisError, KeyError, IndexError, TypeError):
                        v = OPAQUE()
                    for t in stmt.targets:
                        if isinstance(t, ast.Name):
                            st[t.id] = v

                def run(stmts):
                    for s_ in stmts:
                        if any(x is t_.ast for x in ast.walk(s_)) and not isinstance(s_, ast.Try):
                            return "decision"
                        if isinstance(s_, ast.Assign):
                            assign(s_)
                        elif isinstance(s_, ast.Try):
                            has_load = any(x is lc for x in ast.walk(ast.Module(body=s_.body, type_ignores=[])))
                            if has_load and unread:
                                for b_ in s_.body:
                                    if any(x is lc for x in ast.walk(b_)):
                                        break
                                    if isinstance(b_, ast.Assign):
                                        assign(b_)
                                h = s_.handlers[0]
                                if h.name:
                                    st[h.name] = "<the exception>"
                                r = run(h.body)
                            else:
                                r = run(s_.body)
                                if r is None:
                                    r = run(s_.orelse)
                            if r is None:
                                r = run(s_.finalbody)
                            if r is not None:
                                return r
                        elif isinstance(s_, ast.If):
                            try:
                                tv = bool(ev.ev(s_.test, st))
                            except (AnalysisError, KeyError, TypeError):
                                raise AnalysisError("idiom changed: a test before the check_bad decision cannot be evaluated: `%s`" % norm(s_.test)[:60])
                            r = run(s_.body if tv else s_.orelse)
                            if r is not None:
                                return r
                        elif isinstance(s_, (ast.Expr, ast.Pass, ast.AugAssign)):
                            continue
                        elif isinstance(s_, (ast.Continue, ast.Break, ast.Return, ast.Raise)):
                            return "left"
                        else:
                            raise AnalysisError("idiom changed: statement before the check_bad decision: `%s`" % norm(s_)[:60])
                    return None
                r = run(loop_.body)
                if r != "decision":
                    return None
                if unread and RESULT in st:
                    pass
                if unread:
                    st.pop(RESULT, None)           # the load never bound it
                try:
                    return bool(ev.ev(t_.ast, st))
                except KeyError:
                    return "unbound"
                except (AnalysisError, TypeError):
                    # `len(result)` of an unbound name is only reached if the flag did not short-circuit
                    return "unbound" if unread else None
            wrong, evaluated = [], 0
            for unread in (True, False):
                for l1, l2 in ((2, 2), (1, 2)):
                    tv_ = scenario(unread, l1, l2)
                    if tv_ is None:
                        continue
                    evaluated += 1
                    if tv_ == "unbound":
                        wrong.append((unread, l1, l2, "raises on the unbound result"))
                    elif (tv_ == bad_when) != (unread or l1 != l2):
                        wrong.append((unread, l1, l2, "treats it as bad" if tv_ == bad_when else "treats it as good"))
            if evaluated < 4:
                raise AnalysisError("idiom changed: the check_bad decision `%s` could be evaluated in %d of 4 scenarios only" % (norm(t_.ast)[:60], evaluated))
            if wrong:
                unread, l1, l2, got = wrong[0]
                rr.bad(ctx.finding(rid, f, t_.ast, "check_bad decides `%s`: for a result that is %s with %d entries for a batch of %d it %s (expected: bad iff unreadable or of the wrong length): bad results are kept or good ones deleted" % (
                    norm(t_.ast), "unreadable" if unread else "readable", l1, l2, got), construct="check-bad-decision"), "check_bad decision")
            else:
                rr.ok("check_bad: a result is treated as bad iff unreadable or len(result) != len(batch) (the loop body up to the decision interpreted in the 4 scenarios readable / unreadable x equal / unequal length)")
    fl2 = Flow(g, {"delete_bad": FALSE}).run()
    if rn.id in fl2.visited:
        rr.bad(ctx.finding(rid, f, rc, "check_bad removes results although delete_bad is false", construct="check-bad-delete-false"), "delete_bad honoured")
    # the id is reported on every path that found it bad
    rets = [n for n in g.nodes if n.kind == "stmt" and isinstance(n.ast, ast.Return) and n.ast.value is not None]
    rnames = sorted(names_in(rets[0].ast.value) - {"tuple", "list", "sorted"}) if rets else []
    BAD = rnames[0] if len(rnames) == 1 else "?"
    apps = [n for n in g.nodes if n.kind == "stmt" and (BAD + ".append") in n.text()]
    if apps and rets and all(a.id in g.reachable(start=rn.id) for a in apps):
        rr.ok("check_bad reports the ids it found bad")
    else:
        rr.bad(ctx.finding(rid, f, f.node, "check_bad no longer reports the bad batch ids", construct="check-bad-report"), "ids reported")
    return rr


def run(ctx):
    shared.load_errors_propagate_rule(ctx, "C10.R1")
    durable_copy_rule(ctx, "C10.R2")
    check_bad_rule(ctx, "C10.R3")
    c11.publication_rule(ctx, "C10.R4", title="crop files are published by write-temporary, close, rename: a kill leaves only complete files under final names")
    c08.listing_rule(ctx, "C10.R5")
    prog = ctx.prog
    sl = [prog.need_func(q) for q in (FARM + ".Harvester.save_full_ds", FARM + ".Sampler.save_full_df", FARM + ".Harvester.load_full_ds", FARM + ".Sampler.load_full_df",
                                      CROP + ".Crop.check_bad", CROP + ".write_to_disk", CROP + ".read_from_disk")]
    base_rules.run_link_rules(ctx, "C10", sl)
