"""Path conditions as truth functions over named atoms.

``path_tests(fnode, node)`` collects, syntactically, the tests that hold when control reaches ``node`` inside the
function ``fnode``: for every enclosing ``if`` / conditional expression the test with the polarity of the arm the node
sits in, and for every earlier sibling ``if`` whose taken arm always leaves the block (return / raise / continue /
break) the negation of the test that leads there.  Loops and ``try`` blocks add nothing (their bodies may or may not
run); a node inside an ``except`` handler or a ``while`` test is an AnalysisError for the caller to widen.

``truth(tests, atoms, fi)`` turns such a list into a function of boolean atoms: every leaf comparison / call of the
tests must be one of the atoms given (by normalised text, with the complementary operator read as the negation; a
local name with a single definition is replaced by it), otherwise the shape is not recognised (AnalysisError).
``table(...)`` evaluates it for every valuation."""
import ast
import itertools

from .loader import AnalysisError, norm

_TERMINATORS = (ast.Return, ast.Raise, ast.Continue, ast.Break)
_COMPL = {ast.In: ast.NotIn, ast.Is: ast.IsNot, ast.Eq: ast.NotEq, ast.Lt: ast.GtE, ast.Gt: ast.LtE}
_COMPL.update({v: k for k, v in list(_COMPL.items())})


def _leaves(block):
    return bool(block) and isinstance(block[-1], _TERMINATORS)


def _leave_expr(block):
    """The condition (an expression tree, True, or None for 'never') under which control, having entered `block`, leaves the
    enclosing block through the block's last statement (return / continue / break; a raise is an error path and not
    counted).  Only the last statement is looked at: earlier statements of the block are assumed to fall through."""
    if not block:
        return None
    last = block[-1]
    if isinstance(last, (ast.Return, ast.Continue, ast.Break)):
        return True
    if isinstance(last, ast.If):
        a, b = _leave_expr(last.body), _leave_expr(last.orelse)
        parts = []
        if a is True:
            parts.append(last.test)
        elif a is not None:
            parts.append(ast.BoolOp(op=ast.And(), values=[last.test, a]))
        nt = ast.UnaryOp(op=ast.Not(), operand=last.test)
        if b is True:
            parts.append(nt)
        elif b is not None:
            parts.append(ast.BoolOp(op=ast.And(), values=[nt, b]))
        if not parts:
            return None
        if len(parts) == 2 and a is True and b is True:
            return True
        res = parts[0] if len(parts) == 1 else ast.BoolOp(op=ast.Or(), values=parts)
        for x in ast.walk(res):
            if not hasattr(x, "lineno") and isinstance(x, (ast.expr, ast.stmt)):
                ast.copy_location(x, last.test)
        return res
    return None


def path_tests(fnode, node, strict=False):
    """[(test expr, polarity)] holding whenever `node` is reached (a sound under-approximation of the path condition
    in the sense that every listed test does hold; unlisted facts are simply not used)."""
    out = []
    child, p = node, getattr(node, "_parent", None)
    while p is not None and child is not fnode:
        if isinstance(p, ast.If):
            if any(child is b for b in p.body):
                out.append((p.test, True))
            elif any(child is b for b in p.orelse):
                out.append((p.test, False))
        elif isinstance(p, ast.IfExp):
            if child is p.body:
                out.append((p.test, True))
            elif child is p.orelse:
                out.append((p.test, False))
        elif isinstance(p, ast.BoolOp):
            # short circuit: later operands of `and` are evaluated only when the earlier ones are true (of `or`: false)
            idx = [i for i, v in enumerate(p.values) if v is child]
            if idx:
                for v in p.values[:idx[0]]:
                    out.append((v, isinstance(p.op, ast.And)))
        elif isinstance(p, ast.ExceptHandler) and strict:
            # (not strict: the tests of the enclosing statements still hold inside a handler; only exact reachability is lost)
            raise AnalysisError("path condition of a statement inside an except handler")
        # earlier siblings that leave the block
        for fld in ("body", "orelse", "finalbody"):
            blk = getattr(p, fld, None)
            if isinstance(blk, list) and any(child is b for b in blk):
                for s in blk:
                    if s is child:
                        break
                    if isinstance(s, ast.If):
                        le = _leave_expr([s])
                        if le is not None and le is not True:
                            out.append((le, False))
        child, p = p, getattr(p, "_parent", None)
    return out


def _reassigned_between(fnode, name, test, node):
    """is local `name` assigned on a line strictly between the test and the node? (textual, conservative)"""
    lo, hi = getattr(test, "end_lineno", test.lineno), node.lineno
    for n in ast.walk(fnode):
        if isinstance(n, (ast.Assign, ast.AugAssign, ast.AnnAssign, ast.For)):
            tg = n.targets if isinstance(n, ast.Assign) else [n.target]
            for t in tg:
                for x in ast.walk(t):
                    if isinstance(x, ast.Name) and x.id == name and isinstance(x.ctx, ast.Store) and lo < n.lineno < hi:
                        return True
    return False


def canon(e):
    """Canonical text of a test: comprehension variables alpha-renamed, `not (a not in b)` / `not (a is not b)` /
    `not not x` simplified."""
    e = ast.parse(norm(e), mode="eval").body

    class Simp(ast.NodeTransformer):
        def visit_UnaryOp(self, n):
            self.generic_visit(n)
            if isinstance(n.op, ast.Not):
                o = n.operand
                if isinstance(o, ast.UnaryOp) and isinstance(o.op, ast.Not):
                    return o.operand
                if isinstance(o, ast.Compare) and len(o.ops) == 1 and type(o.ops[0]) in (ast.NotIn, ast.IsNot, ast.NotEq):
                    return ast.Compare(left=o.left, ops=[_COMPL[type(o.ops[0])]()], comparators=o.comparators)
            return n
    e = Simp().visit(e)
    cnt = [0]

    def rename_comp(node):
        for n in ast.walk(node):
            if isinstance(n, (ast.GeneratorExp, ast.ListComp, ast.SetComp, ast.DictComp)):
                for g in n.generators:
                    for t in ast.walk(g.target):
                        if isinstance(t, ast.Name):
                            old, new = t.id, "_c%d" % cnt[0]
                            cnt[0] += 1
                            for x in ast.walk(n):
                                if isinstance(x, ast.Name) and x.id == old:
                                    x.id = new
    rename_comp(e)
    return norm(e)


class Truth:
    """tests -> boolean function of atoms.  `atoms`: {atom name: [positive texts]} (compared in canonical form);
    `fi`: the function, used to replace a local name that has a single definition by that definition;
    `auto`: an unrecognised leaf test becomes a free atom of its own (named by its text) instead of an AnalysisError --
    `reach` then quantifies existentially over those."""

    def __init__(self, atoms, defs=None, free=(), fi=None, auto=False):
        self.atoms = atoms
        self.defs = defs or {}
        self.fi = fi
        self.auto = auto
        self.auto_atoms = []
        self.by_text = {}
        for a, texts in atoms.items():
            for t in texts:
                try:
                    self.by_text[canon(ast.parse(t, mode="eval").body)] = a
                except SyntaxError:
                    self.by_text[t] = a

    def _def_of(self, name):
        if name in self.defs:
            return self.defs[name]
        if self.fi is not None:
            from .util import single_def
            d = single_def(self.fi, name)
            if d is not None and d[1] is not None and name not in self.fi.params:
                return d[1]
        return None

    def compile(self, e, depth=0):
        """-> python callable valuation(dict) -> bool"""
        if depth > 8:
            raise AnalysisError("path condition nests too deep")
        t = canon(e)
        if t in self.by_text:
            a0 = self.by_text[t]
            return lambda val: val[a0]
        e = ast.parse(t, mode="eval").body
        if isinstance(e, ast.BoolOp):
            parts = [self.compile(v, depth + 1) for v in e.values]
            if isinstance(e.op, ast.And):
                return lambda val: all(p(val) for p in parts)
            return lambda val: any(p(val) for p in parts)
        if isinstance(e, ast.UnaryOp) and isinstance(e.op, ast.Not):
            inner = self.compile(e.operand, depth + 1)
            return lambda val: not inner(val)
        if isinstance(e, ast.Constant):
            v = bool(e.value)
            return lambda val: v
        if isinstance(e, ast.Compare) and len(e.ops) == 1 and type(e.ops[0]) in _COMPL:
            c = ast.Compare(left=e.left, ops=[_COMPL[type(e.ops[0])]()], comparators=e.comparators)
            tc = canon(c)
            if tc in self.by_text:
                a = self.by_text[tc]
                return lambda val: not val[a]
        if isinstance(e, ast.Name):
            d = self._def_of(e.id)
            if d is not None:
                return self.compile(d, depth + 1)
        if self.auto:
            # positive form of the leaf as the atom's name
            neg = False
            leaf = e
            if isinstance(e, ast.Compare) and len(e.ops) == 1 and type(e.ops[0]) in (ast.NotIn, ast.IsNot, ast.NotEq):
                leaf = ast.Compare(left=e.left, ops=[_COMPL[type(e.ops[0])]()], comparators=e.comparators)
                neg = True
            nm = "?" + canon(leaf)
            if nm not in self.auto_atoms:
                self.auto_atoms.append(nm)
            return (lambda val: not val.get(nm, False)) if neg else (lambda val: val.get(nm, False))
        raise AnalysisError("unrecognised test `%s` in a path condition (atoms: %s)" % (t[:80], sorted(self.atoms)))

    def conj(self, tests):
        fs = [(self.compile(t), pol) for t, pol in tests]
        return lambda val: all(f(val) == pol for f, pol in fs)

    def reach(self, tests):
        """valuation of the named atoms -> is the node reached for SOME valuation of the automatic atoms"""
        f = self.conj(tests)
        autos = list(self.auto_atoms)
        if len(autos) > 8:
            raise AnalysisError("path condition has too many unrecognised tests (%d)" % len(autos))

        def g(val):
            for combo in itertools.product((False, True), repeat=len(autos)):
                v = dict(val)
                v.update(zip(autos, combo))
                if f(v):
                    return True
            return False
        return g

    def table(self, tests):
        names = sorted(self.atoms)
        f = self.conj(tests)
        return {vals: f(dict(zip(names, vals))) for vals in itertools.product((False, True), repeat=len(names))}, names
