"""Path conditions as truth functions over named atoms.

``path_tests(fnode, node)`` collects, syntactically, the tests that hold when control reaches ``node`` inside the
function ``fnode``: for every enclosing ``if`` / conditional expression the test with the polarity of the arm the node
sits in, and for every earlier sibling ``if`` whose taken arm always leaves the block (return / raise / continue /
break) the negation of the test that leads there.  Loops and ``try`` blocks add nothing (their bodies may or may not
run); a node inside an ``except`` handler or a ``while`` test is an AnalysisError for the caller to widen.

``truth(tests, atoms, fi)`` turns such a list into a function of boolean atoms: every leaf comparison / call of the
tests must be one of the atoms given (by normalised text, with the complementary operator read as the negation; a
local name with a single definition is replaced by it), otherwise the shape is not recognised (AnalysisError).
``table(...)`` evaluates it for every valuation."""
import ast
import itertools

from .loader import AnalysisError, norm

_TERMINATORS = (ast.Return, ast.Raise, ast.Continue, ast.Break)
_COMPL = {ast.In: ast.NotIn, ast.Is: ast.IsNot, ast.Eq: ast.NotEq, ast.Lt: ast.GtE, ast.Gt: ast.LtE}
_COMPL.update({v: k for k, v in list(_COMPL.items())})


def _leaves(block):
    return bool(block) and isinstance(block[-1], _TERMINATORS)


def path_tests(fnode, node, strict=False):
    """[(test expr, polarity)] holding whenever `node` is reached (a sound under-approximation of the path condition
    in the sense that every listed test does hold; unlisted facts are simply not used)."""
    out = []
    child, p = node, getattr(node, "_parent", None)
    while p is not None and child is not fnode:
        if isinstance(p, ast.If):
            if any(child is b for b in p.body):
                out.append((p.test, True))
            elif any(child is b for b in p.orelse):
                out.append((p.test, False))
        elif isinstance(p, ast.IfExp):
            if child is p.body:
                out.append((p.test, True))
            elif child is p.orelse:
                out.append((p.test, False))
        elif isinstance(p, ast.BoolOp):
            # short circuit: later operands of `and` are evaluated only when the earlier ones are true (of `or`: false)
            idx = [i for i, v in enumerate(p.values) if v is child]
            if idx:
                for v in p.values[:idx[0]]:
                    out.append((v, isinstance(p.op, ast.And)))
        elif isinstance(p, ast.ExceptHandler) and strict:
            # (not strict: the tests of the enclosing statements still hold inside a handler; only exact reachability is lost)
            raise AnalysisError("path condition of a statement inside an except handler")
        # earlier siblings that leave the block
        for fld in ("body", "orelse", "finalbody"):
            blk = getattr(p, fld, None)
            if isinstance(blk, list) and any(child is b for b in blk):
                for s in blk:
                    if s is child:
                        break
                    if isinstance(s, ast.If):
                        if s.body and isinstance(s.body[-1], ast.Raise) and not s.orelse:
                            continue      # an argument check: the error path is not a behaviour the rules constrain
                        if _leaves(s.body) and not _leaves(s.orelse):
                            out.append((s.test, False))
                        elif _leaves(s.orelse) and not _leaves(s.body):
                            out.append((s.test, True))
        child, p = p, getattr(p, "_parent", None)
    return out


def _reassigned_between(fnode, name, test, node):
    """is local `name` assigned on a line strictly between the test and the node? (textual, conservative)"""
    lo, hi = getattr(test, "end_lineno", test.lineno), node.lineno
    for n in ast.walk(fnode):
        if isinstance(n, (ast.Assign, ast.AugAssign, ast.AnnAssign, ast.For)):
            tg = n.targets if isinstance(n, ast.Assign) else [n.target]
            for t in tg:
                for x in ast.walk(t):
                    if isinstance(x, ast.Name) and x.id == name and isinstance(x.ctx, ast.Store) and lo < n.lineno < hi:
                        return True
    return False


class Truth:
    """tests -> boolean function of atoms.  `atoms`: {atom name: [normalised positive texts]}; `wrong`: {text: message}
    shapes that are recognised as wrong outright (reported by the caller through .wrong_hits)."""

    def __init__(self, atoms, defs=None, free=()):
        self.atoms = atoms
        self.defs = defs or {}      # local name -> defining expr (single definition), expanded inside tests
        self.free = set(free)       # atom names a test may mention without being constrained (always allowed)
        self.by_text = {}
        for a, texts in atoms.items():
            for t in texts:
                self.by_text[t] = a

    def compile(self, e, depth=0):
        """-> python callable valuation(dict) -> bool"""
        if depth > 6:
            raise AnalysisError("path condition nests too deep")
        if norm(e) in self.by_text:
            a0 = self.by_text[norm(e)]
            return lambda val: val[a0]
        if isinstance(e, ast.BoolOp):
            parts = [self.compile(v, depth + 1) for v in e.values]
            if isinstance(e.op, ast.And):
                return lambda val: all(p(val) for p in parts)
            return lambda val: any(p(val) for p in parts)
        if isinstance(e, ast.UnaryOp) and isinstance(e.op, ast.Not):
            inner = self.compile(e.operand, depth + 1)
            return lambda val: not inner(val)
        if isinstance(e, ast.Constant):
            v = bool(e.value)
            return lambda val: v
        t = norm(e)
        if t in self.by_text:
            a = self.by_text[t]
            return lambda val: val[a]
        if isinstance(e, ast.Compare) and len(e.ops) == 1 and type(e.ops[0]) in _COMPL:
            c = ast.Compare(left=e.left, ops=[_COMPL[type(e.ops[0])]()], comparators=e.comparators)
            tc = norm(c)
            if tc in self.by_text:
                a = self.by_text[tc]
                return lambda val: not val[a]
        if isinstance(e, ast.Name) and e.id in self.defs:
            return self.compile(self.defs[e.id], depth + 1)
        raise AnalysisError("unrecognised test `%s` in a path condition (atoms: %s)" % (t[:80], sorted(self.atoms)))

    def conj(self, tests):
        fs = [(self.compile(t), pol) for t, pol in tests]
        return lambda val: all(f(val) == pol for f, pol in fs)

    def table(self, tests):
        names = sorted(self.atoms)
        f = self.conj(tests)
        return {vals: f(dict(zip(names, vals))) for vals in itertools.product((False, True), repeat=len(names))}, names
