"""Normal form, part 2: helpers the rules cannot know are read through.

The rules name the functions of the package they were written against (the
frozen list known_functions.json, taken from the tree the rules were confirmed
on).  A function that is *not* in that list was introduced later -- typically
by an "extract helper" refactoring -- and no rule can refer to it.  When such a
function is a straight line of plain statements (optionally ending in one
`return`), a call of it is replaced, in the analysis' own copy of the syntax
tree, by its body with the actuals bound to the parameters:

* statement level: `helper(a, b)`, `x = helper(a, b)`, `return helper(a, b)`
  become the helper's statements (locals renamed apart, non-trivial actuals
  bound to fresh temporaries first, so evaluation order is kept), followed by
  `x = <returned expression>` / `return <returned expression>`;
* expression level: a call of a helper that is one `return <expr>` (after
  folding its single-use temporaries) is replaced by that expression when every
  actual is a plain read (name, constant, attribute / subscript chain) or is
  used at most once.

Nothing else is touched: helpers with control flow, generators, star-arguments,
recursion, names that would be captured, functions in the frozen list.  The
definitions themselves stay in the tree.  The transformation is behaviour
preserving by construction (for the expression level: up to the order in which
side-effect-free sub-expressions are evaluated); it exists so that a rule reads
the same statements whether or not they were moved into a helper.
"""
import ast
import json
import os

_KNOWN = None


def known_functions():
    global _KNOWN
    if _KNOWN is None:
        p = os.path.join(os.path.dirname(__file__), "known_functions.json")
        try:
            with open(p) as f:
                _KNOWN = set(json.load(f)["functions"])
        except (OSError, ValueError, KeyError):
            _KNOWN = False
    return _KNOWN


def qualnames(tree, modname):
    """{qualname: FunctionDef} for module-level functions, methods and closures (any depth)."""
    out = {}

    def walk(body, prefix):
        for st in body:
            if isinstance(st, (ast.FunctionDef, ast.AsyncFunctionDef)):
                q = prefix + "." + st.name
                out[q] = st
                walk(st.body, q)
            elif isinstance(st, ast.ClassDef):
                walk(st.body, prefix + "." + st.name)
            elif isinstance(st, (ast.If, ast.Try, ast.With, ast.For, ast.While)):
                for fld in ("body", "orelse", "finalbody"):
                    walk(getattr(st, fld, []) or [], prefix)
                for h in getattr(st, "handlers", []) or []:
                    walk(h.body, prefix)
    walk(tree.body, modname)
    return out


def _copy(n):
    ast.fix_missing_locations(n) if hasattr(n, "lineno") else [setattr(n, a_, 1 if "lineno" in a_ else 0) for a_ in ("lineno", "col_offset", "end_lineno", "end_col_offset")] and ast.fix_missing_locations(n)
    if isinstance(n, ast.stmt):
        return ast.parse(ast.unparse(n)).body[0]
    return ast.parse(ast.unparse(n), mode="eval").body


def _stored_names(nodes):
    s = set()
    for n in nodes:
        for x in ast.walk(n):
            if isinstance(x, ast.Name) and isinstance(x.ctx, (ast.Store, ast.Del)):
                s.add(x.id)
            elif isinstance(x, (ast.FunctionDef, ast.AsyncFunctionDef, ast.ClassDef)):
                s.add(x.name)
            elif isinstance(x, ast.alias):
                s.add((x.asname or x.name).split(".")[0])
            elif isinstance(x, ast.ExceptHandler) and x.name:
                s.add(x.name)
    return s


def _params(fn):
    """(positional parameter names, keyword-only names incl. the *args name, which is bound to a tuple display of the
    surplus positional actuals)"""
    a = fn.args
    return [x.arg for x in a.posonlyargs + a.args], [x.arg for x in a.kwonlyargs] + ([a.vararg.arg] if a.vararg else []) + ([a.kwarg.arg] if a.kwarg else [])


def _func_locals(fn):
    a = fn.args
    names = {x.arg for x in a.posonlyargs + a.args + a.kwonlyargs}
    if a.vararg:
        names.add(a.vararg.arg)
    if a.kwarg:
        names.add(a.kwarg.arg)
    return names | _stored_names(fn.body)


_PLAIN = (ast.Name, ast.Constant)


def _is_plain_read(e):
    """a read of names / attributes / items and arithmetic on them: nothing that could have an effect"""
    if isinstance(e, _PLAIN):
        return True
    if isinstance(e, ast.Attribute):
        return _is_plain_read(e.value)
    if isinstance(e, ast.Subscript):
        return _is_plain_read(e.value) and _is_plain_read(e.slice)
    if isinstance(e, ast.UnaryOp):
        return _is_plain_read(e.operand)
    if isinstance(e, ast.BinOp):
        return _is_plain_read(e.left) and _is_plain_read(e.right)
    if isinstance(e, ast.Compare):
        return _is_plain_read(e.left) and all(_is_plain_read(x) for x in e.comparators)
    if isinstance(e, ast.BoolOp):
        return all(_is_plain_read(x) for x in e.values)
    if isinstance(e, (ast.Tuple, ast.List)):
        return all(_is_plain_read(x) for x in e.elts)
    return False


_PURE_NAMES = {"int", "float", "str", "len", "max", "min", "abs", "round", "tuple", "list", "dict", "set", "sorted", "bool", "isinstance", "range", "zip",
               "enumerate", "sum", "any", "all", "repr", "getattr", "hasattr", "type", "divmod", "frozenset", "reversed", "callable"}
_PURE_ATTRS = {"format", "join", "startswith", "endswith", "split", "rsplit", "partition", "rpartition", "get", "keys", "values", "items", "lower", "upper",
               "strip", "lstrip", "rstrip", "replace", "splitext", "basename", "dirname", "abspath", "expanduser", "isfile", "exists", "isdir", "count", "index",
               "escape", "relpath", "normpath", "copy"}


def _is_pure(e):
    """no sub-expression that could have an effect: plain reads and calls of a fixed list of side-effect-free library functions"""
    for x in ast.walk(e):
        if isinstance(x, ast.Call):
            f = x.func
            if isinstance(f, ast.Name) and f.id in _PURE_NAMES:
                continue
            if isinstance(f, ast.Attribute) and f.attr in _PURE_ATTRS:
                continue
            return False
        if isinstance(x, (ast.Yield, ast.YieldFrom, ast.Await, ast.NamedExpr, ast.Lambda, ast.ListComp, ast.SetComp, ast.DictComp, ast.GeneratorExp)):
            return False
    return True


class _Rename(ast.NodeTransformer):
    def __init__(self, names, subst):
        self.names = names        # local name -> new name
        self.subst = subst        # param -> expression node (copied at each use)

    def visit_Name(self, n):
        if n.id in self.subst and isinstance(n.ctx, ast.Load):
            return _copy(self.subst[n.id])
        if n.id in self.names:
            return ast.copy_location(ast.Name(id=self.names[n.id], ctx=n.ctx), n)
        return n

    def visit_Call(self, n):
        self.generic_visit(n)
        # f(a, *(x, y)) is f(a, x, y)
        args = []
        for a in n.args:
            if isinstance(a, ast.Starred) and isinstance(a.value, (ast.Tuple, ast.List)) and not any(isinstance(e, ast.Starred) for e in a.value.elts):
                args.extend(a.value.elts)
            else:
                args.append(a)
        n.args = args
        # f(**{'a': x, 'b': y}) is f(a=x, b=y)
        kws = []
        for k in n.keywords:
            if k.arg is None and isinstance(k.value, ast.Dict) and all(isinstance(kk, ast.Constant) and isinstance(kk.value, str) and kk.value.isidentifier() for kk in k.value.keys):
                kws.extend(ast.keyword(arg=kk.value, value=vv) for kk, vv in zip(k.value.keys, k.value.values))
            else:
                kws.append(k)
        n.keywords = kws
        return n

    def visit_JoinedStr(self, n):
        self.generic_visit(n)
        # f"{'e'}" is 'e': a constant substituted into an f-string (typically a format spec given as an argument) becomes text
        vals = []
        for v in n.values:
            if isinstance(v, ast.FormattedValue) and v.conversion == -1 and v.format_spec is None and isinstance(v.value, ast.Constant) \
                    and isinstance(v.value.value, (str, int)) and not isinstance(v.value.value, bool):
                v = ast.Constant(value=str(v.value.value))
            if isinstance(v, ast.Constant) and vals and isinstance(vals[-1], ast.Constant):
                vals[-1] = ast.Constant(value=vals[-1].value + v.value)
            else:
                vals.append(v)
        n.values = vals
        return n

    def visit_arg(self, n):
        # lambda parameters that shadow: handled by refusing such helpers (see _straight_line)
        return n


def _body_of(fn):
    body = list(fn.body)
    if body and isinstance(body[0], ast.Expr) and isinstance(body[0].value, ast.Constant) and isinstance(body[0].value.value, str):
        body = body[1:]
    return body


def _straight_line(fn):
    """(statements, return expr | None) if the helper is a straight line of plain statements, else None"""
    if isinstance(fn, ast.AsyncFunctionDef) or fn.decorator_list:
        return None
    body = _body_of(fn)
    if not body:
        return None
    ret = None
    if isinstance(body[-1], ast.Return):
        ret = body[-1].value if body[-1].value is not None else ast.Constant(None)
        body = body[:-1]
    for st in body:
        if not isinstance(st, (ast.Assign, ast.AugAssign, ast.Expr)):
            return None
    for st in body + ([ast.Expr(ret)] if ret is not None else []):
        for x in ast.walk(st):
            if isinstance(x, (ast.Yield, ast.YieldFrom, ast.Await, ast.Lambda, ast.NamedExpr, ast.FunctionDef, ast.ClassDef, ast.Global, ast.Nonlocal)):
                return None
            if isinstance(x, ast.Call) and isinstance(x.func, ast.Name) and x.func.id in ("locals", "vars", "globals", "super", "eval", "exec"):
                return None
            if isinstance(x, ast.Name) and x.id == fn.name:
                return None           # recursion
    return body, ret


class _NotStructured(Exception):
    pass


_RES = "__result__"
_SIMPLE = (ast.Assign, ast.AugAssign, ast.Expr, ast.Pass, ast.Raise, ast.Assert, ast.Delete, ast.Break, ast.Continue)


def _has_return(node):
    return any(isinstance(x, ast.Return) for x in ast.walk(node))


def _falls(stmts):
    """can the statement list complete normally (reach its end without `return` / `raise`)?  syntactic, conservative"""
    if not stmts:
        return True
    last = stmts[-1]
    if isinstance(last, (ast.Return, ast.Raise)):
        return False
    if isinstance(last, ast.If):
        return _falls(last.body) or _falls(last.orelse)
    return True


def _conv(stmts, cont):
    """`stmts` followed by `cont` (what runs when `stmts` completes without returning), with every `return v` replaced by
    `__result__ = v`; what follows a returning `if` is moved into the one arm that can fall through.  Nothing is
    duplicated: an `if` with returns in it whose two arms can both fall through into a non-empty continuation, or a
    `return` inside a loop / with / try, raises _NotStructured."""
    out = []
    for i, st in enumerate(stmts):
        if isinstance(st, ast.Return):
            out.append(ast.Assign(targets=[ast.Name(id=_RES, ctx=ast.Store())], value=st.value if st.value is not None else ast.Constant(None)))
            return out
        if isinstance(st, ast.If) and _has_return(st):
            k = _conv(stmts[i + 1:], cont)
            if k and _falls(st.body) and _falls(st.orelse):
                raise _NotStructured()
            out.append(ast.If(test=st.test, body=_conv(st.body, k if _falls(st.body) else []) or [ast.Pass()], orelse=_conv(st.orelse, k if _falls(st.orelse) else [])))
            return out
        if _has_return(st):
            raise _NotStructured()
        out.append(st)
    return out + cont


def _structured(fn):
    """(statements, returned expression | None) for a helper whose control flow is structured: plain statements, loops,
    `with`, `try`, and `if`s whose `return`s are in tail position (guard style).  None for anything else."""
    sl = _straight_line(fn)
    if sl is not None:
        return sl
    if isinstance(fn, ast.AsyncFunctionDef) or fn.decorator_list:
        return None
    body = _body_of(fn)
    if not body:
        return None
    for x in ast.walk(ast.Module(body=body, type_ignores=[])):
        if isinstance(x, (ast.Yield, ast.YieldFrom, ast.Await, ast.Lambda, ast.NamedExpr, ast.FunctionDef, ast.AsyncFunctionDef, ast.ClassDef, ast.Global, ast.Nonlocal,
                          ast.Import, ast.ImportFrom, ast.Match, ast.AsyncFor, ast.AsyncWith, ast.TryStar)):
            return None
        if isinstance(x, ast.stmt) and not isinstance(x, _SIMPLE + (ast.Return, ast.If, ast.For, ast.While, ast.With, ast.Try)):
            return None
        if isinstance(x, ast.ExceptHandler) and x.name:
            return None
        if isinstance(x, ast.Call) and isinstance(x.func, ast.Name) and x.func.id in ("locals", "vars", "globals", "super", "eval", "exec"):
            return None
        if isinstance(x, ast.Name) and x.id in (fn.name, _RES):
            return None
    try:
        # work on a copy: the definition itself stays as written
        body = [_copy(st) for st in body]
        stmts = _conv(body, [])
    except _NotStructured:
        return None
    if not any(isinstance(x, ast.Name) and x.id == _RES for st in stmts for x in ast.walk(st)):
        return stmts, None
    if _falls(body):
        stmts = [ast.Assign(targets=[ast.Name(id=_RES, ctx=ast.Store())], value=ast.Constant(None))] + stmts
    return stmts, ast.Name(id=_RES, ctx=ast.Load())


class _Site:
    counter = 0


def _bind(fn, call, is_method, caller_locals):
    """param -> actual expression, or None when the call cannot be bound statically"""
    if any(isinstance(a, ast.Starred) for a in call.args) or any(k.arg is None for k in call.keywords):
        return None
    pos, kwo = _params(fn)
    if is_method:
        if not pos or pos[0] != "self":
            return None
        pos = pos[1:]
    m = {}
    if len(call.args) > len(pos):
        if not fn.args.vararg:
            return None
        m[fn.args.vararg.arg] = ast.Tuple(elts=list(call.args[len(pos):]), ctx=ast.Load())
    elif fn.args.vararg:
        m[fn.args.vararg.arg] = ast.Tuple(elts=[], ctx=ast.Load())
    for p, a in zip(pos, call.args):
        m[p] = a
    surplus = []
    special = {x.arg for x in (fn.args.vararg, fn.args.kwarg) if x is not None}
    for k in call.keywords:
        if k.arg in m:
            return None
        if k.arg not in pos + kwo or k.arg in special:
            if not fn.args.kwarg:
                return None
            surplus.append(k)
            continue
        m[k.arg] = k.value
    if fn.args.kwarg:
        # **kw of the helper: a dict display of the surplus keyword actuals -- only usable where the helper merely hands it on
        # (`f(**kw)`), which the caller of _bind checks
        m[fn.args.kwarg.arg] = ast.Dict(keys=[ast.Constant(value=k.arg) for k in surplus], values=[k.value for k in surplus])
    a = fn.args
    allpos = a.posonlyargs + a.args
    dflt = {}
    for p, d in zip(allpos[len(allpos) - len(a.defaults):], a.defaults):
        dflt[p.arg] = d
    for p, d in zip(a.kwonlyargs, a.kw_defaults):
        if d is not None:
            dflt[p.arg] = d
    for p in pos + kwo:
        if p not in m:
            d = dflt.get(p)
            if d is None or not isinstance(d, (ast.Constant, ast.Name, ast.Attribute)) or (isinstance(d, ast.Tuple) and d.elts):
                if isinstance(d, ast.Tuple) and not d.elts:
                    m[p] = d
                    continue
                return None
            if isinstance(d, ast.Name) and d.id in caller_locals:
                return None
            m[p] = d
    return m


def _expand(fn, call, is_method, caller_locals, want_value, tag=None):
    """-> (statements, value expr | None) replacing the call, or None"""
    sl = _structured(fn)
    if sl is None:
        return None
    body, ret = sl
    m = _bind(fn, call, is_method, caller_locals)
    if m is None:
        return None
    pos, kwo = _params(fn)
    params = set(pos + kwo)
    if fn.args.kwarg:
        kwn = fn.args.kwarg.arg
        uses_ = [x for st_ in body + ([ret] if ret is not None else []) for x in ast.walk(st_) if isinstance(x, ast.Name) and x.id == kwn]
        splats_ = [k_.value for st_ in body + ([ret] if ret is not None else []) for x in ast.walk(st_) if isinstance(x, ast.Call) for k_ in x.keywords if k_.arg is None]
        if len(uses_) != 1 or not any(u_ is s_ for u_ in uses_ for s_ in splats_):
            return None          # the mapping is inspected or used twice: not read through
        dct = m[kwn]
        if not all(isinstance(v_, _PLAIN) for v_ in dct.values):
            # the surplus actuals are evaluated at the call, before the body: keep that order with temporaries
            return None
    stored = _stored_names(body)
    loaded = {x.id for st in body + ([ret] if ret is not None else []) for x in ast.walk(st) if isinstance(x, ast.Name) and isinstance(x.ctx, ast.Load)}
    free = loaded - params - stored
    if free & caller_locals - ({"self"} if is_method else set()):
        return None
    if is_method and "self" in stored:
        return None
    if tag is None:
        _Site.counter += 1
        tag = "h%d" % _Site.counter
    pre = []
    subst = {}
    names = {}
    for p in pos + kwo:
        if p == "self" and is_method:
            continue
        a = m.get(p)
        if a is None:
            return None
        uses = sum(1 for st in body + ([ret] if ret is not None else []) for x in ast.walk(st) if isinstance(x, ast.Name) and x.id == p and isinstance(x.ctx, ast.Load))
        container = (fn.args.vararg is not None and p == fn.args.vararg.arg and isinstance(a, ast.Tuple) and all(isinstance(e_, _PLAIN) for e_ in a.elts)) or \
            (fn.args.kwarg is not None and p == fn.args.kwarg.arg and isinstance(a, ast.Dict) and all(isinstance(e_, _PLAIN) for e_ in a.values))
        if (isinstance(a, _PLAIN) or container) and p not in stored and not (isinstance(a, ast.Name) and a.id in stored):
            subst[p] = a
        elif uses == 0 and _is_plain_read(a) and p not in stored:
            continue
        else:
            t = "__%s_%s" % (tag, p)
            pre.append(ast.Assign(targets=[ast.Name(id=t, ctx=ast.Store())], value=_copy(a)))
            names[p] = t
    for s in stored - params:
        names[s] = "__%s_%s" % (tag, s.strip("_") if s == _RES else s)
    rn = _Rename(names, subst)
    out = pre + _prune([rn.visit(_copy(st)) for st in body])
    val = rn.visit(_copy(ret)) if ret is not None else ast.Constant(None)
    return out, val


_MODULE_DEFS = set()      # names bound, in the module being normalised, by exactly one top-level def / class and nothing else


def _decided(test):
    """True / False for a test that the substitution of the actuals has made constant (`None is None`, `<a module-level
    function> is None`, `not <that>`), else None"""
    if isinstance(test, ast.UnaryOp) and isinstance(test.op, ast.Not):
        v = _decided(test.operand)
        return None if v is None else (not v)
    if isinstance(test, ast.Compare) and len(test.ops) == 1 and isinstance(test.ops[0], (ast.Is, ast.IsNot)):
        a, b = test.left, test.comparators[0]

        def kind(e):
            if isinstance(e, ast.Constant) and e.value is None:
                return "none"
            if isinstance(e, ast.Constant) and isinstance(e.value, (bool, int, str)):
                return "notnone"
            if isinstance(e, ast.Name) and e.id in _MODULE_DEFS:
                return "notnone"
            return None
        ka, kb = kind(a), kind(b)
        if "none" in (ka, kb) and ka is not None and kb is not None:
            same = ka == kb == "none"
            return same if isinstance(test.ops[0], ast.Is) else not same
    return None


def _prune(stmts):
    """drop the arms of `if`s whose test the substitution has decided"""
    out = []
    for st in stmts:
        if isinstance(st, ast.If):
            v = _decided(st.test)
            if v is not None:
                out.extend(_prune(st.body if v else st.orelse))
                continue
        for fld in ("body", "orelse", "finalbody"):
            blk = getattr(st, fld, None)
            if isinstance(blk, list) and blk and isinstance(blk[0], ast.stmt):
                setattr(st, fld, _prune(blk) or ([ast.Pass()] if fld == "body" else []))
        out.append(st)
    return out


def _land_result(stmts, val, targets, in_try):
    """The statements that make the caller's `targets = helper(...)` out of the inlined body and its returned expression.
    Where the helper returns one of its own locals (or a tuple display of them) into plain names of the caller that the
    inlined block does not mention, the local simply *is* the caller's name from the start (no copy at the end) -- not
    inside a `try`, where a failure half way would leave the caller's name changed."""
    def names_in(nodes):
        return {x.id for n in nodes for x in ast.walk(n) if isinstance(x, ast.Name)}
    if len(targets) != 1:
        return stmts + [ast.Assign(targets=targets, value=val)]
    tg = targets[0]
    pairs = None
    if isinstance(tg, ast.Name):
        pairs = [(tg, val)]
    elif isinstance(tg, ast.Tuple) and isinstance(val, ast.Tuple) and len(tg.elts) == len(val.elts) and all(isinstance(t, ast.Name) for t in tg.elts) \
            and len({t.id for t in tg.elts}) == len(tg.elts):
        pairs = list(zip(tg.elts, val.elts))
    if pairs is None:
        return stmts + [ast.Assign(targets=targets, value=val)]
    mentioned = names_in(stmts) | names_in([val])
    ren = {}
    if not in_try:
        for t, v in pairs:
            if isinstance(v, ast.Name) and v.id.startswith("__") and t.id not in mentioned and v.id not in ren \
                    and sum(1 for _, v2 in pairs if isinstance(v2, ast.Name) and v2.id == v.id) == 1:
                ren[v.id] = t.id
    if ren:
        rn = _Rename(ren, {})
        stmts = [rn.visit(s) for s in stmts]
        pairs = [(t, rn.visit(v)) for t, v in pairs]
    rest = [(t, v) for t, v in pairs if not (isinstance(v, ast.Name) and v.id == t.id)]
    # single assignments in order are the tuple assignment when no remaining target is read by a later remaining value
    ok_seq = all(t.id not in names_in([v2 for _, v2 in rest[i + 1:]]) for i, (t, _) in enumerate(rest))
    if ok_seq:
        return stmts + [ast.Assign(targets=[ast.Name(id=t.id, ctx=ast.Store())], value=v) for t, v in rest]
    return stmts + [ast.Assign(targets=[ast.Tuple(elts=[ast.Name(id=t.id, ctx=ast.Store()) for t, _ in rest], ctx=ast.Store())], value=ast.Tuple(elts=[v for _, v in rest], ctx=ast.Load()))]


def _single_expr(fn):
    """the helper as one expression (single-use temporaries of its prologue folded), or None"""
    sl = _straight_line(fn)
    if sl is None:
        return None
    body, ret = sl
    if ret is None:
        return None
    env = {}
    pos, kwo = _params(fn)
    for st in body:
        if not (isinstance(st, ast.Assign) and len(st.targets) == 1 and isinstance(st.targets[0], ast.Name)):
            return None
        t = st.targets[0].id
        if t in env or t in pos + kwo:
            return None
        env[t] = _Rename({}, env).visit(_copy(st.value))
    if env:
        for t in env:
            # folding moves the evaluation of the temporary's value to where it is used: only for values without effects
            if not _is_pure(env[t]):
                return None
        ret = _Rename({}, env).visit(_copy(ret))
    if any(isinstance(x, (ast.ListComp, ast.SetComp, ast.DictComp, ast.GeneratorExp)) for x in ast.walk(ret)):
        return None
    return ret


def _expr_inline(fn, call, is_method, caller_locals):
    e = _single_expr(fn)
    if e is None:
        return None
    m = _bind(fn, call, is_method, caller_locals)
    if m is None:
        return None
    pos, kwo = _params(fn)
    params = set(pos + kwo)
    loaded = {x.id for x in ast.walk(e) if isinstance(x, ast.Name)}
    if (loaded - params) & caller_locals - ({"self"} if is_method else set()):
        return None
    subst = {}
    for p in pos + kwo:
        if p == "self" and is_method:
            continue
        a = m.get(p)
        if a is None:
            return None
        # the actual is evaluated where the parameter is used instead of before the body: names and constants always may;
        # other effect-free reads only when nothing in the helper's expression could change what they read
        if not isinstance(a, _PLAIN) and not (_is_plain_read(a) and _is_pure(e)):
            return None
        subst[p] = a
    return _Rename({}, subst).visit(_copy(e))


def inline_new_helpers(tree, modname, other_sources=""):
    """Rewrite `tree` in place; returns the list of (caller qualname, helper qualname) pairs inlined.  A new private
    helper that no longer has any reference left (in this module's tree or, by name, in `other_sources`) is dropped
    from the tree: every use has been read through, and rules that scan all functions of a module would otherwise
    judge the orphaned copy on its own (a function that opens one of its parameters for writing, say)."""
    known = known_functions()
    if not known:
        return []
    table = qualnames(tree, modname)
    # a function that carries the name of a known function of this module (leading underscores aside) is that function moved to
    # another scope -- a closure turned into a method, a method into a module-level function -- and keeps the role the rules
    # know it by: it is not read through
    known_simple = {q.rsplit(".", 1)[1].lstrip("_") for q in known if q.startswith(modname + ".")}
    new = {q: fn for q, fn in table.items() if q not in known and q.rsplit(".", 1)[1].lstrip("_") not in known_simple}
    if not new:
        return []
    _MODULE_DEFS.clear()
    top_defs = [st.name for st in tree.body if isinstance(st, (ast.FunctionDef, ast.ClassDef))]
    rebound = _stored_names([st for st in tree.body if not isinstance(st, (ast.FunctionDef, ast.ClassDef))]) | \
        {nm for x in ast.walk(tree) if isinstance(x, ast.Global) for nm in x.names}
    _MODULE_DEFS.update(n for n in top_defs if top_defs.count(n) == 1 and n not in rebound)
    done = []
    classes = {}

    def find_classes(body, prefix):
        for st in body:
            if isinstance(st, ast.ClassDef):
                classes[prefix + "." + st.name] = st
                find_classes(st.body, prefix + "." + st.name)
    find_classes(tree.body, modname)
    # how often each method name is defined in the module (an overridden helper is left alone)
    meth_defs = {}
    for q, fn in table.items():
        meth_defs.setdefault(fn.name, []).append(q)

    def resolve(call, caller_q, cls_q):
        f = call.func
        if isinstance(f, ast.Name):
            # innermost enclosing scope that defines the name
            parts = caller_q.split(".")
            for i in range(len(parts), 0, -1):
                scope = ".".join(parts[:i])
                if scope in classes:
                    continue          # a class body is not an enclosing scope of its methods
                q = scope + "." + f.id
                if q in table:
                    return (new[q], q, False) if q in new else None
            return None
        if isinstance(f, ast.Attribute) and isinstance(f.value, ast.Name) and f.value.id == "self" and cls_q is not None:
            q = cls_q + "." + f.attr
            if q in new and len(meth_defs.get(f.attr, [])) == 1 and table.get(caller_q) is not None and table[caller_q].args.args and table[caller_q].args.args[0].arg == "self":
                return new[q], q, True
        return None

    def process(fn, q, cls_q, depth=0):
        own_locals = _func_locals(fn)
        parts_ = q.split(".")

        def capture_for(callee_q):
            """names that mean something else at the call site than in the helper: the locals of every function scope from the
            call site outwards, up to (not including) the scope in which the helper is defined"""
            defining = callee_q.rsplit(".", 1)[0]
            taken = set()
            for i_ in range(len(parts_), 0, -1):
                sq = ".".join(parts_[:i_])
                if sq == defining:
                    break
                enc = table.get(sq)
                if enc is not None:
                    taken |= own_locals if enc is fn else _func_locals(enc)
            return taken
        changed_any = False
        occ = {}

        def tag_for(helper_q):
            """a name for this call site that depends only on the caller's own text: helper name + occurrence in the caller"""
            hn = helper_q.rsplit(".", 1)[1].strip("_")
            while True:
                occ[hn] = occ.get(hn, 0) + 1
                t_ = "%s%s" % (hn, "" if occ[hn] == 1 else occ[hn])
                if not any(x.startswith("__%s_" % t_) for x in own_locals):
                    return t_

        def do_block(stmts, in_try=False):
            nonlocal changed_any
            out = []
            for st in stmts:
                call = None
                kind = None
                if isinstance(st, ast.Expr) and isinstance(st.value, ast.Call):
                    call, kind = st.value, "expr"
                elif isinstance(st, ast.Assign) and isinstance(st.value, ast.Call):
                    call, kind = st.value, "assign"
                elif isinstance(st, ast.Return) and isinstance(st.value, ast.Call):
                    call, kind = st.value, "return"
                rep = None
                if call is not None and resolve(call, q, cls_q) is not None:
                    # an argument that is itself a call of a new helper is bound to a temporary first (only when everything
                    # evaluated before it is a plain name / constant, so the order of evaluation is kept); the next round
                    # then sees two statements it can read through
                    allargs = list(call.args) + [k_.value for k_ in call.keywords]
                    for i_, a_ in enumerate(allargs):
                        if isinstance(a_, ast.Call) and resolve(a_, q, cls_q) is not None and all(isinstance(b_, _PLAIN) for b_ in allargs[:i_]) \
                                and not (isinstance(call.func, ast.Attribute) and not _is_plain_read(call.func.value)):
                            t_ = "__arg_" + tag_for("." + (a_.func.id if isinstance(a_.func, ast.Name) else a_.func.attr))
                            asg = ast.Assign(targets=[ast.Name(id=t_, ctx=ast.Store())], value=a_)
                            nm_ = ast.Name(id=t_, ctx=ast.Load())
                            if i_ < len(call.args):
                                call.args[i_] = nm_
                            else:
                                call.keywords[i_ - len(call.args)].value = nm_
                            for x in list(ast.walk(asg)) + [nm_]:
                                x.lineno, x.col_offset = st.lineno, st.col_offset
                                x.end_lineno, x.end_col_offset = getattr(st, "end_lineno", st.lineno), getattr(st, "end_col_offset", st.col_offset)
                            own_locals.add(t_)
                            out.append(asg)
                            changed_any = True
                            break
                if call is not None:
                    r = resolve(call, q, cls_q)
                    if r is not None and r[0] is not fn and not any(isinstance(x, ast.Call) and resolve(x, q, cls_q) is not None for a in list(call.args) + [k.value for k in call.keywords] for x in ast.walk(a)):
                        ex = _expand(r[0], call, r[2], capture_for(r[1]), kind != "expr", tag_for(r[1]))
                        if ex is not None:
                            stmts2, val = ex
                            if kind == "assign":
                                stmts2 = _land_result(stmts2, val, st.targets, in_try)
                            elif kind == "return":
                                stmts2 = stmts2 + [ast.Return(value=val)]
                            elif not isinstance(val, ast.Constant):
                                stmts2 = stmts2 + [ast.Expr(value=val)]
                            for s2 in stmts2:
                                for x in ast.walk(s2):
                                    x.lineno, x.col_offset = st.lineno, st.col_offset
                                    x.end_lineno, x.end_col_offset = getattr(st, "end_lineno", st.lineno), getattr(st, "end_col_offset", st.col_offset)
                            own_locals.update(_stored_names(stmts2))
                            rep = stmts2
                            done.append((q, r[1]))
                            changed_any = True
                if rep is not None:
                    out.extend(rep)
                    continue
                # `if helper(...):` / `if not helper(...):` with a helper that is not a single expression: the test is bound to
                # a temporary first (an `if` evaluates its test exactly once, before anything else)
                if isinstance(st, ast.If) and not getattr(st, "_elif", False):
                    tcall = st.test.operand if isinstance(st.test, ast.UnaryOp) and isinstance(st.test.op, ast.Not) else st.test
                    if isinstance(tcall, ast.Call) and resolve(tcall, q, cls_q) is not None and _structured(resolve(tcall, q, cls_q)[0]) is not None:
                        t_ = "__test_" + tag_for("." + (tcall.func.id if isinstance(tcall.func, ast.Name) else tcall.func.attr))
                        asg = ast.Assign(targets=[ast.Name(id=t_, ctx=ast.Store())], value=tcall)
                        nm_ = ast.Name(id=t_, ctx=ast.Load())
                        if tcall is st.test:
                            st.test = nm_
                        else:
                            st.test.operand = nm_
                        for x in list(ast.walk(asg)) + [nm_]:
                            x.lineno, x.col_offset = st.lineno, st.col_offset
                            x.end_lineno, x.end_col_offset = st.lineno, st.col_offset
                        own_locals.add(t_)
                        out.append(asg)
                        changed_any = True
                if isinstance(st, (ast.FunctionDef, ast.AsyncFunctionDef, ast.ClassDef)):
                    out.append(st)
                    continue
                for fld in ("body", "orelse", "finalbody"):
                    blk = getattr(st, fld, None)
                    if isinstance(blk, list) and blk and isinstance(blk[0], ast.stmt):
                        setattr(st, fld, do_block(blk, in_try or isinstance(st, ast.Try)))
                for h in getattr(st, "handlers", []) or []:
                    h.body = do_block(h.body, True)
                out.append(st)
            return out

        # expression level
        class X(ast.NodeTransformer):
            def visit_FunctionDef(self, n):
                return n if n is not fn else self.generic_visit(n)
            visit_AsyncFunctionDef = visit_FunctionDef

            def visit_ClassDef(self, n):
                return n

            def visit_Lambda(self, n):
                return n

            def visit_Call(self, c):
                self.generic_visit(c)
                r = resolve(c, q, cls_q)
                if r is None or r[0] is fn:
                    return c
                e = _expr_inline(r[0], c, r[2], capture_for(r[1]))
                if e is None:
                    return c
                for x in ast.walk(e):
                    x.lineno, x.col_offset = c.lineno, c.col_offset
                    x.end_lineno, x.end_col_offset = getattr(c, "end_lineno", c.lineno), getattr(c, "end_col_offset", c.col_offset)
                done.append((q, r[1]))
                nonlocal changed_any
                changed_any = True
                return e
        X().visit(fn)
        fn.body = do_block(fn.body)
        if changed_any and depth < 3:
            process(fn, q, cls_q, depth + 1)

    def owner_class(q):
        """the class whose method (or a closure of whose method) q is"""
        best = None
        for cq in classes:
            if q.startswith(cq + ".") and (best is None or len(cq) > len(best)):
                best = cq
        return best
    for q, fn in sorted(table.items(), key=lambda kv: -kv[0].count(".")):
        process(fn, q, owner_class(q))
    # drop orphaned private helpers
    import re as _re
    inlined_helpers = {h for _, h in done}
    changed = True
    while changed:
        changed = False
        for hq in sorted(inlined_helpers):
            fn = new.get(hq)
            if fn is None:
                continue
            nm = fn.name
            is_closure = hq.rsplit(".", 1)[0] in table          # a local function: nothing outside its enclosing function can name it
            if not is_closure and (not nm.startswith("_") or nm.startswith("__") or _re.search(r"\b%s\b" % _re.escape(nm), other_sources)):
                continue
            refs = 0
            for x in ast.walk(tree):
                if x is fn:
                    continue
                if (isinstance(x, ast.Name) and x.id == nm) or (isinstance(x, ast.Attribute) and x.attr == nm) or (isinstance(x, ast.Constant) and x.value == nm):
                    refs += 1
            # references from inside its own body do not keep it alive
            refs -= sum(1 for x in ast.walk(fn) if (isinstance(x, ast.Name) and x.id == nm) or (isinstance(x, ast.Attribute) and x.attr == nm) or (isinstance(x, ast.Constant) and x.value == nm))
            if refs > 0:
                continue
            for parent in ast.walk(tree):
                for fld in ("body", "orelse", "finalbody"):
                    blk = getattr(parent, fld, None)
                    if isinstance(blk, list) and fn in blk:
                        blk.remove(fn)
                        if not blk:
                            blk.append(ast.Pass(lineno=fn.lineno, col_offset=fn.col_offset, end_lineno=fn.lineno, end_col_offset=fn.col_offset))
                        new.pop(hq, None)
                        inlined_helpers.discard(hq)
                        changed = True
    ast.fix_missing_locations(tree)
    return done
