"""./check <ID> [--tier quick|thorough] [--repo DIR] [--evidence FILE]

Exit 0: every rule of the property held on the current tree.
Exit 1: ``VIOLATION property=<ID> replay=<file>`` for a finding not listed as
        known.
Exit 2: ``ANALYSIS-ERROR``: the analysis could not be carried out (lost
        anchor, unknown idiom, fewer rule instances than confirmed by hand).
"""
import argparse
import fnmatch
import importlib
import os
import sys
import time
import traceback

from .loader import Program, AnalysisError
from .callgraph import Resolver
from . import report


def run_property(prop, tier, repo, evidence_path=None, quiet=False, write=True):
    """Returns (exit_code, findings, ctx)."""
    t0 = time.time()
    out = []

    def say(s):
        out.append(s)
        if not quiet:
            print(s)
            sys.stdout.flush()

    try:
        mod = importlib.import_module("xyzsa.props." + prop.lower())
    except ImportError as e:
        say("ANALYSIS-ERROR property=%s no checker module: %s" % (prop, e))
        return 2, [], None, out
    incomplete = None
    try:
        prog = Program(repo)
        res = Resolver(prog)
        ctx = report.Context(prop, prog, res, tier, repo)
        mod.run(ctx)
        for r in ctx.results:
            if r.instances < r.floor and not r.findings:
                raise AnalysisError("rule %s examined %d instance(s), fewer than the %d confirmed by hand: anchor lost or idiom changed (%s)"
                                    % (r.rule, r.instances, r.floor, r.title))
    except AnalysisError as e:
        got = [f for r in (ctx.results if 'ctx' in dir() else []) for f in r.findings]
        if not got:
            say("ANALYSIS-ERROR property=%s %s" % (prop, e))
            return 2, [], None, out
        # violations already established remain violations; the rest of the
        # analysis could not be carried out on this tree
        say("ANALYSIS-INCOMPLETE property=%s %s (reporting the violations found before)" % (prop, e))
        incomplete = str(e)
    except Exception as e:  # a crash of the checker is never a verdict
        say("ANALYSIS-ERROR property=%s internal error: %r" % (prop, e))
        if not quiet:
            traceback.print_exc()
        return 2, [], None, out

    findings = [f for r in ctx.results for f in r.findings]
    # de-duplicate by key
    seen, uniq = set(), []
    for f in findings:
        if f.key not in seen:
            seen.add(f.key)
            uniq.append(f)
    findings = uniq
    known = [k for k in report.load_known() if k.get("property") == prop and k.get("status") == "known"]
    new = []
    for f in findings:
        # a known finding is identified by rule + construct; its function part may name a class prefix ("...Harvester.*") so that
        # moving the same construct into a private helper of that class does not turn a known defect into a new alarm
        k = next((k for k in known if k.get("key") == f.key or ("*" in k.get("key", "") and fnmatch.fnmatchcase(f.key, k.get("key")))), None)
        if k is not None:
            say("KNOWN-FINDING: property=%s %s [%s %s:%s]" % (prop, k.get("what", f.message), f.rule, f.file, f.line))
        else:
            new.append(f)

    say("property %s tier=%s: %d units, %d functions analysed, %d cfg nodes" % (
        prop, tier, len(prog.units), len(ctx.analysed_funcs), ctx.cfg_nodes))
    for r in ctx.results:
        say("  rule %-9s instances=%-3d floor=%-3d findings=%d  %s" % (r.rule, r.instances, r.floor, len(r.findings), r.title))
    code = 0
    replay_paths = []
    for i, f in enumerate(new):
        if write:
            pth = report.write_finding(prop, i + 1, f)
        else:
            pth = "-"
        replay_paths.append(pth)
        say("  %s:%s: [%s] in %s: %s%s" % (f.file, f.line, f.rule, f.func, f.message, (" | " + f.path) if f.path else ""))
        say("VIOLATION property=%s replay=%s" % (prop, pth))
        code = 1
    if write:
        report.write_evidence(
            prop, tier, int(os.environ.get("VERIF_SEED", "0") or 0), ctx, time.time() - t0,
            len(new), getattr(mod, "LEVEL", "other"), ctx.extra,
            getattr(mod, "ASSUMPTIONS", []), getattr(mod, "NOT_DECIDED", []),
            getattr(mod, "EXPLANATION", ""), evidence_path)
    if code == 0 and incomplete is not None:
        # only recorded (known) findings were established before the analysis broke off: that is neither a pass nor a new violation
        say("ANALYSIS-ERROR property=%s %s" % (prop, incomplete))
        code = 2
    if code == 0:
        say("OK property=%s held on everything analysed (%.2fs)" % (prop, time.time() - t0))
    ctx.all_findings = findings
    return code, new, ctx, out


def main(argv=None):
    ap = argparse.ArgumentParser(prog="check")
    ap.add_argument("prop")
    ap.add_argument("--tier", default=os.environ.get("VERIF_TIER") or "quick", choices=["quick", "thorough"])
    ap.add_argument("--repo", default="/repo")
    ap.add_argument("--evidence", default=None)
    ap.add_argument("--explain", default=None, help="re-evaluate and print one finding file")
    ap.add_argument("--no-selftest", action="store_true")
    a = ap.parse_args(argv)
    prop = a.prop.upper()
    # evidence and finding files describe /repo; a run on a scratch copy (--repo DIR) writes them only where --evidence says
    write = os.path.abspath(a.repo) == "/repo" or a.evidence is not None
    code, findings, ctx, _ = run_property(prop, a.tier, a.repo, a.evidence, write=write)
    if a.explain:
        import json
        want = json.load(open(a.explain))
        hit = [f for f in getattr(ctx, 'all_findings', findings) if f.key == want.get("key")]
        print("replay: finding %s is %s on the current tree" % (want.get("key"), "PRESENT" if hit else "absent"))
        for f in hit:
            print("  ", f)
    if code != 2 and a.tier == "thorough" and not a.no_selftest:
        try:
            from .selftest import run as selftest_run
            st_code = selftest_run(prop, a.repo, a.evidence, frozenset(f.key for f in (getattr(ctx, 'all_findings', None) or findings)))
            if st_code == 2:
                code = 2 if code == 0 else code
        except ImportError:
            pass
        except Exception as e:
            print("ANALYSIS-ERROR property=%s selftest crashed: %r" % (prop, e))
            traceback.print_exc()
            code = 2 if code == 0 else code
    return code


if __name__ == "__main__":
    sys.exit(main())
